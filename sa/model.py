"""L0-L2: loader, class table (C3 MRO, CHA), attribute kinds.

Everything here is computed from the syntax trees of /repo/pypika_tortoise (or the tree
named by VERIF_REPO); the package is never imported or executed.
"""
from __future__ import annotations

import ast
import hashlib
import os
from pathlib import Path

PKG = "pypika_tortoise"


class AnalysisError(Exception):
    """The engine cannot analyse the tree (exit 2, never a verdict)."""


def repo_root() -> Path:
    return Path(os.environ.get("VERIF_REPO", "/repo"))


# --------------------------------------------------------------------------------------
# L0


class FuncInfo:
    def __init__(self, module: "Module", node: ast.FunctionDef, cls: "ClassInfo | None"):
        self.module = module
        self.node = node
        self.cls = cls
        self.name = node.name
        self.decorators = [_deco_name(d) for d in node.decorator_list]
        a = node.args
        self.params = [x.arg for x in a.posonlyargs + a.args]
        self.vararg = a.vararg.arg if a.vararg else None
        self.kwarg = a.kwarg.arg if a.kwarg else None
        self.kwonly = [x.arg for x in a.kwonlyargs]

    @property
    def qualname(self) -> str:
        if self.cls is not None:
            return f"{self.cls.qualname}.{self.name}"
        return f"{self.module.short}.{self.name}"

    @property
    def is_static(self) -> bool:
        return "staticmethod" in self.decorators

    @property
    def is_classmethod(self) -> bool:
        return "classmethod" in self.decorators

    @property
    def is_property(self) -> bool:
        return "property" in self.decorators or "cached_property" in self.decorators

    @property
    def is_cached_property(self) -> bool:
        return "cached_property" in self.decorators

    @property
    def is_builder(self) -> bool:
        return "builder" in self.decorators

    @property
    def is_overload(self) -> bool:
        return "overload" in self.decorators

    def loc(self, node: ast.AST | None = None) -> str:
        n = node if node is not None else self.node
        return f"{self.module.relpath}:{getattr(n, 'lineno', self.node.lineno)}"

    def __repr__(self) -> str:
        return f"<Func {self.qualname}>"


def _deco_name(d: ast.expr) -> str:
    if isinstance(d, ast.Call):
        d = d.func
    if isinstance(d, ast.Attribute):
        return d.attr
    if isinstance(d, ast.Name):
        return d.id
    return ast.unparse(d)


class ClassInfo:
    def __init__(self, module: "Module", node: ast.ClassDef, outer: "ClassInfo | None"):
        self.module = module
        self.node = node
        self.outer = outer
        self.name = node.name
        self.methods: dict[str, FuncInfo] = {}
        self.class_attrs: dict[str, ast.expr] = {}
        self.class_annos: dict[str, ast.expr] = {}
        self.nested: dict[str, ClassInfo] = {}
        self.base_exprs = list(node.bases)
        self.bases: list[ClassInfo] = []  # resolved package classes
        self.extern_bases: list[str] = []
        self.decorators = [_deco_name(d) for d in node.decorator_list]
        self.mro: list[ClassInfo] = []
        self.subclasses: list[ClassInfo] = []  # direct

    @property
    def qualname(self) -> str:
        """Short, unique name used in finding keys (module prefix only if ambiguous)."""
        q = self.name if self.outer is None else f"{self.outer.name}.{self.name}"
        if self.module.program.ambiguous.get(q):
            return f"{self.module.short}.{q}"
        return q

    @property
    def fullname(self) -> str:
        q = self.name if self.outer is None else f"{self.outer.name}.{self.name}"
        return f"{self.module.name}.{q}"

    def resolve(self, name: str) -> FuncInfo | None:
        for c in self.mro:
            f = c.methods.get(name)
            if f is not None:
                return f
        return None

    def resolve_after(self, after: "ClassInfo", name: str) -> FuncInfo | None:
        """super() lookup: first definition of name strictly after `after` in self.mro."""
        seen = False
        for c in self.mro:
            if seen:
                f = c.methods.get(name)
                if f is not None:
                    return f
            if c is after:
                seen = True
        return None

    def class_attr(self, name: str) -> tuple["ClassInfo", ast.expr] | None:
        for c in self.mro:
            if name in c.class_attrs:
                return c, c.class_attrs[name]
        return None

    def is_subclass_of(self, other: "ClassInfo") -> bool:
        return other in self.mro

    def has_extern_base(self, name: str) -> bool:
        return any(name in c.extern_bases for c in self.mro)

    def all_subclasses(self) -> list["ClassInfo"]:
        out, todo = [], list(self.subclasses)
        while todo:
            c = todo.pop()
            if c not in out:
                out.append(c)
                todo.extend(c.subclasses)
        return out

    def __repr__(self) -> str:
        return f"<Class {self.qualname}>"


class _MatchDesugar(ast.NodeTransformer):
    """`match x: case K(): ... case V: ... case _: ...` read as the if / elif chain it abbreviates, so that every analysis
    (syntactic rules, effect engine, symbolic evaluator) sees one statement kind.  Understood: class patterns (with keyword
    sub-patterns; one positional sub-pattern for the builtin scalar types), value patterns, None / True / False,
    or-patterns, sequence patterns (with one star), captures, wildcards, `as` bindings and guards; a tuple display as the
    subject is matched element by element.  A name bound by a pattern is an alias of a piece of the subject: guards are
    read with the alias replaced by that piece, so the chain stays a plain if / elif.  Mapping patterns and class
    patterns with positional sub-patterns of package classes leave the statement as it is (reported as unsupported)."""
    n = 0
    SCALARS = ("str", "int", "float", "bool", "bytes", "list", "tuple", "dict", "set", "frozenset")

    @staticmethod
    def _and(tests):
        tests = [t for t in tests if t is not None]
        if not tests:
            return None
        return tests[0] if len(tests) == 1 else ast.BoolOp(op=ast.And(), values=tests)

    def _pat(self, pat, subj):
        """(test expression or None for 'always', [(name, expression)] bindings)"""
        if isinstance(pat, ast.MatchValue):
            return ast.Compare(left=subj, ops=[ast.Eq()], comparators=[pat.value]), []
        if isinstance(pat, ast.MatchSingleton):
            return ast.Compare(left=subj, ops=[ast.Is()], comparators=[ast.Constant(value=pat.value)]), []
        if isinstance(pat, ast.MatchClass):
            tests = [ast.Call(func=ast.Name(id="isinstance", ctx=ast.Load()), args=[subj, pat.cls], keywords=[])]
            binds = []
            if pat.patterns:
                if len(pat.patterns) != 1 or not (isinstance(pat.cls, ast.Name) and pat.cls.id in self.SCALARS):
                    raise ValueError("class pattern with positional sub-patterns")
                t, b = self._pat(pat.patterns[0], subj)     # builtin scalars match the subject itself
                tests.append(t)
                binds += b
            for attr, sub in zip(pat.kwd_attrs, pat.kwd_patterns):
                piece = ast.Attribute(value=subj, attr=attr, ctx=ast.Load())
                tests.append(ast.Call(func=ast.Name(id="hasattr", ctx=ast.Load()), args=[subj, ast.Constant(value=attr)], keywords=[]))
                t, b = self._pat(sub, piece)
                tests.append(t)
                binds += b
            return self._and(tests), binds
        if isinstance(pat, ast.MatchOr):
            tests, binds = [], None
            for sub in pat.patterns:
                t, b = self._pat(sub, subj)
                if t is None:
                    return None, b
                tests.append(t)
                if binds is None:
                    binds = b
                elif [x for x, _ in b] != [x for x, _ in binds] or any(ast.dump(e1) != ast.dump(e2) for (_, e1), (_, e2) in zip(b, binds)):
                    raise ValueError("alternatives bind names to different pieces")
            return ast.BoolOp(op=ast.Or(), values=tests), binds or []
        if isinstance(pat, ast.MatchAs):
            binds = [(pat.name, subj)] if pat.name else []
            if pat.pattern is None:
                return None, binds
            t, b = self._pat(pat.pattern, subj)
            return t, b + binds
        if isinstance(pat, ast.MatchSequence):
            stars = [i for i, x in enumerate(pat.patterns) if isinstance(x, ast.MatchStar)]
            if len(stars) > 1:
                raise ValueError("two stars")
            n = len(pat.patterns)
            if isinstance(subj, ast.Tuple) and not stars and len(subj.elts) == n:
                tests, binds = [], []          # `match a, b: case x, y:` -- element by element
                for sub, piece in zip(pat.patterns, subj.elts):
                    t, b = self._pat(sub, piece)
                    tests.append(t)
                    binds += b
                return self._and(tests), binds
            if isinstance(subj, ast.Tuple):
                raise ValueError("tuple subject against a pattern of another shape")
            tests = [ast.Call(func=ast.Name(id="isinstance", ctx=ast.Load()), args=[subj, ast.Tuple(elts=[ast.Name(id="list", ctx=ast.Load()), ast.Name(id="tuple", ctx=ast.Load())], ctx=ast.Load())], keywords=[])]
            ln = ast.Call(func=ast.Name(id="len", ctx=ast.Load()), args=[subj], keywords=[])
            fixed = n - len(stars)
            tests.append(ast.Compare(left=ln, ops=[ast.GtE() if stars else ast.Eq()], comparators=[ast.Constant(value=fixed)]))
            binds = []
            k = stars[0] if stars else n
            for i, sub in enumerate(pat.patterns):
                if isinstance(sub, ast.MatchStar):
                    if sub.name:
                        hi = None if i == n - 1 else ast.UnaryOp(op=ast.USub(), operand=ast.Constant(value=n - 1 - i))
                        binds.append((sub.name, ast.Subscript(value=subj, slice=ast.Slice(lower=ast.Constant(value=i), upper=hi), ctx=ast.Load())))
                    continue
                idx = ast.Constant(value=i) if i < k else ast.UnaryOp(op=ast.USub(), operand=ast.Constant(value=n - i))
                t, b = self._pat(sub, ast.Subscript(value=subj, slice=idx, ctx=ast.Load()))
                tests.append(t)
                binds += b
            return self._and(tests), binds
        raise ValueError(type(pat).__name__)

    def visit_Match(self, node: ast.Match):
        self.generic_visit(node)
        pre = []
        subj = node.subject

        def simple(e):
            return isinstance(e, (ast.Name, ast.Constant)) or (isinstance(e, ast.Attribute) and simple(e.value))
        if isinstance(subj, ast.Tuple):
            elts = []
            for e in subj.elts:
                if simple(e):
                    elts.append(e)
                else:
                    _MatchDesugar.n += 1
                    tmp = f"__match{_MatchDesugar.n}"
                    pre.append(ast.Assign(targets=[ast.Name(id=tmp, ctx=ast.Store())], value=e))
                    elts.append(ast.Name(id=tmp, ctx=ast.Load()))
            subj = ast.Tuple(elts=elts, ctx=ast.Load())
        elif not simple(subj):
            _MatchDesugar.n += 1
            tmp = f"__match{_MatchDesugar.n}"
            pre.append(ast.Assign(targets=[ast.Name(id=tmp, ctx=ast.Store())], value=subj))
            subj = ast.Name(id=tmp, ctx=ast.Load())
        try:
            arms = []
            for case in node.cases:
                t, binds = self._pat(case.pattern, subj)
                if case.guard is not None:
                    import copy as _copy
                    g = _copy.deepcopy(case.guard)
                    mp = {nm: ex for nm, ex in binds}

                    class _Sub(ast.NodeTransformer):
                        def visit_Name(self, n_):
                            return _copy.deepcopy(mp[n_.id]) if isinstance(n_.ctx, ast.Load) and n_.id in mp else n_
                    g = _Sub().visit(g)
                    t = g if t is None else ast.BoolOp(op=ast.And(), values=[t, g])
                body = [ast.Assign(targets=[ast.Name(id=nm, ctx=ast.Store())], value=ex) for nm, ex in binds] + list(case.body)
                arms.append((t, body))
        except ValueError:
            return node
        chain = None
        for t, body in reversed(arms):
            if t is None:
                chain = list(body)
            else:
                chain = [ast.If(test=t, body=list(body), orelse=chain or [])]
        out = pre + (chain or [])
        for st in out:
            ast.copy_location(st, node)
            ast.fix_missing_locations(st)
        return out


class _FunctionalDesugar(ast.NodeTransformer):
    """`map(f, xs)` / `itertools.starmap(f, xs)` read as the generator expression they abbreviate, `[*map(f, xs)]` /
    `list(map(f, xs))` as the list comprehension, `{*xs}` as `set(xs)`, and a local `swap = methodcaller("m", a, b)` with
    its calls `swap(x)` as `x.m(a, b)`: the rules that look for `.replace_table(...)` calls, comprehensions over clause
    containers and `set(find_(...))` then see the same shapes whichever spelling the code uses."""
    n = 0

    def _fresh(self):
        _FunctionalDesugar.n += 1
        return f"__it{_FunctionalDesugar.n}"

    @staticmethod
    def _callee_name(fn):
        return fn.id if isinstance(fn, ast.Name) else (fn.attr if isinstance(fn, ast.Attribute) else None)

    def _gen(self, call: ast.Call, as_list: bool):
        nm = self._callee_name(call.func)
        if nm not in ("map", "starmap") or len(call.args) != 2 or call.keywords:
            return None
        f, xs = call.args
        v = self._fresh()
        arg = ast.Starred(value=ast.Name(id=v, ctx=ast.Load()), ctx=ast.Load()) if nm == "starmap" else ast.Name(id=v, ctx=ast.Load())
        elt = ast.Call(func=f, args=[arg], keywords=[])
        comp = [ast.comprehension(target=ast.Name(id=v, ctx=ast.Store()), iter=xs, ifs=[], is_async=0)]
        return ast.ListComp(elt=elt, generators=comp) if as_list else ast.GeneratorExp(elt=elt, generators=comp)

    def visit_List(self, node: ast.List):
        self.generic_visit(node)
        if len(node.elts) == 1 and isinstance(node.elts[0], ast.Starred) and isinstance(node.elts[0].value, ast.GeneratorExp) and isinstance(node.ctx, ast.Load):
            g = node.elts[0].value
            return ast.copy_location(ast.ListComp(elt=g.elt, generators=g.generators), node)
        return node

    def visit_Set(self, node: ast.Set):
        self.generic_visit(node)
        if len(node.elts) == 1 and isinstance(node.elts[0], ast.Starred):
            return ast.copy_location(ast.Call(func=ast.Name(id="set", ctx=ast.Load()), args=[node.elts[0].value], keywords=[]), node)
        return node

    def visit_Call(self, node: ast.Call):
        self.generic_visit(node)
        nm = self._callee_name(node.func)
        if nm in ("list", "tuple") and isinstance(node.func, ast.Name) and len(node.args) == 1 and isinstance(node.args[0], ast.GeneratorExp) and not node.keywords and nm == "list":
            g = node.args[0]
            return ast.copy_location(ast.ListComp(elt=g.elt, generators=g.generators), node)
        r = self._gen(node, False)
        return ast.copy_location(r, node) if r is not None else node

    def visit_FunctionDef(self, node: ast.FunctionDef):
        self.generic_visit(node)
        # local `name = methodcaller("m", *args)` bound once: its calls are method calls
        binds = {}
        stores = {}
        for n_ in ast.walk(node):
            if isinstance(n_, ast.Name) and isinstance(n_.ctx, ast.Store):
                stores[n_.id] = stores.get(n_.id, 0) + 1
        for n_ in ast.walk(node):
            if (isinstance(n_, ast.Assign) and len(n_.targets) == 1 and isinstance(n_.targets[0], ast.Name) and stores.get(n_.targets[0].id) == 1
                    and isinstance(n_.value, ast.Call) and self._callee_name(n_.value.func) == "methodcaller" and n_.value.args
                    and isinstance(n_.value.args[0], ast.Constant) and isinstance(n_.value.args[0].value, str)):
                binds[n_.targets[0].id] = n_.value
        if binds:
            class _MC(ast.NodeTransformer):
                def visit_Call(self, c):
                    self.generic_visit(c)
                    if isinstance(c.func, ast.Name) and c.func.id in binds and len(c.args) == 1 and not c.keywords and not isinstance(c.args[0], ast.Starred):
                        mc = binds[c.func.id]
                        import copy as _copy
                        return ast.copy_location(ast.Call(func=ast.Attribute(value=c.args[0], attr=mc.args[0].value, ctx=ast.Load()),
                                                          args=[_copy.deepcopy(a) for a in mc.args[1:]], keywords=[_copy.deepcopy(k) for k in mc.keywords]), c)
                    return c
            node = _MC().visit(node)
        return node


def _desugar_match(tree: ast.AST) -> ast.AST:
    if any(isinstance(n, ast.Match) for n in ast.walk(tree)):
        tree = _MatchDesugar().visit(tree)
        ast.fix_missing_locations(tree)
    src_names = {n.id for n in ast.walk(tree) if isinstance(n, ast.Name)} | {n.attr for n in ast.walk(tree) if isinstance(n, ast.Attribute)}
    if src_names & {"map", "starmap", "methodcaller"} or any(isinstance(n, ast.Set) and len(n.elts) == 1 and isinstance(n.elts[0], ast.Starred) for n in ast.walk(tree)):
        tree = _FunctionalDesugar().visit(tree)
        ast.fix_missing_locations(tree)
    tree = _normalise_constants(tree)
    return tree



_ALIAS_METHODS = {"append", "extend", "add", "update", "insert"}


def _immutable_literal(v) -> bool:
    """a str/number constant, a tuple of such or of plain names (classes, enum members), or `"<text>".format`"""
    if isinstance(v, ast.Constant) and isinstance(v.value, (str, int, float)) and not isinstance(v.value, bool):
        return True
    if isinstance(v, ast.Tuple) and v.elts:
        for e in v.elts:
            b = e
            while isinstance(b, ast.Attribute):
                b = b.value
            if not (isinstance(e, ast.Constant) and isinstance(e.value, (str, int, float)) or (isinstance(b, ast.Name) and not isinstance(e, ast.Constant))):
                return False
        return True
    if isinstance(v, ast.Attribute) and v.attr == "format" and isinstance(v.value, ast.Constant) and isinstance(v.value.value, str):
        return True
    return False


class _ConstantNames(ast.NodeTransformer):
    """Load-time normalisation: a private module-level name bound exactly once to an immutable literal (text, tuple of
    names / texts, `"...".format`) is a NAME for that literal; inside function bodies it is read as the literal, so
    hoisting a per-call literal into a module constant does not change what the rules see.  Inside one function, a local
    bound exactly once to such a literal, or to a bound container method (`append = clauses.append`), is read the same
    way: `append(x)` is `clauses.append(x)`."""

    def __init__(self, consts: dict):
        self.consts = consts
        self.count = 0

    def visit_ClassDef(self, node: ast.ClassDef):
        self.generic_visit(node)
        if self.consts:
            consts, outer = self.consts, self

            class Sub(ast.NodeTransformer):
                def visit_Name(self, n):
                    if isinstance(n.ctx, ast.Load) and n.id in consts:
                        outer.count += 1
                        return ast.copy_location(_copy_expr(consts[n.id]), n)
                    return n
            for st in node.body:        # class-level tables spelled through a module constant
                if isinstance(st, (ast.Assign, ast.AnnAssign)) and st.value is not None:
                    st.value = Sub().visit(st.value)
                    ast.fix_missing_locations(st)
        return node

    def visit_FunctionDef(self, node: ast.FunctionDef):
        # innermost functions first
        self.generic_visit(node)
        if getattr(node, "_cn_done", False):
            return node
        node._cn_done = True
        stores: dict[str, int] = {}
        for a in ast.walk(node.args):
            if isinstance(a, ast.arg):
                stores[a.arg] = stores.get(a.arg, 0) + 2
        for n_ in ast.walk(node):
            if isinstance(n_, ast.Name) and isinstance(n_.ctx, (ast.Store, ast.Del)):
                stores[n_.id] = stores.get(n_.id, 0) + 1
            elif isinstance(n_, (ast.Global, ast.Nonlocal)):
                for x in n_.names:
                    stores[x] = stores.get(x, 0) + 2
            elif isinstance(n_, (ast.FunctionDef, ast.ClassDef)) and n_ is not node:
                stores[n_.name] = stores.get(n_.name, 0) + 2
        mp = {k: v for k, v in self.consts.items() if k not in stores}
        drop = []
        # local aliases, in statement order at the top level of the body (not under a branch or loop)
        own = []            # assignments of this function (not of nested functions), at any depth

        def collect(stmts):
            for st_ in stmts:
                if isinstance(st_, (ast.FunctionDef, ast.AsyncFunctionDef, ast.ClassDef)):
                    continue
                if isinstance(st_, ast.Assign):
                    own.append((st_, stmts is node.body))
                for fld in ("body", "orelse", "finalbody"):
                    sub = getattr(st_, fld, None)
                    if isinstance(sub, list):
                        collect(sub)
                for h in getattr(st_, "handlers", []) or []:
                    collect(h.body)
        collect(node.body)
        for st, top in own:
            if isinstance(st, ast.Assign) and len(st.targets) == 1 and isinstance(st.targets[0], ast.Name) and stores.get(st.targets[0].id) == 1:
                v = st.value
                nm = st.targets[0].id
                if isinstance(v, ast.Name) and v.id in mp:
                    v = mp[v.id]
                if _immutable_literal(v) and top:
                    mp[nm] = v
                    drop.append(st)
                elif (isinstance(v, ast.Attribute) and v.attr in _ALIAS_METHODS and isinstance(v.value, ast.Name) and stores.get(v.value.id) == 1
                      and v.value.id not in [a.arg for a in ast.walk(node.args) if isinstance(a, ast.arg)]):
                    # the container is itself a local bound once: the alias means the same call wherever it is used
                    uses = [n_ for n_ in ast.walk(node) if isinstance(n_, ast.Name) and n_.id == nm and isinstance(n_.ctx, ast.Load)]
                    calls = {id(c.func) for c in ast.walk(node) if isinstance(c, ast.Call) and isinstance(c.func, ast.Name) and c.func.id == nm}
                    if uses and all(id(u) in calls for u in uses):
                        mp[nm] = v
                        drop.append(st)
        if not mp:
            return node
        used = {n_.id for n_ in ast.walk(node) if isinstance(n_, ast.Name) and isinstance(n_.ctx, ast.Load)}
        if not (used & set(mp)):
            return node
        outer = self

        class Sub(ast.NodeTransformer):
            def visit_Name(self, n):
                if isinstance(n.ctx, ast.Load) and n.id in mp:
                    outer.count += 1
                    return ast.copy_location(_copy_expr(mp[n.id]), n)
                return n

            def _scoped(self, n):
                # a nested scope that binds one of the names itself (parameter, local) means something else by it
                rebound = {a.arg for a in ast.walk(n.args) if isinstance(a, ast.arg)} | {
                    x.id for x in ast.walk(n) if isinstance(x, ast.Name) and isinstance(x.ctx, (ast.Store, ast.Del))}
                if rebound & set(mp):
                    return n
                return self.generic_visit(n)
            visit_FunctionDef = visit_Lambda = _scoped
        dropped = {id(d) for d in drop}

        class Drop(ast.NodeTransformer):
            def visit_Assign(self, n):
                return ast.copy_location(ast.Pass(), n) if id(n) in dropped else n
        for i, st in enumerate(node.body):
            node.body[i] = Sub().visit(Drop().visit(st))
        ast.fix_missing_locations(node)
        return node


def _module_constants(tree: ast.Module) -> dict:
    cnt: dict[str, int] = {}
    val: dict[str, ast.expr] = {}
    for st in tree.body:
        tg = v = None
        if isinstance(st, ast.Assign) and len(st.targets) == 1 and isinstance(st.targets[0], ast.Name):
            tg, v = st.targets[0].id, st.value
        elif isinstance(st, ast.AnnAssign) and isinstance(st.target, ast.Name) and st.value is not None:
            tg, v = st.target.id, st.value
        if tg:
            cnt[tg] = cnt.get(tg, 0) + 1
            val[tg] = v
    for n_ in ast.walk(tree):
        if isinstance(n_, ast.Global):
            for x in n_.names:
                cnt[x] = cnt.get(x, 0) + 2
    return {k: v for k, v in val.items() if cnt[k] == 1 and k.startswith("_") and _immutable_literal(v)}


def _normalise_constants(tree: ast.Module) -> ast.Module:
    tr = _ConstantNames(_module_constants(tree))
    for i, st in enumerate(tree.body):
        if isinstance(st, (ast.FunctionDef, ast.ClassDef)):
            tree.body[i] = tr.visit(st)
    return tree


class _PredicateInliner(ast.NodeTransformer):
    """Reads a call of a module-level one-expression function as that expression (load-time normalisation, like the match
    desugaring): `def _is_subquery(x): return isinstance(x, (QueryBuilder, _SetOperation))` is a NAME for a type test,
    and every analysis that judges tests by their shape (guards, narrowing, allowed conditions) has to see the test.
    Only calls whose arguments are plain references (names, attribute chains, constants) are replaced, so no
    evaluation is duplicated or reordered; everything else is left as it is (the evaluator runs the function)."""

    def __init__(self, preds: dict):
        self.preds = preds      # local name -> (params, expr)
        self.count = 0

    @staticmethod
    def _plain(e) -> bool:
        while isinstance(e, ast.Attribute):
            e = e.value
        return isinstance(e, (ast.Name, ast.Constant))

    def visit_Call(self, node):
        self.generic_visit(node)
        if isinstance(node.func, ast.Name) and node.func.id in self.preds and not node.keywords:
            params, expr = self.preds[node.func.id]
            if len(node.args) == len(params) and all(self._plain(a) for a in node.args):
                mp = dict(zip(params, node.args))

                class Sub(ast.NodeTransformer):
                    def visit_Name(self, n):
                        if n.id in mp and isinstance(n.ctx, ast.Load):
                            return ast.copy_location(_copy_expr(mp[n.id]), n)
                        return n
                new = Sub().visit(_copy_expr(expr))
                self.count += 1
                return ast.copy_location(new, node)
        return node

    def visit_FunctionDef(self, node):
        if node.name in self.preds and getattr(node, "_is_predicate_def", False):
            return node         # the definition itself stays
        self.generic_visit(node)
        return node


def _copy_expr(e):
    import copy as _copy
    return _copy.deepcopy(e)


def _simple_predicates(tree: ast.Module) -> dict:
    """module-level `def f(a, b): [docstring] return <expr>` without decorators, defaults, *args; the expression reads
    only its parameters and global names and contains no call of f itself, no lambda, no comprehension, no walrus"""
    out = {}
    for st in tree.body:
        if not isinstance(st, ast.FunctionDef) or st.decorator_list:
            continue
        a = st.args
        if a.vararg or a.kwarg or a.kwonlyargs or a.defaults or a.kw_defaults or not (1 <= len(a.posonlyargs) + len(a.args) <= 3):
            continue
        body = [b for b in st.body if not (isinstance(b, ast.Expr) and isinstance(b.value, ast.Constant) and isinstance(b.value.value, str))]
        if len(body) != 1 or not isinstance(body[0], ast.Return) or body[0].value is None:
            continue
        expr = body[0].value
        if any(isinstance(n, (ast.Lambda, ast.ListComp, ast.SetComp, ast.DictComp, ast.GeneratorExp, ast.NamedExpr, ast.Yield, ast.YieldFrom, ast.Await)) for n in ast.walk(expr)):
            continue
        if any(isinstance(n, ast.Call) and isinstance(n.func, ast.Name) and n.func.id == st.name for n in ast.walk(expr)):
            continue
        params = [x.arg for x in list(a.posonlyargs) + list(a.args)]
        # every parameter is read at most once, or the substituted argument is a plain reference anyway (checked at the call)
        st._is_predicate_def = True
        out[st.name] = (params, expr)
    return out

class Module:
    def __init__(self, program: "Program", name: str, path: Path, relpath: str):
        self.program = program
        self.name = name
        self.short = name[len(PKG) + 1 :] if name != PKG else "__init__"
        self.path = path
        self.relpath = relpath
        self.source = path.read_text()
        try:
            self.tree = _desugar_match(ast.parse(self.source, filename=str(path)))
        except SyntaxError as e:  # a tree that does not compile is not analysable
            raise AnalysisError(f"parse error in {relpath}: {e}") from None
        self.lines = self.source.splitlines()
        self.classes: dict[str, ClassInfo] = {}
        self.functions: dict[str, FuncInfo] = {}
        self.constants: dict[str, ast.expr] = {}
        self.imports: dict[str, tuple[str, str | None]] = {}  # local -> (module, name|None)
        self.is_pkg = path.name == "__init__.py"

    def excerpt(self, lineno: int, n: int = 1) -> str:
        return "\n".join(self.lines[lineno - 1 : lineno - 1 + n])


class Program:
    def __init__(self, root: Path | None = None):
        self.root = Path(root) if root else repo_root()
        self.pkgdir = self.root / PKG
        if not self.pkgdir.is_dir():
            raise AnalysisError(f"package directory not found: {self.pkgdir}")
        self.modules: dict[str, Module] = {}
        self.ambiguous: dict[str, bool] = {}
        self._load()
        self._index()
        self._link()
        self._method_aliases()
        self._attr_kinds: dict[ClassInfo, dict[str, set[str]]] = {}

    # ---- loading
    def _load(self) -> None:
        files = sorted(self.pkgdir.rglob("*.py"))
        for p in files:
            rel = p.relative_to(self.root)
            parts = list(rel.with_suffix("").parts)
            if parts[-1] == "__init__":
                parts = parts[:-1]
            name = ".".join(parts)
            self.modules[name] = Module(self, name, p, str(rel))
        self._inline_predicates()
        h = hashlib.sha256()
        for m in self.modules.values():
            h.update(m.relpath.encode())
            h.update(m.source.encode())
        self.digest = h.hexdigest()

    def _inline_predicates(self) -> None:
        """calls of module-level one-expression functions are read as the expression (see _PredicateInliner); a function
        imported from a sibling module is read the same way when every global name its expression uses means something
        in the importing module as well"""
        preds = {m.name: _simple_predicates(m.tree) for m in self.modules.values()}
        self.inlined_predicate_calls = 0
        for m in self.modules.values():
            top = {n.name for n in m.tree.body if isinstance(n, (ast.FunctionDef, ast.ClassDef))} | {
                t.id for n in m.tree.body if isinstance(n, ast.Assign) for t in n.targets if isinstance(t, ast.Name)}
            imported = {}
            for n in ast.walk(m.tree):
                if isinstance(n, ast.ImportFrom):
                    mod = self._abs_import(m, n)
                    for a in n.names:
                        imported[a.asname or a.name] = (mod, a.name)
            local = dict(preds[m.name])
            for lname, (mod, oname) in imported.items():
                if mod in preds and oname in preds[mod] and lname not in local:
                    params, expr = preds[mod][oname]
                    free = {x.id for x in ast.walk(expr) if isinstance(x, ast.Name)} - set(params) - set(dir(__import__("builtins")))
                    if free <= top | set(imported):
                        local[lname] = (params, expr)
            if not local:
                continue
            tr = _PredicateInliner(local)
            m.tree = tr.visit(m.tree)
            if tr.count:
                ast.fix_missing_locations(m.tree)
                self.inlined_predicate_calls += tr.count

    def _index(self) -> None:
        counts: dict[str, int] = {}
        for m in self.modules.values():
            self._index_body(m, m.tree.body, None)
            for node in ast.walk(m.tree):
                if isinstance(node, ast.ImportFrom):
                    mod = self._abs_import(m, node)
                    for a in node.names:
                        m.imports.setdefault(a.asname or a.name, (mod, a.name))
                elif isinstance(node, ast.Import):
                    for a in node.names:
                        m.imports.setdefault(a.asname or a.name.split(".")[0], (a.name, None))
        for c in self.all_classes():
            q = c.name if c.outer is None else f"{c.outer.name}.{c.name}"
            counts[q] = counts.get(q, 0) + 1
        self.ambiguous = {q: n > 1 for q, n in counts.items()}

    def _index_body(self, m: Module, body: list[ast.stmt], cls: ClassInfo | None) -> None:
        for st in body:
            if isinstance(st, ast.ClassDef):
                ci = ClassInfo(m, st, cls)
                if cls is None:
                    m.classes[st.name] = ci
                else:
                    cls.nested[st.name] = ci
                self._index_body(m, st.body, ci)
            elif isinstance(st, (ast.FunctionDef, ast.AsyncFunctionDef)):
                fi = FuncInfo(m, st, cls)
                if fi.is_overload:
                    continue
                if cls is None:
                    m.functions[st.name] = fi
                else:
                    cls.methods[st.name] = fi
            elif isinstance(st, ast.Assign):
                for t in st.targets:
                    if isinstance(t, ast.Name):
                        (m.constants if cls is None else cls.class_attrs)[t.id] = st.value
            elif isinstance(st, ast.AnnAssign) and isinstance(st.target, ast.Name):
                if cls is not None:
                    cls.class_annos[st.target.id] = st.annotation
                if st.value is not None:
                    (m.constants if cls is None else cls.class_attrs)[st.target.id] = st.value
            elif isinstance(st, ast.If) and cls is None:
                # TYPE_CHECKING blocks etc.: imports only matter, handled by ast.walk
                pass

    def _method_aliases(self) -> None:
        """`__ne__ = _negated_eq` / `__getitem__ = __getattr__` in a class body: the name is a method of the class"""
        for c in self.all_classes():
            for name, e in list(c.class_attrs.items()):
                if name in c.methods or not isinstance(e, ast.Name):
                    continue
                if e.id in c.methods:
                    c.methods[name] = c.methods[e.id]
                    continue
                r = self.resolve_global(c.module, e.id)
                if r and r[0] == "func":
                    fi = FuncInfo(r[1].module, r[1].node, c)
                    c.methods[name] = fi

    def _abs_import(self, m: Module, node: ast.ImportFrom) -> str:
        if not node.level:
            return node.module or ""
        base = m.name.split(".")
        if not m.is_pkg:
            base = base[:-1]
        up = node.level - 1
        if up:
            base = base[:-up]
        if node.module:
            base = base + node.module.split(".")
        return ".".join(base)

    def _link(self) -> None:
        for c in self.all_classes():
            for b in c.base_exprs:
                r = self.resolve_expr_class(c.module, b, c.outer)
                if r is not None:
                    c.bases.append(r)
                    r.subclasses.append(c)
                else:
                    c.extern_bases.append(ast.unparse(b))
        for c in self.all_classes():
            c.mro = self._c3(c)

    def _c3(self, c: ClassInfo, _stack: tuple = ()) -> list[ClassInfo]:
        if c in _stack:
            raise AnalysisError(f"inheritance cycle at {c.fullname}")
        seqs = [self._c3(b, _stack + (c,)) for b in c.bases] + [list(c.bases)]
        seqs = [list(s) for s in seqs]
        out = [c]
        while True:
            seqs = [s for s in seqs if s]
            if not seqs:
                return out
            for s in seqs:
                cand = s[0]
                if not any(cand in t[1:] for t in seqs):
                    break
            else:
                raise AnalysisError(f"inconsistent MRO for {c.fullname}")
            out.append(cand)
            for s in seqs:
                if s and s[0] is cand:
                    del s[0]

    # ---- queries
    def all_classes(self) -> list[ClassInfo]:
        out: list[ClassInfo] = []

        def rec(ci: ClassInfo) -> None:
            out.append(ci)
            for n in ci.nested.values():
                rec(n)

        for m in self.modules.values():
            for ci in m.classes.values():
                rec(ci)
        return out

    def all_functions(self) -> list[FuncInfo]:
        out: list[FuncInfo] = []
        for m in self.modules.values():
            out.extend(m.functions.values())
        for c in self.all_classes():
            out.extend(c.methods.values())
        return out

    def module(self, short: str) -> Module:
        name = PKG if short in ("", "__init__") else f"{PKG}.{short}"
        if name not in self.modules:
            raise AnalysisError(f"anchor vanished: module {name}")
        return self.modules[name]

    def cls(self, name: str) -> ClassInfo:
        """Find a class by short or module-qualified name; vanished anchor => AnalysisError."""
        hits = [c for c in self.all_classes() if name in (c.name, c.qualname, c.fullname,
                                                           f"{c.module.short}.{c.name}")]
        if len(hits) == 1:
            return hits[0]
        if not hits:
            raise AnalysisError(f"anchor vanished: class {name}")
        raise AnalysisError(f"ambiguous class anchor {name}: {[h.fullname for h in hits]}")

    def find_cls(self, name: str) -> ClassInfo | None:
        try:
            return self.cls(name)
        except AnalysisError:
            return None

    def func(self, qual: str) -> FuncInfo:
        """'Class.method' or 'module.function'."""
        head, _, tail = qual.rpartition(".")
        c = self.find_cls(head)
        if c is not None and tail in c.methods:
            return c.methods[tail]
        for m in self.modules.values():
            if m.short == head and tail in m.functions:
                return m.functions[tail]
        raise AnalysisError(f"anchor vanished: function {qual}")

    def resolve_global(self, m: Module, name: str, _depth: int = 0):
        """Resolve a module-level name -> ('class', ClassInfo) | ('func', FuncInfo) |
        ('const', Module, expr) | ('extern', dotted) | None"""
        if _depth > 8:
            return None
        if name in m.classes:
            return ("class", m.classes[name])
        if name in m.functions:
            return ("func", m.functions[name])
        if name in m.constants:
            return ("const", m, m.constants[name])
        if name in m.imports:
            mod, nm = m.imports[name]
            if mod in self.modules:
                if nm is None:
                    return ("module", self.modules[mod])
                tgt = self.modules[mod]
                sub = f"{mod}.{nm}"
                if sub in self.modules:
                    return ("module", self.modules[sub])
                return self.resolve_global(tgt, nm, _depth + 1)
            return ("extern", f"{mod}.{nm}" if nm else mod)
        return None

    def resolve_expr_class(self, m: Module, e: ast.expr, outer: ClassInfo | None = None) -> ClassInfo | None:
        if isinstance(e, ast.Name):
            if outer is not None and e.id in outer.nested:
                return outer.nested[e.id]
            r = self.resolve_global(m, e.id)
            if r and r[0] == "class":
                return r[1]
            if r and r[0] == "const" and isinstance(r[2], ast.Name):
                return self.resolve_expr_class(r[1], r[2])
            return None
        if isinstance(e, ast.Attribute):
            base = self.resolve_expr_class(m, e.value, outer)
            if base is not None:
                return base.nested.get(e.attr)
            if isinstance(e.value, ast.Name):
                r = self.resolve_global(m, e.value.id)
                if r and r[0] == "module":
                    rr = self.resolve_global(r[1], e.attr)
                    if rr and rr[0] == "class":
                        return rr[1]
        if isinstance(e, ast.Constant) and isinstance(e.value, str):
            try:
                return self.resolve_expr_class(m, ast.parse(e.value, mode="eval").body, outer)
            except SyntaxError:
                return None
        return None

    def definitions_of(self, method: str) -> list[FuncInfo]:
        return [c.methods[method] for c in self.all_classes() if method in c.methods]

    # ---- L2: attribute kinds
    def attr_kinds(self, c: ClassInfo) -> dict[str, set[str]]:
        """attribute -> set of kinds inferred from every `self.a = v` / `self.a: T = v`
        in every method along the MRO (may-kinds)."""
        if c in self._attr_kinds:
            return self._attr_kinds[c]
        kinds: dict[str, set[str]] = {}
        for k in c.mro:
            for f in k.methods.values():
                if f.is_static or not f.params:
                    continue
                selfname = f.params[0]
                for node in ast.walk(f.node):
                    tgt = val = anno = None
                    if isinstance(node, ast.Assign):
                        val = node.value
                        for t in node.targets:
                            if _is_self_attr(t, selfname):
                                kinds.setdefault(t.attr, set()).add(expr_kind(val))
                    elif isinstance(node, ast.AnnAssign) and _is_self_attr(node.target, selfname):
                        k2 = anno_kind(node.annotation)
                        if node.value is not None:
                            kv = expr_kind(node.value)
                            if kv not in ("none", "other"):
                                k2 = kv
                        kinds.setdefault(node.target.attr, set()).add(k2)
            for name, e in k.class_attrs.items():
                kinds.setdefault(name, set()).add("class:" + expr_kind(e))
        self._attr_kinds[c] = kinds
        return kinds

    def attr_kind_by_name(self, attr: str) -> set[str]:
        cache = self.__dict__.setdefault("_akbn", {})
        if attr in cache:
            return cache[attr]
        cache[attr] = out = set()
        for c in self.all_classes():
            out |= {k for k in self.attr_kinds(c).get(attr, set()) if not k.startswith("class:")}
        return out


def _is_self_attr(t: ast.AST, selfname: str) -> bool:
    return isinstance(t, ast.Attribute) and isinstance(t.value, ast.Name) and t.value.id == selfname


def expr_kind(e: ast.expr) -> str:
    if isinstance(e, (ast.List, ast.ListComp)):
        return "list"
    if isinstance(e, (ast.Set, ast.SetComp)):
        return "set"
    if isinstance(e, (ast.Dict, ast.DictComp)):
        return "dict"
    if isinstance(e, ast.Tuple):
        return "tuple"
    if isinstance(e, ast.Constant):
        return "none" if e.value is None else "scalar"
    if isinstance(e, ast.Call) and isinstance(e.func, ast.Name):
        if e.func.id in ("list", "sorted"):
            return "list"
        if e.func.id in ("set", "frozenset"):
            return "set"
        if e.func.id == "dict":
            return "dict"
        if e.func.id == "tuple":
            return "tuple"
        if e.func.id in ("int", "float", "str", "bool", "abs", "len"):
            return "scalar"
        if e.func.id == "cast" and len(e.args) == 2:
            return expr_kind(e.args[1])
    if isinstance(e, ast.Lambda):
        return "lambda"
    if isinstance(e, ast.GeneratorExp):
        return "generator"
    if isinstance(e, ast.IfExp):
        a, b = expr_kind(e.body), expr_kind(e.orelse)
        return a if a == b else ("other" if "none" not in (a, b) else (a if b == "none" else b))
    return "other"


def anno_kind(a: ast.expr) -> str:
    s = ast.unparse(a).replace("'", "").replace('"', "")
    head = s.split("[")[0].split("|")[0].strip().lower()
    if head in ("list", "sequence"):
        return "list"
    if head in ("set", "frozenset"):
        return "set"
    if head == "dict":
        return "dict"
    if head == "tuple":
        return "tuple"
    if head in ("bool", "int", "str", "float"):
        return "scalar"
    return "other"
