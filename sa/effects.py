"""L3 + L4: call resolution and effect (ownership) analysis.

Per (function, receiver class) a syntax-directed walk yields *effects* on access paths
rooted at self / a parameter / a module global.  Objects created in the activation are
*fresh* and writes to them are not effects.  Summaries are propagated along resolved call
edges to a fixed point.  Nothing is executed.
"""
from __future__ import annotations

import ast
from dataclasses import dataclass, field, replace

from .model import AnalysisError, ClassInfo, FuncInfo, Program

MUTATORS = {
    "append", "extend", "insert", "add", "remove", "discard", "pop", "clear", "update",
    "sort", "reverse", "setdefault", "popitem", "appendleft", "extendleft",
    "difference_update", "intersection_update", "symmetric_difference_update",
}
COPIERS = {"copy", "list", "set", "sorted", "tuple", "dict", "frozenset", "reversed"}
PURE_BUILTINS = {
    "len", "isinstance", "issubclass", "getattr", "hasattr", "str", "int", "float", "bool",
    "any", "all", "max", "min", "sum", "abs", "hash", "id", "repr", "type", "map", "zip",
    "enumerate", "range", "iter", "next", "format", "print", "callable", "ValueError",
    "TypeError", "AttributeError", "NotImplementedError", "super", "reduce", "cast", "ord", "chr",
}
MAX_PATH = 3
INPLACE_DUNDERS = {"__iadd__", "__iand__", "__ior__", "__ixor__", "__isub__", "__imul__"}


# An origin: (kind, root, path).  kind in self|param|global|fresh|new|unknown
Org = tuple
FRESH: Org = ("fresh", None, ())
UNKNOWN: Org = ("unknown", None, ())


def org_str(o: Org) -> str:
    kind, root, path = o
    base = {"self": "self", "param": str(root), "global": f"<global {root}>", "fresh": "<fresh>",
            "new": f"<new {root}>", "unknown": "<unknown>"}[kind]
    for p in path:
        base += "[]" if p == "[]" else (".*" if p == "*" else f".{p}")
    return base


@dataclass(frozen=True)
class Effect:
    kind: str            # 'rebind' | 'mutate'
    org: Org             # object written: for rebind the path includes the rebound attribute
    how: str             # e.g. '.append', '+=', '= <fresh>', '= <shared>'
    func: str            # qualname of the function containing the write
    loc: str             # file:line of the write
    stmt: str            # normalised source of the statement
    guards: tuple = ()   # enclosing if-tests (source), outermost first, across call chain
    via: tuple = ()      # call chain: ((caller qualname, loc), ...), outermost first
    value_fresh: bool = False
    local: str = ""      # access path as written at the origin statement

    def key_path(self) -> str:
        return org_str(self.org)


@dataclass
class Summary:
    effects: list[Effect] = field(default_factory=list)
    returns: set = field(default_factory=set)            # possible origins of the return value
    must_fresh: frozenset = frozenset()                   # self attrs rebound to fresh on all paths
    captures: dict = field(default_factory=dict)          # attr -> set of param names stored into self.attr
    constructed: list = field(default_factory=list)       # (ClassInfo, {attr: orgs}) objects built that capture self
    calls: set = field(default_factory=set)               # (FuncInfo, ClassInfo|None) callees
    set_iterations: list = field(default_factory=list)    # (loc, expr_src, context) order-unstable iterations
    nondeterminism: list = field(default_factory=list)    # (loc, call_src)

    def add_effect(self, ef: "Effect") -> None:
        k = (ef.kind, ef.org, ef.func, ef.stmt)
        idx = self.__dict__.setdefault("_idx", {})
        if k in idx:
            return
        idx[k] = True
        self.effects.append(ef)

    def sig(self):
        return (frozenset((e.kind, e.org, e.func, e.stmt, e.loc) for e in self.effects),
                frozenset(self.returns), self.must_fresh, frozenset(self.calls),
                frozenset((a, frozenset(b)) for a, b in self.captures.items()), len(self.constructed))


class Effects:
    def __init__(self, program: Program):
        self.p = program
        self.memo: dict = {}
        self.in_progress: set = set()
        self.worklist: list = []
        self.queued: set = set()
        self.rdeps: dict = {}
        self.current = None
        self.steps = 0
        self._defs_cache: dict[str, list] = {}
        self._prop_cache: dict[str, list] = {}
        self._canon: dict = {}
        self._canon_by_sig: dict = {}
        self._retset_cache: dict = {}
        self.has_inplace_dunder = any(
            d in c.methods for c in program.all_classes() for d in INPLACE_DUNDERS)

    # ------------------------------------------------------------------ public
    def summary(self, f: FuncInfo, recv: ClassInfo | None) -> Summary:
        """Current summary of (f, recv); never recurses -- unknown keys are queued and the
        caller is re-analysed when the callee's summary changes (worklist fixed point)."""
        if f.cls is None:
            recv = None
        key = (f, recv)
        if key not in self.memo:
            self.memo[key] = Summary()
            self.worklist.append(key)
        if self.current is not None:
            self.rdeps.setdefault(key, set()).add(self.current)
        return self.memo[key]

    def fixpoint(self, entries: list[tuple[FuncInfo, ClassInfo | None]] = (), max_steps: int = 400000) -> None:
        for e in entries:
            self.summary(*e)
        steps = 0
        while self.worklist:
            key = self.worklist.pop(0)
            self.queued.discard(key)
            steps += 1
            if steps > max_steps:
                raise AnalysisError("effect summaries did not reach a fixed point")
            self.current = key
            try:
                s = _Walker(self, key[0], key[1]).run()
            finally:
                self.current = None
            old = self.memo[key]
            self.memo[key] = s
            if old.sig() != s.sig():
                for dep in self.rdeps.get(key, ()):
                    if dep not in self.queued:
                        self.queued.add(dep)
                        self.worklist.append(dep)
        self.steps = steps

    def solved(self, f: FuncInfo, recv: ClassInfo | None) -> Summary:
        self.fixpoint([(f, recv)])
        return self.summary(f, recv)

    def receivers_for(self, method: str) -> list[tuple[FuncInfo, ClassInfo]]:
        """Name-based resolution: every (definition, concrete receiver class) pair."""
        if method not in self._defs_cache:
            out = []
            for c in self.p.all_classes():
                f = c.resolve(method)
                if f is not None:
                    k = (f, self.canon(c))
                    if k not in out:
                        out.append(k)
            self._defs_cache[method] = out
        return self._defs_cache[method]

    def canon(self, c: ClassInfo) -> ClassInfo:
        """Representative of the classes that resolve every method (except __init__) to the
        same definitions and have the same attribute kinds: their summaries coincide."""
        if c in self._canon:
            return self._canon[c]
        names = sorted({n for k in c.mro for n in k.methods if n != "__init__"})
        kinds = self.p.attr_kinds(c)
        sig = (tuple((n, id(c.resolve(n))) for n in names),
               tuple(sorted((a, tuple(sorted(v))) for a, v in kinds.items())))
        rep = self._canon_by_sig.setdefault(sig, c)
        self._canon[c] = rep
        return rep

    def property_defs(self, name: str) -> list:
        if name not in self._prop_cache:
            self._prop_cache[name] = [(f, c) for f, c in self.receivers_for(name) if f.is_property]
        return self._prop_cache[name]

    def returns_set(self, name: str, prop_only: bool) -> bool:
        key = (name, prop_only)
        if key not in self._retset_cache:
            r = False
            for f, _c in self.receivers_for(name):
                if prop_only and not f.is_property:
                    continue
                if f.node.returns is not None and ast.unparse(f.node.returns).replace('"', "").replace("'", "").startswith(("set[", "frozenset[", "Set[")):
                    r = True
            self._retset_cache[key] = r
        return self._retset_cache[key]

    def closure(self, f: FuncInfo, recv: ClassInfo | None) -> set:
        """All (function, receiver) pairs reachable from the entry through resolved calls."""
        self.fixpoint([(f, recv)])
        seen, todo = set(), [(f, recv if f.cls is not None else None)]
        while todo:
            k = todo.pop()
            if k in seen:
                continue
            seen.add(k)
            s = self.memo.get(k)
            if s is not None:
                todo.extend(s.calls - seen)
        return seen


class _Walker:
    def __init__(self, eng: Effects, f: FuncInfo, recv: ClassInfo | None):
        self.eng, self.p, self.f, self.recv = eng, eng.p, f, recv
        self.cls = f.cls
        self.out = Summary()
        self.env: dict[str, frozenset] = {}
        self.new_attrs: dict[int, dict[str, frozenset]] = {}
        self.new_counter = 0
        self.fresh_attrs: set[str] = set()
        self.guards: list[str] = []
        self.selfname = None
        self.ret_fresh_sets: list[frozenset] = []
        self.setvars: set[str] = set()

    # ------------------------------------------------------------------ driver
    def run(self) -> Summary:
        f = self.f
        params = list(f.params)
        if f.cls is not None and not f.is_static and params:
            self.selfname = params[0]
            if f.is_classmethod:
                self.env[params[0]] = frozenset({("global", f"cls:{f.cls.qualname}", ())})
            else:
                self.env[params[0]] = frozenset({("self", None, ())})
            params = params[1:]
        for prm in params + f.kwonly:
            self.env[prm] = frozenset({("param", prm, ())})
        if f.vararg:
            self.env[f.vararg] = frozenset({("param", f.vararg, ())})
        if f.kwarg:
            self.env[f.kwarg] = frozenset({("param", f.kwarg, ())})
        falls = self.block(f.node.body)
        if falls:
            self.ret_fresh_sets.append(frozenset(self.fresh_attrs))
        if self.ret_fresh_sets:
            self.out.must_fresh = frozenset.intersection(*self.ret_fresh_sets)
        return self.out

    # ------------------------------------------------------------------ helpers
    def src(self, node: ast.AST) -> str:
        try:
            return " ".join(ast.unparse(node).split())
        except Exception:  # pragma: no cover
            return "<?>"

    def loc(self, node: ast.AST) -> str:
        return self.f.loc(node)

    def emit(self, kind: str, orgs, how: str, node: ast.AST, value_fresh: bool = False) -> None:
        for o in orgs:
            if o[0] in ("fresh", "new"):
                continue
            if o[0] == "self" and o[2] and o[2][0] in self.fresh_attrs and not (kind == "rebind" and len(o[2]) == 1):
                # container/object created in this activation and stored on the copy
                continue
            self.out.add_effect(Effect(kind, o, how, self.f.qualname, self.loc(node),
                                       self.src(node), tuple(self.guards), (), value_fresh, org_str(o)))

    def extend(self, orgs, step: str) -> frozenset:
        out = set()
        for o in orgs:
            kind, root, path = o
            if kind == "new":
                if not path and step != "[]":
                    out |= self.new_attrs.get(root, {}).get(step, frozenset({FRESH}))
                else:
                    out.add(FRESH)
            elif kind == "fresh":
                src = root  # shadow source of a shallow copy: elements *and attribute values* are shared with the source
                if src is not None and (step == "[]" or path == ("obj",)):
                    out |= self.extend(src, step)
                else:
                    out.add(FRESH)
            elif kind == "unknown":
                out.add(UNKNOWN)
            else:
                if path and path[-1] == "*":
                    out.add(o)
                elif len(path) >= MAX_PATH:
                    out.add((kind, root, path[:MAX_PATH] + ("*",)))
                else:
                    out.add((kind, root, path + (step,)))
        return frozenset(out)

    def all_fresh(self, orgs) -> bool:
        return all(o[0] in ("fresh", "new") for o in orgs)

    # ------------------------------------------------------------------ statements
    def block(self, stmts) -> bool:
        """returns True if control can fall through"""
        depth = len(self.guards)
        try:
            for st in stmts:
                if not self.stmt(st):
                    return False
                # a guard clause (`if <test>: return`): what follows in this block runs under the negated test
                if isinstance(st, ast.If) and getattr(st, "_exits", None) is not None:
                    self.guards.append(st._exits)
            return True
        finally:
            del self.guards[depth:]

    def stmt(self, st: ast.stmt) -> bool:
        if isinstance(st, ast.Expr):
            self.expr(st.value)
        elif isinstance(st, ast.Assign):
            v = self.expr(st.value)
            for t in st.targets:
                self.assign(t, v, st, st.value)
        elif isinstance(st, ast.AnnAssign):
            if st.value is not None:
                v = self.expr(st.value)
                self.assign(st.target, v, st, st.value)
        elif isinstance(st, ast.AugAssign):
            self.augassign(st)
        elif isinstance(st, ast.Return):
            if st.value is not None:
                self.out.returns |= set(self.expr(st.value))
            else:
                self.out.returns.add(FRESH)
            self.ret_fresh_sets.append(frozenset(self.fresh_attrs))
            return False
        elif isinstance(st, ast.Raise):
            if st.exc is not None:
                self.expr(st.exc)
            return False
        elif isinstance(st, ast.If):
            self.expr(st.test)
            self.guards.append(self.src(st.test))
            f0, env0 = set(self.fresh_attrs), dict(self.env)
            a = self.block(st.body)
            f1, env1 = set(self.fresh_attrs), dict(self.env)
            self.guards[-1] = "not (" + self.guards[-1] + ")"
            self.fresh_attrs, self.env = set(f0), dict(env0)
            b = self.block(st.orelse)
            f2, env2 = set(self.fresh_attrs), dict(self.env)
            g_ = self.guards.pop()        # "not (<test>)"
            st._exits = None
            if not a and b:
                st._exits = g_               # the body always leaves: the rest of the block runs under the negated test
            elif a and not b:
                st._exits = g_[len("not ("):-1]
            if a and b:
                self.fresh_attrs = f1 & f2
                self.env = self.join_env(env1, env2)
            elif a:
                self.fresh_attrs, self.env = f1, env1
            elif b:
                self.fresh_attrs, self.env = f2, env2
            return a or b
        elif isinstance(st, (ast.For, ast.AsyncFor)):
            it = self.expr(st.iter)
            self.note_iteration(st.iter, "for")
            f0 = set(self.fresh_attrs)
            for _ in range(2):  # zero-or-more: run body twice for alias propagation
                self.assign(st.target, self.extend(it, "[]"), st, None)
                self.block(st.body)
            self.block(st.orelse)
            self.fresh_attrs = f0 & self.fresh_attrs
        elif isinstance(st, ast.While):
            self.expr(st.test)
            f0 = set(self.fresh_attrs)
            for _ in range(2):
                self.block(st.body)
            self.fresh_attrs = f0 & self.fresh_attrs
        elif isinstance(st, ast.Try):
            f0 = set(self.fresh_attrs)
            self.block(st.body)
            for h in st.handlers:
                self.block(h.body)
            self.block(st.orelse)
            self.block(st.finalbody)
            self.fresh_attrs = f0 & self.fresh_attrs
        elif isinstance(st, ast.With):
            for item in st.items:
                self.expr(item.context_expr)
            self.block(st.body)
        elif isinstance(st, ast.Delete):
            for t in st.targets:
                if isinstance(t, ast.Subscript):
                    self.emit("mutate", self.expr(t.value), "del []", st)
                elif isinstance(t, ast.Attribute):
                    self.emit("rebind", self.extend(self.expr(t.value), t.attr), "del", st)
        elif isinstance(st, (ast.FunctionDef, ast.ClassDef)):
            self.env[st.name] = frozenset({FRESH})
        elif isinstance(st, (ast.Import, ast.ImportFrom)):
            for a in st.names:
                self.env.pop(a.asname or a.name, None)
        elif isinstance(st, (ast.Pass, ast.Break, ast.Continue, ast.Global, ast.Nonlocal, ast.Assert)):
            if isinstance(st, ast.Global):
                for n in st.names:
                    self.env[n] = frozenset({("global", n, ())})
        else:
            raise AnalysisError(f"effects: unsupported statement {type(st).__name__} at {self.loc(st)}")
        return True

    def join_env(self, a: dict, b: dict) -> dict:
        out = {}
        for k in set(a) | set(b):
            out[k] = a.get(k, frozenset()) | b.get(k, frozenset())
        return out

    def assign(self, t: ast.expr, v: frozenset, st: ast.stmt, value_node) -> None:
        if isinstance(t, ast.Name):
            self.env[t.id] = v
            if value_node is not None and self.is_set_expr(value_node):
                self.setvars.add(t.id)
            else:
                self.setvars.discard(t.id)
        elif isinstance(t, (ast.Tuple, ast.List)):
            for e in t.elts:
                if isinstance(e, ast.Starred):
                    e = e.value
                self.assign(e, self.extend(v, "[]"), st, None)
        elif isinstance(t, ast.Attribute):
            base = self.expr(t.value)
            fresh = self.all_fresh(v)
            written = frozenset(o for o in base if o[0] not in ("fresh", "new"))   # the object whose attribute is rebound
            self.emit("rebind", self.extend(written, t.attr), "= <fresh>" if fresh else "= <shared>", st, fresh)
            if base == frozenset({("self", None, ())}):
                if fresh:
                    self.fresh_attrs.add(t.attr)
                else:
                    self.fresh_attrs.discard(t.attr)
                prms = {o[1] for o in v if o[0] == "param" and not o[2]}
                if prms:
                    self.out.captures.setdefault(t.attr, set()).update(prms)
            for o in base:
                if o[0] == "new" and not o[2]:
                    self.new_attrs.setdefault(o[1], {})[t.attr] = v
        elif isinstance(t, ast.Subscript):
            base = self.expr(t.value)
            self.expr(t.slice)
            self.emit("mutate", base, "[...] =", st)
        elif isinstance(t, ast.Starred):
            self.assign(t.value, v, st, None)

    def kinds_for(self, target: ast.expr) -> set[str]:
        """possible kinds of the object denoted by an Attribute target"""
        if isinstance(target, ast.Attribute):
            base = target.value
            if (isinstance(base, ast.Name) and base.id == self.selfname and self.recv is not None):
                ks = {k for k in self.p.attr_kinds(self.recv).get(target.attr, set()) if not k.startswith("class:")}
                if ks:
                    return ks
            return self.p.attr_kind_by_name(target.attr)
        return set()

    def augassign(self, st: ast.AugAssign) -> None:
        self.expr(st.value)
        t = st.target
        how = {ast.Add: "+=", ast.BitOr: "|=", ast.BitAnd: "&=", ast.Sub: "-=", ast.BitXor: "^=",
               ast.Mult: "*="}.get(type(st.op), "op=")
        if isinstance(t, ast.Name):
            orgs = self.env.get(t.id, frozenset({FRESH}))
            cont = set()
            for o in orgs:
                if o[0] in ("self", "param", "global") and o[2]:
                    last = [x for x in o[2] if x != "[]"]
                    if last and self.p.attr_kind_by_name(last[-1]) & {"list", "set", "dict"}:
                        cont.add(o)
            if cont:
                self.emit("mutate", cont, how, st)
            else:
                self.env[t.id] = frozenset({FRESH})
        elif isinstance(t, ast.Attribute):
            base = self.expr(t.value)
            ks = self.kinds_for(t)
            tgt = self.extend(base, t.attr)
            if ks & {"list", "set", "dict"}:
                self.emit("mutate", tgt, how, st)
            if not ks or ks - {"list", "set", "dict", "none"}:
                self.emit("rebind", tgt, how + " <new object>", st, True)
                if ks and not (ks & {"list", "set", "dict"}) and base == frozenset({("self", None, ())}):
                    self.fresh_attrs.add(t.attr)
        elif isinstance(t, ast.Subscript):
            self.emit("mutate", self.expr(t.value), how, st)

    # ------------------------------------------------------------------ expressions
    def expr(self, e: ast.expr) -> frozenset:
        m = getattr(self, "e_" + type(e).__name__, None)
        if m is None:
            for ch in ast.iter_child_nodes(e):
                if isinstance(ch, ast.expr):
                    self.expr(ch)
            return frozenset({FRESH})
        return m(e)

    def e_Constant(self, e):
        return frozenset({FRESH})

    def e_Name(self, e):
        if e.id in self.env:
            return self.env[e.id]
        r = self.p.resolve_global(self.f.module, e.id)
        if r is not None and r[0] == "const":
            return frozenset({("global", e.id, ())})
        return frozenset({FRESH})  # classes, functions, builtins: not mutable state we track

    def e_Attribute(self, e):
        base = self.expr(e.value)
        # property access on self: treat as a call to the getter
        if self.recv is not None and base == frozenset({("self", None, ())}):
            f = self.recv.resolve(e.attr)
            if f is not None and f.is_property:
                return self.apply(f, self.recv, base, [], {}, e)
        elif not self.all_fresh(base):
            for f, c in self.eng.property_defs(e.attr):
                self.apply(f, c, base, [], {}, e, collapse=True)
        return self.extend(base, e.attr)

    def e_Subscript(self, e):
        base = self.expr(e.value)
        self.expr(e.slice)
        if isinstance(e.slice, ast.Slice):
            return frozenset({("fresh", frozenset(o for o in base if o[0] not in ("fresh", "new")) or None, ())})
        return self.extend(base, "[]")

    def e_Slice(self, e):
        for x in (e.lower, e.upper, e.step):
            if x is not None:
                self.expr(x)
        return frozenset({FRESH})

    def e_Starred(self, e):
        v = self.expr(e.value)
        self.note_iteration(e.value, "unpack")
        return self.extend(v, "[]")

    def e_IfExp(self, e):
        self.expr(e.test)
        return self.expr(e.body) | self.expr(e.orelse)

    def e_BoolOp(self, e):
        out = frozenset()
        for v in e.values:
            out |= self.expr(v)
        return out

    def e_NamedExpr(self, e):
        v = self.expr(e.value)
        self.assign(e.target, v, e, e.value)
        return v

    def e_Lambda(self, e):
        return frozenset({FRESH})

    def e_Await(self, e):
        return self.expr(e.value)

    def _comp(self, e, elts):
        saved = dict(self.env)
        for g in e.generators:
            it = self.expr(g.iter)
            self.note_iteration(g.iter, "comprehension", consumer=e)
            self.assign(g.target, self.extend(it, "[]"), e, None)
            for c in g.ifs:
                self.expr(c)
        for x in elts:
            self.expr(x)
        self.env = saved
        return frozenset({FRESH})

    def e_ListComp(self, e):
        return self._comp(e, [e.elt])

    def e_SetComp(self, e):
        return self._comp(e, [e.elt])

    def e_GeneratorExp(self, e):
        return self._comp(e, [e.elt])

    def e_DictComp(self, e):
        return self._comp(e, [e.key, e.value])

    def e_JoinedStr(self, e):
        for v in e.values:
            if isinstance(v, ast.FormattedValue):
                self.expr(v.value)
        return frozenset({FRESH})

    def e_Call(self, e: ast.Call):
        fn = e.func
        argv = []
        for a in e.args:
            argv.append(self.expr(a))
        kwv = {}
        for k in e.keywords:
            v = self.expr(k.value)
            if k.arg:
                kwv[k.arg] = v
        # ---- name calls
        if isinstance(fn, ast.Name):
            name = fn.id
            if name in self.env and name not in ("copy",):
                return frozenset({UNKNOWN})
            if name in COPIERS:
                r = self.p.resolve_global(self.f.module, name)
                if name != "copy" or (r is not None and r[0] == "extern" and r[1] in ("copy.copy",)) or r is None:
                    if e.args:
                        self.note_iteration(e.args[0], name, consumer=e)
                    src = frozenset(o for a in argv[:1] for o in a if o[0] not in ("fresh", "new"))
                    return frozenset({("fresh", src or None, ("obj",) if name == "copy" else ())})
            if name == "cast" and len(argv) == 2:
                return argv[1]
            if name in ("getattr",) and argv:
                if len(e.args) >= 2 and isinstance(e.args[1], ast.Constant) and isinstance(e.args[1].value, str):
                    return self.extend(argv[0], e.args[1].value)
                return frozenset({UNKNOWN})
            if name in ("setattr",) and argv:
                self.emit("rebind", self.extend(argv[0], "<dynamic>"), "setattr", e)
                return frozenset({FRESH})
            if name in ("hash", "id"):
                self.out.nondeterminism.append((self.loc(e), self.src(e), name))
            r = self.p.resolve_global(self.f.module, name)
            if r is not None and r[0] == "func":
                return self.apply(r[1], None, None, argv, kwv, e)
            if r is not None and r[0] == "class":
                return self.construct(r[1], argv, kwv, e)
            if r is not None and r[0] == "extern":
                self.note_extern(r[1], e)
            return frozenset({FRESH})
        # ---- attribute calls
        if isinstance(fn, ast.Attribute):
            m = fn.attr
            # super().m(...)
            if (isinstance(fn.value, ast.Call) and isinstance(fn.value.func, ast.Name)
                    and fn.value.func.id == "super" and self.recv is not None and self.cls is not None):
                tgt = self.recv.resolve_after(self.cls, m)
                selfv = self.env.get(self.selfname, frozenset({FRESH}))
                if tgt is not None:
                    return self.apply(tgt, self.recv, selfv, argv, kwv, e)
                return frozenset({FRESH})
            # type(self).__new__(type(self))
            if m == "__new__":
                self.new_counter += 1
                return frozenset({("new", self.new_counter, ())})
            # module.func(...)
            if isinstance(fn.value, ast.Name) and fn.value.id not in self.env:
                r = self.p.resolve_global(self.f.module, fn.value.id)
                if r is not None and r[0] == "class":
                    tgt = r[1].resolve(m)
                    if tgt is not None:
                        recvorg = None if tgt.is_static else frozenset({FRESH})
                        return self.apply(tgt, r[1], recvorg, argv, kwv, e)
                    return frozenset({FRESH})
                if r is not None and r[0] in ("extern", "module"):
                    if r[0] == "extern":
                        self.note_extern(f"{r[1]}.{m}", e)
                        if r[1] == "copy" and m in ("copy", "deepcopy"):
                            src = frozenset(o for a in argv[:1] for o in a if o[0] not in ("fresh", "new"))
                            return frozenset({("fresh", src or None, ("obj",))}) if m == "copy" else frozenset({FRESH})
                    return frozenset({FRESH})
            recv = self.expr(fn.value)
            if m == "join" and e.args:
                self.note_iteration(e.args[0], "join", consumer=e)
            if isinstance(fn.value, (ast.Constant, ast.JoinedStr)):
                return frozenset({FRESH})  # method of a str/bytes literal
            # exact self receiver
            if self.recv is not None and recv == frozenset({("self", None, ())}):
                tgt = self.recv.resolve(m)
                if tgt is not None:
                    return self.apply(tgt, self.recv, recv, argv, kwv, e)
            # classmethod receiver (cls.m)
            if len(recv) == 1 and next(iter(recv))[0] == "global" and str(next(iter(recv))[1]).startswith("cls:"):
                c = self.p.find_cls(str(next(iter(recv))[1])[4:])
                tgt = c.resolve(m) if c else None
                if tgt is not None:
                    return self.apply(tgt, c, None if tgt.is_static else frozenset({FRESH}), argv, kwv, e)
            # container mutators
            defs = self.eng.receivers_for(m)
            recv_kinds = set()
            if isinstance(fn.value, ast.Attribute):
                recv_kinds = self.kinds_for(fn.value)
            if isinstance(fn.value, ast.Name) and fn.value.id in self.setvars:
                recv_kinds = {"set"}
            containerish = bool(recv_kinds & {"list", "set", "dict"})
            if m in MUTATORS and (containerish or not defs):
                if isinstance(fn.value, ast.Attribute) and fn.value.attr == "__dict__":
                    self.emit("mutate", self.expr(fn.value.value), f".__dict__.{m}", e)
                    # newone.__dict__.update(self.__dict__): the new object aliases every attribute
                    for o in self.expr(fn.value.value):
                        if o[0] == "new" and e.args and isinstance(e.args[0], ast.Attribute) and e.args[0].attr == "__dict__":
                            self.new_attrs.setdefault(o[1], {})["__dict_from__"] = self.expr(e.args[0].value)
                    return frozenset({FRESH})
                self.emit("mutate", recv, f".{m}", e)
                return self.extend(recv, "[]") if m in ("pop", "setdefault", "popitem") else frozenset({FRESH})
            if not defs:
                if m == "copy":
                    src = frozenset(o for o in recv if o[0] not in ("fresh", "new"))
                    return frozenset({("fresh", src or None, ())})
                if m in ("get", "items", "values", "keys"):
                    return self.extend(recv, "[]")
                return frozenset({FRESH})
            if self.all_fresh(recv) and all(self.all_fresh(a) for a in argv) and all(self.all_fresh(a) for a in kwv.values()):
                # nothing shared can be reached from the call: still record call edges
                for tgt, c in defs:
                    self.out.calls.add((tgt, c))
                return frozenset({FRESH})
            out = frozenset()
            for tgt, c in defs:
                out |= self.apply(tgt, c, recv, argv, kwv, e, collapse=True)
            return out or frozenset({FRESH})
        # ---- calling the result of an expression
        self.expr(fn)
        return frozenset({UNKNOWN})

    def note_extern(self, dotted: str, e: ast.AST) -> None:
        head = dotted.split(".")[0]
        if head in ("random", "time", "secrets") or dotted in (
                "os.environ", "os.getenv", "os.getpid", "datetime.datetime.now", "datetime.now",
                "uuid.uuid4", "uuid.uuid1", "os.urandom"):
            self.out.nondeterminism.append((self.loc(e), self.src(e), dotted))

    # ---- set-iteration bookkeeping (C02/R2)
    def is_set_expr(self, e: ast.expr) -> bool:
        if isinstance(e, (ast.Set, ast.SetComp)):
            return True
        if isinstance(e, ast.Name):
            return e.id in self.setvars
        if isinstance(e, ast.Call):
            if isinstance(e.func, ast.Name) and e.func.id in ("set", "frozenset"):
                return True
            if isinstance(e.func, ast.Attribute):
                if e.func.attr in ("union", "intersection", "difference", "symmetric_difference") and self.is_set_expr(e.func.value):
                    return True
                return self.eng.returns_set(e.func.attr, False)
            return False
        if isinstance(e, ast.Attribute):
            if isinstance(e.value, ast.Name) and e.value.id == self.selfname and self.recv is not None:
                ks = {k for k in self.p.attr_kinds(self.recv).get(e.attr, set()) if not k.startswith("class:")}
                if ks:
                    return "set" in ks
            ks = self.p.attr_kind_by_name(e.attr)
            if "set" in ks:
                return True
            return self.eng.returns_set(e.attr, True)
        if isinstance(e, ast.BinOp) and isinstance(e.op, (ast.BitOr, ast.BitAnd, ast.Sub, ast.BitXor)):
            return self.is_set_expr(e.left) or self.is_set_expr(e.right)
        if isinstance(e, ast.IfExp):
            return self.is_set_expr(e.body) or self.is_set_expr(e.orelse)
        return False

    def note_iteration(self, it: ast.expr, how: str, consumer: ast.AST | None = None) -> None:
        if how in ("set", "frozenset", "sorted"):
            return  # order-insensitive consumers
        if self.is_set_expr(it):
            self.out.set_iterations.append((self.loc(it), self.src(it), how,
                                            self.src(consumer) if consumer is not None else ""))

    # ------------------------------------------------------------------ interprocedural
    def construct(self, c: ClassInfo, argv, kwv, e) -> frozenset:
        init = c.resolve("__init__")
        self.new_counter += 1
        nid = self.new_counter
        me = frozenset({("new", nid, ())})
        if init is not None:
            self.apply(init, c, me, argv, kwv, e)
            summ = self.eng.summary(init, c)
            binding = self.bind(init, argv, kwv)
            captured = {}
            for attr, prms in summ.captures.items():
                orgs = frozenset()
                for prm in prms:
                    orgs |= binding.get(prm, frozenset())
                if orgs:
                    self.new_attrs.setdefault(nid, {})[attr] = orgs
                    captured[attr] = orgs
            if any(("self", None, ()) in orgs for orgs in captured.values()):
                self.out.constructed.append((c, captured, self.loc(e)))
        return me

    def bind(self, f: FuncInfo, argv, kwv) -> dict[str, frozenset]:
        params = list(f.params)
        if f.cls is not None and not f.is_static and params:
            params = params[1:]
        b: dict[str, frozenset] = {}
        for i, a in enumerate(argv):
            if i < len(params):
                b[params[i]] = a
            elif f.vararg:
                b[f.vararg] = b.get(f.vararg, frozenset()) | a
        for k, v in kwv.items():
            if k in params or k in f.kwonly:
                b[k] = v
            elif f.kwarg:
                b[f.kwarg] = b.get(f.kwarg, frozenset()) | v
        return b

    def apply(self, tgt: FuncInfo, c: ClassInfo | None, recv, argv, kwv, e, collapse: bool = False) -> frozenset:
        key = (tgt, c if tgt.cls is not None else None)
        self.out.calls.add(key)
        s = self.eng.summary(*key)
        binding = self.bind(tgt, argv, kwv)
        site = (self.f.qualname, self.loc(e))
        for ef in s.effects:
            kind, root, path = ef.org
            if kind == "self":
                if tgt.is_builder and recv is not None and not (len(path) > 1 or (ef.kind == "mutate")):
                    continue  # wrapper runs the body on a shallow copy: top-level rebinds stay on the copy
                if tgt.is_builder:
                    continue  # shared-container writes inside a builder are that builder's own C01 obligation
                bases = recv if recv is not None else frozenset({FRESH})
            elif kind == "param":
                bases = binding.get(root)
                if bases is None:
                    continue
                if tgt.vararg == root or tgt.kwarg == root:
                    path = path[1:] if path and path[0] == "[]" else path
            elif kind == "global":
                bases = frozenset({ef.org})
                path = ()
            else:
                continue
            if collapse and any(len(b[2]) + len(path) > 2 for b in bases if b[0] in ("self", "param", "global")):
                # unknown receiver class, long path: keep only "something reachable from <base.first> is written"
                targets = frozenset(
                    (b[0], b[1], (b[2][:1] + ("*",)) if (b[2] or path) else ()) if b[0] in ("self", "param", "global") else b
                    for b in bases)
            else:
                targets = bases
                for step in path:
                    targets = self.extend(targets, step)
            for o in targets:
                if o[0] in ("fresh", "new"):
                    continue
                if o[0] == "self" and o[2] and o[2][0] in self.fresh_attrs and not (ef.kind == "rebind" and len(o[2]) == 1):
                    continue
                if (ef.kind, o, ef.func, ef.stmt) in self.out.__dict__.setdefault("_idx", {}):
                    continue
                self.out.add_effect(replace(ef, org=o, guards=tuple(self.guards) + ef.guards,
                                            via=((site,) + ef.via)[:12]))
        if recv is not None and recv == frozenset({("self", None, ())}) and not tgt.is_builder:
            self.fresh_attrs |= set(s.must_fresh)
            for attr, prms in s.captures.items():
                for prm in prms:
                    for o in binding.get(prm, frozenset()):
                        if o[0] == "param" and not o[2]:
                            self.out.captures.setdefault(attr, set()).add(o[1])
            self.out.constructed.extend(s.constructed)
        self.out.set_iterations  # (callee's own iterations are reported from its own summary)
        # return origin
        out = set()
        if tgt.is_builder:
            return frozenset({FRESH})
        for r in s.returns:
            kind, root, path = r
            if kind == "self":
                bases = recv if recv is not None else frozenset({FRESH})
            elif kind == "param":
                bases = binding.get(root, frozenset({FRESH}))
            else:
                out.add(FRESH if kind in ("fresh", "new") else r)
                continue
            t = bases
            for step in path:
                t = self.extend(t, step)
            out |= t
        return frozenset(out) or frozenset({FRESH})
