#!/venv/bin/python
"""Maintenance tool (not a registered check): evaluate one behaviour-PRESERVING refactoring produced by an independent
sub-agent (the counterpart of seed_eval.py).

    keep_eval.py <worktree> <name>

1. takes `git diff -- pypika_tortoise` of the worktree as the patch;
2. confirms in the worktree: suite green with the patch; seed_demo.py prints byte-identical output with and without it;
3. runs every quick check with VERIF_REPO=<worktree> and records every check that does not exit 0 (a false alarm);
4. stores /verif/seeded_keep/<name>/{patch.diff, demo.py, meta.json}.  The thorough self-test of every property applies
   these patches to a scratch copy and requires the check to stay silent.
"""
import hashlib
import json
import os
import re
import shutil
import subprocess
import sys
from pathlib import Path

V = Path(__file__).resolve().parent.parent
PY = "/venv/bin/python"
ALL = ["C01", "C02", "C04", "C05", "C06", "C07", "C08", "C09", "C10", "C11", "C12", "C13", "C14", "C15", "C16", "C17", "C18"]


def sh(cmd, cwd=None, env=None, timeout=1200):
    e = dict(os.environ)
    e.update(env or {})
    p = subprocess.run(cmd, shell=True, cwd=cwd, env=e, capture_output=True, text=True, timeout=timeout)
    return p.returncode, p.stdout + p.stderr


def main():
    wt, name = Path(sys.argv[1]), sys.argv[2]
    out = V / "seeded_keep" / name
    sh("git add -N pypika_tortoise", cwd=wt)       # new modules of an extension show up in the diff
    rc, diff = sh("git diff -- pypika_tortoise", cwd=wt)
    if not diff.strip():
        print("no diff in worktree")
        return 1
    meta_in = {}
    if (wt / "seed_meta.json").exists():
        try:
            meta_in = json.loads((wt / "seed_meta.json").read_text())
        except Exception:
            meta_in = {}
    env = {"PYTHONPATH": str(wt), "PYTHONHASHSEED": "0"}
    rc_t, out_t = sh(f"{PY} -m pytest -q -p no:cacheprovider -x", cwd=wt, env=env)
    tests_line = ([l for l in out_t.splitlines() if "passed" in l or "failed" in l][-1:] or [out_t[-200:]])[0].strip()
    rc1, o1 = sh(f"{PY} seed_demo.py", cwd=wt, env=env)
    pf = Path("/tmp") / f"keep-own-{name}.diff"
    pf.write_text(diff)
    rc_r, o_r = sh(f"git apply -R {pf}", cwd=wt)
    assert rc_r == 0, o_r
    try:
        rc0, o0 = sh(f"{PY} seed_demo.py", cwd=wt, env=env)
    finally:
        rc_a, o_a = sh(f"git apply {pf}", cwd=wt)
        assert rc_a == 0, o_a
        pf.unlink(missing_ok=True)
    ext = meta_in.get("kind") == "keep-extension"
    if ext:
        # an extension: the part of the demonstration about existing behaviour (Part A) is byte-identical, the part about
        # the new feature (Part B) is skipped on the original and reports OK on the extended code
        strip = lambda o: "\n".join(l for l in o.splitlines() if not l.startswith("PART B"))  # noqa: E731
        same = (rc0 == 0 and rc1 == 0 and strip(o0) == strip(o1)
                and any(l.startswith("PART B OK") for l in o1.splitlines()) and any(l.startswith("PART B SKIPPED") for l in o0.splitlines()))
    else:
        same = rc0 == 0 and rc1 == 0 and o0 == o1
    confirmed = rc_t == 0 and same
    print(f"suite with patch: {tests_line} | demo lines {len(o1.splitlines())} | identical output: {same} | confirmed={confirmed}")
    alarms = {}
    for pid in ALL:
        rc, o = sh(f"{PY} {V}/sa/check.py {pid} --tier quick", env={"VERIF_EVIDENCE_DIR": f"/tmp/keep-evidence-{name}", "VERIF_REPO": str(wt)})
        if rc != 0:
            keys = re.findall(r"^  (C\d\d/.+?): ", o, flags=re.M)
            alarms[pid] = keys[:8] or ["ANALYSIS-ERROR: " + " ".join(l for l in o.splitlines() if "ANALYSIS-ERROR" in l)[:200]]
    shutil.rmtree(f"/tmp/keep-evidence-{name}", ignore_errors=True)
    out.mkdir(parents=True, exist_ok=True)
    # reviewed by hand and kept across re-evaluations: alarms that are TRUE violations of a sibling property by an
    # extension (its author vouched for one property only), each with the demonstration that confirmed it
    reviewed = {}
    fail_closed = {}
    if (out / "meta.json").exists():
        try:
            old_meta = json.loads((out / "meta.json").read_text())
            reviewed = old_meta.get("sibling_violations", {})
            fail_closed = old_meta.get("fail_closed", {})
        except Exception:
            reviewed = {}
    (out / "patch.diff").write_text(diff)
    if (wt / "seed_demo.py").exists():
        shutil.copy(wt / "seed_demo.py", out / "demo.py")
    meta = {
        "property": meta_in.get("property", name[:3]), "kind": "keep-extension" if ext else "keep",
        "summary": meta_in.get("summary", ""), "files_touched": meta_in.get("files_touched", []),
        "confirmed": confirmed,
        "what_i_ran": {"suite_with_patch": tests_line, "demo_output_lines": len(o1.splitlines()),
                       "demo_output_sha256_with_patch": hashlib.sha256(o1.encode()).hexdigest(),
                       "demo_output_sha256_without_patch": hashlib.sha256(o0.encode()).hexdigest()},
        "alarms": alarms,
        "sibling_violations": reviewed,
        "fail_closed": fail_closed,
        "unreviewed_alarms": {p_: [k for k in ks if k not in reviewed.get(p_, {}) and k not in fail_closed.get(p_, {})] for p_, ks in alarms.items()
                              if [k for k in ks if k not in reviewed.get(p_, {}) and k not in fail_closed.get(p_, {})]},
    }
    (out / "meta.json").write_text(json.dumps(meta, indent=1))
    print("alarms:", json.dumps(alarms)[:600] if alarms else "NONE", "| unreviewed:", json.dumps(meta["unreviewed_alarms"])[:300] if meta["unreviewed_alarms"] else "none")
    return 0


if __name__ == "__main__":
    sys.exit(main())
