#!/venv/bin/python
"""Regenerates /verif/MANIFEST.json from the table below (kept in one place so the manifest stays valid)."""
import json
from pathlib import Path

V = Path(__file__).resolve().parent.parent
PY = "/venv/bin/python /verif/sa/check.py"

CHECKS = {
 "C01": ("interprocedural effect/ownership analysis (ast) of all @builder closures vs the __copy__ protocol",
         "Decides the whole mechanism the property rests on: every in-place write reachable from any of the 90 builder methods x every concrete receiver class must hit a container re-copied by the effective __copy__ or created in the activation; writes through shared elements and to arguments (other than the guarded alias tag) are violations; decorator shape and copy-protocol chaining are checked. All paths, no bounds. The rendered-SQL equality itself is implied, not observed.",
         "class-hierarchy call resolution without monkey-patching or user subclasses; CPython copy.copy semantics", "2/C01"),
 "C02": ("interprocedural effect analysis of the observer closure + set-iteration/nondeterminism lint (ast)",
         "Effect-freedom of everything reachable from get_sql/_*_sql/__str__/__hash__/__eq__/nodes_/fields_ of every class (only Parameterizer.create_param may write, to its own values); no set-kinded value iterated into output; fresh Parameterizer per call; frozen SqlContext. Implies repeat-render, interleaved-dialect, thread and hash-seed clauses for all objects and histories.",
         "class-hierarchy call resolution; CPython str()/float formatting deterministic", "2/C02"),
 "C15": ("structural protocol lint over the live class table (ast) + C01 ownership rule",
         "Every __getattr__ hook must raise AttributeError for __deepcopy__/__setstate__/__getstate__ before anything else (decorator wrappers are analysed); shallow-copy decoupling is C01's rule re-evaluated; no unpicklable value stored on instances, no unreviewed protocol overrides. Decides the structural preconditions of the three duplication mechanisms, not the rendered equality of duplicates.",
         "CPython 3.9-3.13 probe names; user-supplied callables excluded", "2/C15"),
}

NOT_APPLICABLE = {
 "C03": "equivalence of query results on a real SQLite engine over all databases; no clause is decidable from source without executing SQL (other technique family); its structural ingredients are decided under C06/C11/C13",
}

PENDING = ["C04", "C05", "C06", "C07", "C08", "C09", "C10", "C11", "C12", "C13", "C14", "C16", "C17", "C18"]


def main():
    checks = []
    for pid, (tech, text, note, ref) in CHECKS.items():
        checks.append({
            "property_id": pid,
            "quick_cmd": f"{PY} {pid} --tier quick",
            "thorough_cmd": f"{PY} {pid} --tier thorough",
            "evidence_file": f"/verif/evidence/{pid}.json",
            "replay_cmd_template": f"{PY} --replay {{path}}",
            "engine": "sa",
            "level_claimed": {"category": "other", "text": text, "design_ref": f"DESIGN.md {ref}"},
            "level_note": note,
            "technique": "static analysis: " + tech,
        })
    na = [{"property_id": k, "reason": v} for k, v in NOT_APPLICABLE.items()]
    for p in PENDING:
        if p not in CHECKS:
            na.append({"property_id": p, "reason": "static check designed (DESIGN.md) but not built yet; not claimed until it exists"})
    man = {
        "version": 1,
        "setup_cmd": "true",
        "hooks": {
            "guard": "PYPIKA_TORTOISE_VERIF",
            "enable": "none needed: static analysis reads /repo sources; no instrumentation hooks exist in /repo",
            "baseline_off_cmd": "cd /repo && /venv/bin/python -m pytest -ra -q -p no:cacheprovider --timeout=900 --continue-on-collection-errors",
            "source_commits": [],
            "add_only": True,
        },
        "engines": [{"name": "sa", "path": "/verif/sa", "serves_properties": sorted(CHECKS),
                     "kind_free_text": "bespoke static analyser over the package's syntax trees (stdlib ast only): class table + C3 MRO, call resolution, effect/ownership analysis, symbolic render skeletons, finite evaluator"}],
        "checks": checks,
        "notes": "All checks decide structural necessary conditions from /repo's current source without importing or executing it. Exit 2 + ANALYSIS-ERROR means the engine could not analyse the tree (never a verdict).",
        "not_applicable": sorted(na, key=lambda d: d["property_id"]),
    }
    (V / "MANIFEST.json").write_text(json.dumps(man, indent=1) + "\n")


if __name__ == "__main__":
    main()
