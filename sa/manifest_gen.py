#!/venv/bin/python
"""Regenerates /verif/MANIFEST.json from the table below (kept in one place so the manifest stays valid)."""
import json
from pathlib import Path

V = Path(__file__).resolve().parent.parent
PY = "/venv/bin/python /verif/sa/check.py"

CHECKS = {
 "C01": ("interprocedural effect/ownership analysis (ast) of all @builder closures vs the __copy__ protocol",
         "Decides the whole mechanism the property rests on: every in-place write reachable from any of the 90 builder methods x every concrete receiver class must hit a container re-copied by the effective __copy__ or created in the activation; writes through shared elements and to arguments (other than the guarded alias tag) are violations; decorator shape and copy-protocol chaining are checked. All paths, no bounds. The rendered-SQL equality itself is implied, not observed.",
         "class-hierarchy call resolution without monkey-patching or user subclasses; CPython copy.copy semantics", "2/C01"),
 "C02": ("interprocedural effect analysis of the observer closure + set-iteration/nondeterminism lint (ast)",
         "Effect-freedom of everything reachable from get_sql/_*_sql/__str__/__hash__/__eq__/nodes_/fields_ of every class (only Parameterizer.create_param may write, to its own values); no set-kinded value iterated into output; fresh Parameterizer per call; frozen SqlContext. Implies repeat-render, interleaved-dialect, thread and hash-seed clauses for all objects and histories.",
         "class-hierarchy call resolution; CPython str()/float formatting deterministic", "2/C02"),
 "C15": ("structural protocol lint over the live class table (ast) + C01 ownership rule",
         "Every __getattr__ hook must raise AttributeError for __deepcopy__/__setstate__/__getstate__ before anything else (decorator wrappers are analysed); shallow-copy decoupling is C01's rule re-evaluated; no unpicklable value stored on instances, no unreviewed protocol overrides. Decides the structural preconditions of the three duplication mechanisms, not the rendered equality of duplicates.",
         "CPython 3.9-3.13 probe names; user-supplied callables excluded", "2/C15"),
 "C04": ("symbolic render skeletons (ast abstract interpretation): context-flow, evaluation-order vs textual-order of value slots, constructor-guard lint, placeholder table folding",
         "Decides four structural necessary conditions of placeholder/value agreement for every renderer and every nested render site: the parameterizer is inherited and no child is str()-rendered; evaluation order of value-bearing slots equals textual order; value-wrapper constructor and create_param arguments are guarded against Terms; inline/parameterised branches agree on the alias wrapper and the placeholder table is total, in dialect style, 1-based. The token-for-token relation between the two renderings and SQLite execution are not decided.",
         "symbolic evaluator covers the string-building subset the renderers use (fails closed otherwise); reference placeholder styles per dialect", "2/C04"),
 "C06": ("exhaustive finite table from symbolic rendering with concrete operator members and child objects vs SQL precedence table",
         "Exhaustive over (parent renderer, operand slot, parent operator) x 13 child kinds (about 500 cells): each composite Term class is rendered symbolically, the parenthesisation decision functions fold to constants, and every cell is compared with the standard precedence/associativity table; adjacent '-' fusion is checked on the same table; every Term class must classify (atom/prefix/infix/postfix). Local correctness of all cells implies correctness at any depth because renderers concatenate child text.",
         "reference precedence table of standard SQL shared by the six dialects; SQLite evaluation is not consulted", "2/C06"),
 "C08": ("context-flow analysis over render skeletons + sibling comparison of dialect overrides with the generic methods",
         "At each of ~140 nested render sites the abstract SqlContext passed down must inherit the dialect-bearing fields (own-dialect constant overrides and the outermost default excepted); str()-rendered children, context fields read through a value-manufacturing __getattr__ and fields dropped by SqlContext.copy are flagged; every dialect override that changes what a generic node can also render is tabulated against ctx.dialect use. Cross-dialect token-stream equality is not decided.",
         "class-hierarchy resolution; six shipped SQL_CONTEXT records", "2/C08"),
 "C09": ("exhaustive finite evaluation (symbolic, presence-valued) of the pagination selectors vs per-dialect reference grammar",
         "Exhaustive over 6 builder classes x limit/offset presence x ORDER BY presence (x TOP values for SQL Server) plus _SetOperation x 6 dialects: every cell's emitted fragment sequence is compared with the dialect's row-limiting grammar, slots must read the matching attribute with the inherited context, presence tests must not depend on the number (0 vs positive), setters map arguments to the matching slot. Row semantics on an engine are not decided.",
         "reference grammars from the property statement / vendor documentation", "2/C09"),
 "C10": ("context-flow analysis of position flags over statement skeletons",
         "For every SELECT-reachable clause slot of the six builder classes and _SetOperation the flags subquery/with_alias/subcriterion/with_namespace must be constants or builder-computed, never inherited; the incoming flags are consumed only by one tail wrap with only the alias suffix / upsert clause outside; embedding sites pass the flags their position needs and sibling clauses agree (HAVING like WHERE). Necessary and, with C12/R2, sufficient for position-independent inner text; placeholder renumbering is C04/R2.",
         "class-hierarchy resolution; statement-kind predicates enumerated concretely", "2/C10"),
 "C12": ("per-class render skeletons with an alias marker (symbolic evaluation) + context-flow at operand/defining slots",
         "Every Term subclass in the live class table is rendered with a marker alias: exactly once and last when with_alias is on, never when off (R1); every operand slot of every composite must pass with_alias=False (R2); defining positions of all builder classes pass True (R3); GROUP BY/ORDER BY alias references are guarded by membership in the select list's aliases with alias-free fallback (R4).",
         "class-hierarchy resolution; user subclasses of Term outside the repository", "2/C12"),
}

NOT_APPLICABLE = {
 "C03": "equivalence of query results on a real SQLite engine over all databases; no clause is decidable from source without executing SQL (other technique family); its structural ingredients are decided under C06/C11/C13",
}

PENDING = ["C05", "C07", "C11", "C13", "C14", "C16", "C17", "C18"]


def main():
    checks = []
    for pid, (tech, text, note, ref) in CHECKS.items():
        checks.append({
            "property_id": pid,
            "quick_cmd": f"{PY} {pid} --tier quick",
            "thorough_cmd": f"{PY} {pid} --tier thorough",
            "evidence_file": f"/verif/evidence/{pid}.json",
            "replay_cmd_template": f"{PY} --replay {{path}}",
            "engine": "sa",
            "level_claimed": {"category": "other", "text": text, "design_ref": f"DESIGN.md {ref}"},
            "level_note": note,
            "technique": "static analysis: " + tech,
        })
    na = [{"property_id": k, "reason": v} for k, v in NOT_APPLICABLE.items()]
    for p in PENDING:
        if p not in CHECKS:
            na.append({"property_id": p, "reason": "static check designed (DESIGN.md) but not built yet; not claimed until it exists"})
    man = {
        "version": 1,
        "setup_cmd": "true",
        "hooks": {
            "guard": "PYPIKA_TORTOISE_VERIF",
            "enable": "none needed: static analysis reads /repo sources; no instrumentation hooks exist in /repo",
            "baseline_off_cmd": "cd /repo && /venv/bin/python -m pytest -ra -q -p no:cacheprovider --timeout=900 --continue-on-collection-errors",
            "source_commits": [],
            "add_only": True,
        },
        "engines": [{"name": "sa", "path": "/verif/sa", "serves_properties": sorted(CHECKS),
                     "kind_free_text": "bespoke static analyser over the package's syntax trees (stdlib ast only): class table + C3 MRO, call resolution, effect/ownership analysis, symbolic render skeletons, finite evaluator"}],
        "checks": checks,
        "notes": "All checks decide structural necessary conditions from /repo's current source without importing or executing it. Exit 2 + ANALYSIS-ERROR means the engine could not analyse the tree (never a verdict).",
        "not_applicable": sorted(na, key=lambda d: d["property_id"]),
    }
    (V / "MANIFEST.json").write_text(json.dumps(man, indent=1) + "\n")


if __name__ == "__main__":
    main()
