#!/venv/bin/python
"""Regenerates /verif/MANIFEST.json from the table below (kept in one place so the manifest stays valid)."""
import json
from pathlib import Path

V = Path(__file__).resolve().parent.parent
PY = "/venv/bin/python /verif/sa/check.py"

CHECKS = {
 "C01": ("interprocedural effect/ownership analysis (ast) of all @builder closures vs the __copy__ protocol",
         "Decides the whole mechanism the property rests on: every in-place write reachable from any of the 90 builder methods x every concrete receiver class must hit a container re-copied by the effective __copy__ or created in the activation; writes through shared elements and to arguments (other than the guarded alias tag) are violations; decorator shape and copy-protocol chaining are checked. All paths, no bounds. The rendered-SQL equality itself is implied, not observed.",
         "class-hierarchy call resolution without monkey-patching or user subclasses; CPython copy.copy semantics", "2/C01"),
 "C02": ("interprocedural effect analysis of the observer closure + set-iteration/nondeterminism lint (ast)",
         "Effect-freedom of everything reachable from get_sql/_*_sql/__str__/__hash__/__eq__/nodes_/fields_ of every class (only Parameterizer.create_param may write, to its own values); no set-kinded value iterated into output; fresh Parameterizer per call; frozen SqlContext. Implies repeat-render, interleaved-dialect, thread and hash-seed clauses for all objects and histories. No one-shot iterator (generator call/expression, map/filter/zip) may be stored in object state, since iterating it while rendering is a write (R4).",
         "class-hierarchy call resolution; CPython str()/float formatting deterministic", "2/C02"),
 "C15": ("structural protocol lint over the live class table (ast) + C01 ownership rule",
         "Every __getattr__ hook must raise AttributeError for __deepcopy__/__setstate__/__getstate__ before anything else (decorator wrappers are analysed); shallow-copy decoupling is C01's rule re-evaluated; no unpicklable value stored on instances, no unreviewed protocol overrides. Decides the structural preconditions of the three duplication mechanisms, not the rendered equality of duplicates.",
         "CPython 3.9-3.13 probe names; user-supplied callables excluded", "2/C15"),
 "C04": ("symbolic render skeletons (ast abstract interpretation): context-flow, evaluation-order vs textual-order of value slots, constructor-guard lint, placeholder table folding",
         "Decides four structural necessary conditions of placeholder/value agreement for every renderer and every nested render site: the parameterizer is inherited and no child is str()-rendered; evaluation order of value-bearing slots equals textual order; value-wrapper constructor and create_param arguments are guarded against Terms; inline/parameterised branches agree on the alias wrapper and the placeholder table is total, in dialect style, 1-based. The token-for-token relation between the two renderings and SQLite execution are not decided.",
         "symbolic evaluator covers the string-building subset the renderers use (fails closed otherwise); reference placeholder styles per dialect", "2/C04"),
 "C06": ("exhaustive finite table from symbolic rendering with concrete operator members and child objects vs SQL precedence table",
         "Exhaustive over (parent renderer, operand slot, parent operator) x 13 child kinds (about 500 cells): each composite Term class is rendered symbolically, the parenthesisation decision functions fold to constants, and every cell is compared with the standard precedence/associativity table; adjacent '-' fusion is checked on the same table; every Term class must classify (atom/prefix/infix/postfix). Local correctness of all cells implies correctness at any depth because renderers concatenate child text. A class that reads ctx.subcriterion counts as wrapped only if every render path is bracketed under both with_alias values; operator-shaped renderers outside the reviewed table are violations. Renderings that join operands with an operator as separator must request brackets for each operand. A class that parents treat as an atom has no render path that prints its operand bare (reviewed exceptions listed).",
         "reference precedence table of standard SQL shared by the six dialects; SQLite evaluation is not consulted", "2/C06"),
 "C08": ("context-flow analysis over render skeletons + sibling comparison of dialect overrides with the generic methods",
         "At each of ~140 nested render sites the abstract SqlContext passed down must inherit the dialect-bearing fields (own-dialect constant overrides and the outermost default excepted); str()-rendered children, context fields read through a value-manufacturing __getattr__ and fields dropped by SqlContext.copy are flagged; every dialect override that changes what a generic node can also render is tabulated against ctx.dialect use. Cross-dialect token-stream equality is not decided. Every convention field of every shipped dialect context must reach the operands of a top-level set operation (re-derived, forced by the builder, or equal to the default) (R1c).",
         "class-hierarchy resolution; six shipped SQL_CONTEXT records", "2/C08"),
 "C09": ("exhaustive finite evaluation (symbolic, presence-valued) of the pagination selectors vs per-dialect reference grammar",
         "Exhaustive over 6 builder classes x limit/offset presence x ORDER BY presence (x TOP values for SQL Server) plus _SetOperation x 6 dialects: every cell's emitted fragment sequence is compared with the dialect's row-limiting grammar, slots must read the matching attribute with the inherited context, presence tests must not depend on the number (0 vs positive), setters map arguments to the matching slot. Row semantics on an engine are not decided. Pagination slots are evaluated in the order they are printed (inherited from C04/R2), so the values land in the matching parameter slots.",
         "reference grammars from the property statement / vendor documentation", "2/C09"),
 "C10": ("context-flow analysis of position flags over statement skeletons",
         "For every SELECT-reachable clause slot of the six builder classes and _SetOperation the flags subquery/with_alias/subcriterion/with_namespace must be constants or builder-computed, never inherited; the incoming flags are consumed only by one tail wrap with only the alias suffix / upsert clause outside; embedding sites pass the flags their position needs and sibling clauses agree (HAVING like WHERE). Necessary and, with C12/R2, sufficient for position-independent inner text; placeholder renumbering is C04/R2. A dialect's own policy fields reach its statements on every entry path (inherited from C08/R1c).",
         "class-hierarchy resolution; statement-kind predicates enumerated concretely", "2/C10"),
 "C12": ("per-class render skeletons with an alias marker (symbolic evaluation) + context-flow at operand/defining slots",
         "Every Term subclass in the live class table is rendered with a marker alias: exactly once and last when with_alias is on, never when off (R1); every operand slot of every composite must pass with_alias=False (R2); defining positions of all builder classes pass True (R3); GROUP BY/ORDER BY alias references are guarded by membership in the select list's aliases with alias-free fallback (R4). Join conditions are not rendered as defining positions; the dialect alias-reference policy reaches every entry path (R5, inherited from C08/R1c).",
         "class-hierarchy resolution; user subclasses of Term outside the repository", "2/C12"),
 "C05": ("quote-wrap-requires-escape rule over render skeletons + wrapper-class coverage lint over value positions",
         "Decides the escaping discipline at every site that puts text between string quotes (inner text must be .replace(q, q*2)-escaped on the same quote, quote-free by kind, or a rendered term), the dialect wrapper coverage of every value position of the builders, and single-fragment value renderers. The decoded-value round trip over the value space is not decided. No delimiter is doubled twice on one render path of a value wrapper, super()/cls recursion included (R4). Value wrappers are judged by an exhaustive table (wrapper class x value kind, kinds extended by every type the formatter tests with isinstance) evaluated on typed symbolic values: one quoted literal, quote doubled, the dialect's backslash rule applied to every kind that can contain one, Enum members never formatted as members (R6). JSON string tokens assembled by the JSON term backslash-escape delimiter and backslash.",
         "SQL standard quote doubling and MySQL's backslash rule as oracles; symbolic evaluator subset", "2/C05"),
 "C07": ("name-hole quoting analysis over render skeletons + folding of quote expressions under the six shipped contexts",
         "Every hole that prints a name-bearing attribute (name/_name/_table_name/alias/table qualifier) in every renderer must sit between identical identifier-quote holes; the quote characters of definition and reference sites are evaluated under the six shipped SQL_CONTEXT records and must coincide; the quoted text must have the delimiter doubled. The name space and engine execution are not explored. Every row-source slot (FROM item, UPDATE target, joined item) must write the table alias exactly once (R4); str()-formatted children inherited from C08 (R5).",
         "delimited-identifier rules per dialect; list of name-bearing attributes and exemptions confirmed by reading", "2/C07"),
 "C11": ("exhaustive finite evaluation of the namespace decision (x3 copies) and qualifier choice + package-wide method-as-truth-value lint",
         "Exhaustive over joins x FROM shape x foreign flag x UPDATE target for the three copies of the decision (96 cells) against the property's disjunction, and over with_namespace x alias x table for Field and Star; bare positions get with_namespace=False; bound methods used as truth values/comparison operands are flagged. Engine-side name resolution is not decided. The foreign-table decision compares sources as whole objects over FROM, UPDATE target and joined items (R5). Every rendered child is visible to that decision (traversal obligations inherited from C17/R3).",
         "source shapes enumerated concretely; class-hierarchy resolution", "2/C11"),
 "C13": ("statement skeletons per (class, kind) with condition-aware keyword multiplicity/order, bracket balance, empty-render folding; data/control-dependence extraction of cross-clause couplings",
         "For 6 builder classes x 7 statement kinds every clause keyword occurs at most once on any consistent path and in the reference order; every renderer's literal brackets balance on every path; incomplete builders fold to '' in all copies of the guards; every (builder method, foreign clause read, attribute written) dependence triple must be in a reviewed table (order-sensitive ones are known findings). SQLite parser acceptance and str() equality over permutations are not decided. Repeatable builders write every attribute monotonically (R5); two builder methods never overwrite one attribute with different values outside the reviewed same-clause setters (R6).",
         "reference clause-order tables per statement kind; disjoint-effects-commute argument", "2/C13"),
 "C14": ("frozen guard table checked for presence, exception class and dominance (ast) + join availability data flow + C17 obligations",
         "38 documented rejections: each must raise the documented exception reading the guarded attributes and dominate the write it protects (not inside a possibly-empty loop; every operand for set operations); do_join/JoinOn.validate must feed FROM, update table, CTEs, existing joins and the joined item into the availability set and raise iff the difference is non-empty; exactness of the set arithmetic inherits C17. 'Valid ones never are' over arbitrary object graphs is not decided beyond that. Table-less criterion fields are never reported missing; no attribute is read through a value-manufacturing __getattr__ on a declared class that lacks it (R4); state read by a guard is not shared between copies (inherited from C01). A guard that protects writes is not nested under an unrelated condition.",
         "guard table confirmed by reading (floor = today's count); Python set semantics", "2/C14"),
 "C16": ("three-way sibling agreement (rendered slots / nodes_ traversal / replace_table rewrites) per class and per clause attribute",
         "For every Term subclass and every clause attribute of every builder class: rendered U traversed children must be rewritten from the same attribute by the effective replace_table (super() delegation followed); holders of children must not inherit the no-op; FROM items must be recursed into; replace_table calls must resolve on the declared/narrowed class of the receiver; siblings agree. The string equality with 'built with new from the start' is not computed. A child is rewritten unconditionally (only type/None tests and comparisons with the exchanged tables may guard it).",
         "docstring contract 'replaces all occurrences'; class-hierarchy resolution", "2/C16"),
 "C17": ("hash-key/eq-key comparison via render skeletons of __hash__, bool-eq lint at set sites, rendered-vs-traversed agreement",
         "For every class defining __eq__/__hash__ the attributes that can influence the hash (through the get_sql skeleton it hashes) must be a subset of those compared by __eq__; set element classes must have a bool __eq__ or a hash separating every distinct reference; nodes_() must traverse every rendered child. Membership answers on generated objects are not computed. A child rendered as a component of a tuple element must be reached as that component; a hash that includes the class requires an exact-class __eq__. Traversal of a child is guarded only by type/None tests on it.",
         "Python data-model contract; hash collisions of distinct strings ignored", "2/C17"),
 "C18": ("regex AST shape proof (re._parser) + symbolic folding of the Interval renderer",
         "Exhaustive over 4 trim alternatives, 7 template slots and the shipped dialect templates: every alternative is anchored, consumes only zeros and the template's separators and touches retained text with a separator (so only whole zero fields at the ends can be removed); slot order, separators, sign, unit designator, per-dialect quoting form and the untrimmed special cases are folded from the renderer. Numeric read-back for arbitrary digit patterns is not computed. Positions that can hold an Interval render it through get_sql(ctx) (inherited from C08/R1). Interval.get_sql writes no state (no memo shared between objects); the statement's dialect reaches every entry path (inherited from C08/R1c); the constructor's bookkeeping (magnitudes per unit, largest/smallest, sign of the first non-zero component) is decided by finite evaluation of Interval.__init__ over sign patterns (105 quick, all 2187 thorough); a constructor that computes with its component parameters is refused (exit 2) rather than judged.",
         "field layout implied by the unit designator", "2/C18"),
}

NOT_APPLICABLE = {
 "C03": "equivalence of query results on a real SQLite engine over all databases; no clause is decidable from source without executing SQL (other technique family); its structural ingredients are decided under C06/C11/C13",
}

PENDING = []


def main():
    checks = []
    for pid, (tech, text, note, ref) in CHECKS.items():
        checks.append({
            "property_id": pid,
            "quick_cmd": f"{PY} {pid} --tier quick",
            "thorough_cmd": f"{PY} {pid} --tier thorough",
            "evidence_file": f"/verif/evidence/{pid}.json",
            "replay_cmd_template": f"{PY} --replay {{path}}",
            "engine": "sa",
            "level_claimed": {"category": "other", "text": text, "design_ref": f"DESIGN.md {ref}"},
            "level_note": note,
            "technique": "static analysis: " + tech,
        })
    na = [{"property_id": k, "reason": v} for k, v in NOT_APPLICABLE.items()]
    for p in PENDING:
        if p not in CHECKS:
            na.append({"property_id": p, "reason": "static check designed (DESIGN.md) but not built yet; not claimed until it exists"})
    man = {
        "version": 1,
        "setup_cmd": "true",
        "hooks": {
            "guard": "PYPIKA_TORTOISE_VERIF",
            "enable": "none needed: static analysis reads /repo sources; no instrumentation hooks exist in /repo",
            "baseline_off_cmd": "cd /repo && /venv/bin/python -m pytest -ra -q -p no:cacheprovider --timeout=900 --continue-on-collection-errors",
            "source_commits": [],
            "add_only": True,
        },
        "engines": [{"name": "sa", "path": "/verif/sa", "serves_properties": sorted(CHECKS),
                     "kind_free_text": "bespoke static analyser over the package's syntax trees (stdlib ast only): class table + C3 MRO, call resolution, effect/ownership analysis, symbolic render skeletons, finite evaluator"}],
        "checks": checks,
        "notes": "All checks decide structural necessary conditions from /repo's current source without importing or executing it. Exit 2 + ANALYSIS-ERROR means the engine could not analyse the tree (never a verdict).",
        "not_applicable": sorted(na, key=lambda d: d["property_id"]),
    }
    (V / "MANIFEST.json").write_text(json.dumps(man, indent=1) + "\n")


if __name__ == "__main__":
    main()
