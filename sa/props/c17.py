"""C17 -- equality and hashing of tables, schemas and queries are coherent (DESIGN 2/C17)."""
from __future__ import annotations

import ast

from ..model import AnalysisError, ClassInfo, FuncInfo, Program
from ..report import Run
from ..skel import recv_path, render, root_attr, skeletons, term_classes
from ..symex import (Alt, CondI, CtxV, Hole, JoinP, Lit, Obj, One, Opaque, Phi, Rep, RepI, SlotP, Str, Sym, show,
                     walk_parts)
from .c16 import NO_TABLE, _allowed_test, traversal_shapes, traversed_attrs


def self_attrs_in(v, depth=0, acc=None) -> set[str]:
    """every attribute of the root object read anywhere inside a symbolic value (text, conditions, receivers)"""
    if acc is None:
        acc = set()
    if depth > 40:
        return acc
    d = depth + 1
    if isinstance(v, Sym):
        if v.kind in ("attr", "getattr-default") and isinstance(v.args[0], Obj) and v.args[0].root:
            acc.add(v.args[1])
        for a in v.args:
            self_attrs_in(a, d, acc)
    elif isinstance(v, Str):
        for p in v.parts:
            self_attrs_in(p, d, acc)
    elif isinstance(v, Alt):
        self_attrs_in(v.cond, d, acc); self_attrs_in(v.a, d, acc); self_attrs_in(v.b, d, acc)
    elif isinstance(v, Phi):
        self_attrs_in(v.cond, d, acc); self_attrs_in(v.a, d, acc); self_attrs_in(v.b, d, acc)
    elif isinstance(v, Rep):
        self_attrs_in(v.body, d, acc); self_attrs_in(v.source, d, acc); self_attrs_in(v.filt, d, acc)
    elif isinstance(v, JoinP):
        for i in v.items:
            self_attrs_in(i, d, acc)
    elif isinstance(v, One):
        self_attrs_in(v.value, d, acc); self_attrs_in(v.cond, d, acc)
    elif isinstance(v, RepI):
        self_attrs_in(v.source, d, acc)
        for i in v.body:
            self_attrs_in(i, d, acc)
    elif isinstance(v, CondI):
        self_attrs_in(v.cond, d, acc)
        for i in v.items:
            self_attrs_in(i, d, acc)
    elif isinstance(v, Hole):
        self_attrs_in(v.value, d, acc)
    elif isinstance(v, SlotP):
        self_attrs_in(v.recv, d, acc)
        if isinstance(v.ctx, CtxV):
            for f in v.ctx.fields.values():
                self_attrs_in(f, d, acc)
    elif isinstance(v, Opaque):
        for i in v.inner:
            self_attrs_in(i, d, acc)
        for i in v.extra:
            self_attrs_in(i, d, acc)
    elif isinstance(v, (tuple, list)):
        for i in v:
            self_attrs_in(i, d, acc)
    elif hasattr(v, "items") and isinstance(getattr(v, "items"), tuple):
        for i in v.items:
            self_attrs_in(i, d, acc)
    return acc


def _inner_str(v):
    """the string hashed by hash(<str>)"""
    if isinstance(v, Sym) and v.kind == "call" and len(v.args) >= 2:
        return v.args[1]
    return v


def eq_key(f: FuncInfo):
    """(attrs compared pairwise on self and other, returns_bool)"""
    selfn, othn = f.params[0], f.params[1]
    attrs = set()
    for n in ast.walk(f.node):
        if isinstance(n, ast.Compare) and len(n.ops) == 1 and isinstance(n.ops[0], (ast.Eq,)):
            l, r = n.left, n.comparators[0]
            if (isinstance(l, ast.Attribute) and isinstance(r, ast.Attribute) and isinstance(l.value, ast.Name) and isinstance(r.value, ast.Name)
                    and {l.value.id, r.value.id} == {selfn, othn} and l.attr == r.attr):
                attrs.add(l.attr)
            else:
                # the same attribute path on both sides (`self.function.name == other.function.name`): the root attribute is
                # compared through that path
                def chain(e):
                    names = []
                    while isinstance(e, ast.Attribute):
                        names.append(e.attr)
                        e = e.value
                    return (e.id, tuple(reversed(names))) if isinstance(e, ast.Name) and names else None
                cl, cr = chain(l), chain(r)
                if cl and cr and {cl[0], cr[0]} == {selfn, othn} and cl[1] == cr[1] and len(cl[1]) > 1:
                    attrs.add(cl[1][0])
    rets = [n.value for n in ast.walk(f.node) if isinstance(n, ast.Return) and n.value is not None]

    local = {}
    for n in ast.walk(f.node):
        if isinstance(n, ast.Assign) and len(n.targets) == 1 and isinstance(n.targets[0], ast.Name):
            local.setdefault(n.targets[0].id, []).append(n.value)

    def boolish(e, depth=0):
        if isinstance(e, ast.Name) and e.id in local and depth < 4:
            return all(boolish(v, depth + 1) for v in local[e.id])      # `same_name = a == b; return same_name and ...`
        if isinstance(e, (ast.Compare,)):
            return True
        if isinstance(e, ast.BoolOp):
            return all(boolish(v) for v in e.values)
        if isinstance(e, ast.UnaryOp) and isinstance(e.op, ast.Not):
            return True
        if isinstance(e, ast.Constant) and isinstance(e.value, bool):
            return True
        if isinstance(e, ast.Call) and isinstance(e.func, ast.Name) and e.func.id in ("isinstance", "bool", "all", "any"):
            return True
        return False
    return attrs, bool(rets) and all(boolish(r) for r in rets)



def _non_bool_return(program: Program, c, f: FuncInfo, seen: set):
    """None if every return of the comparison method is a truth value; else a description of the path that is not.  A
    return of `super().__eq__(other)` / `Base.__eq__(self, other)` is judged by the method it resolves to."""
    if f in seen:
        return None
    seen = seen | {f}
    rets = [n.value for n in ast.walk(f.node) if isinstance(n, ast.Return) and n.value is not None]
    if not rets:
        return "returns None"

    def judge(e):
        if isinstance(e, ast.Compare):
            return None
        if isinstance(e, ast.BoolOp):
            for v in e.values[-1:]:          # `a and b` answers with b when a is truthy; earlier operands only when falsy/truthy themselves
                r = judge(v)
                if r:
                    return r
            return None
        if isinstance(e, ast.UnaryOp) and isinstance(e.op, ast.Not):
            return None
        if isinstance(e, ast.Constant) and (isinstance(e.value, bool) or e.value is None):
            return None
        if isinstance(e, ast.Name) and e.id == "NotImplemented":
            return None
        if isinstance(e, ast.IfExp):
            return judge(e.body) or judge(e.orelse)
        if isinstance(e, ast.Call):
            fn = e.func
            if isinstance(fn, ast.Name) and fn.id in ("isinstance", "bool", "all", "any", "issubclass", "hasattr", "callable"):
                return None
            if isinstance(fn, ast.Attribute) and fn.attr in ("__eq__", "__ne__"):
                tgt = None
                if isinstance(fn.value, ast.Call) and isinstance(fn.value.func, ast.Name) and fn.value.func.id == "super" and f.cls is not None:
                    mro = c.mro
                    if f.cls in mro:
                        for k in mro[mro.index(f.cls) + 1:]:
                            if fn.attr in k.methods:
                                tgt = k.methods[fn.attr]
                                break
                elif isinstance(fn.value, ast.Name):
                    r = program.resolve_global(f.module, fn.value.id)
                    if r and r[0] == "class":
                        tgt = r[1].resolve(fn.attr)
                    elif fn.value.id == f.params[0]:
                        tgt = c.resolve(fn.attr)
                if tgt is None:
                    return None          # object.__eq__ / unknown receiver: identity or NotImplemented
                sub = _non_bool_return(program, c, tgt, seen)
                return f"hands some operands to {tgt.qualname}, which {sub}" if sub else None
            if isinstance(fn, ast.Name):
                r = program.resolve_global(f.module, fn.id)
                if r and r[0] == "class":
                    return f"builds a {r[1].qualname}"
            return None
        return None
    for e in rets:
        r = judge(e)
        if r:
            return r
    return None


def _as_bool_expr(f: FuncInfo):
    """the body of a comparison method as one expression: `if c: return A` ... `return B` is `A if c else B`"""
    def seq(stmts):
        stmts = [st for st in stmts if not (isinstance(st, ast.Expr) and isinstance(st.value, ast.Constant))]
        if not stmts:
            return None
        st = stmts[0]
        if isinstance(st, ast.Return):
            return st.value
        if isinstance(st, ast.If):
            a = seq(st.body)
            b = seq(st.orelse) if st.orelse else seq(stmts[1:])
            if a is None or b is None:
                return None
            return ast.IfExp(test=st.test, body=a, orelse=b)
        return None
    return seq(f.node.body)


def _ne_negates_eq(ef: FuncInfo, nf: FuncInfo):
    """True / False when both methods are boolean combinations of the same atoms (isinstance tests, attribute
    comparisons, `self.__eq__(other)`) and `!=` is / is not the negation of `==` under every truth assignment of the
    atoms; None when a shape is not understood"""
    import itertools
    e_eq, e_ne = _as_bool_expr(ef), _as_bool_expr(nf)
    if e_eq is None or e_ne is None or len(ef.params) < 2 or len(nf.params) < 2:
        return None
    ren = {nf.params[0]: ef.params[0], nf.params[1]: ef.params[1]}

    class Ren(ast.NodeTransformer):
        def visit_Name(self, n):
            return ast.copy_location(ast.Name(id=ren.get(n.id, n.id), ctx=n.ctx), n)
    import copy as _copy
    e_ne = Ren().visit(_copy.deepcopy(e_ne))
    atoms: dict[str, int] = {}

    def atom(e) -> int:
        return atoms.setdefault(ast.unparse(e), len(atoms))

    class Unknown(Exception):
        pass

    def ev(e, val, depth=0):
        if isinstance(e, ast.Constant) and isinstance(e.value, bool):
            return e.value
        if isinstance(e, ast.UnaryOp) and isinstance(e.op, ast.Not):
            return not ev(e.operand, val, depth)
        if isinstance(e, ast.BoolOp):
            vs = [ev(v, val, depth) for v in e.values]
            return all(vs) if isinstance(e.op, ast.And) else any(vs)
        if isinstance(e, ast.IfExp):
            return ev(e.body, val, depth) if ev(e.test, val, depth) else ev(e.orelse, val, depth)
        if isinstance(e, ast.Compare) and len(e.ops) == 1 and isinstance(e.ops[0], (ast.Eq, ast.NotEq, ast.Is, ast.IsNot)):
            pos = ast.Compare(left=e.left, ops=[ast.Eq() if isinstance(e.ops[0], (ast.Eq, ast.NotEq)) else ast.Is()], comparators=e.comparators)
            v = val[atom(pos)]
            return v if isinstance(e.ops[0], (ast.Eq, ast.Is)) else not v
        if isinstance(e, ast.Call) and isinstance(e.func, ast.Name) and e.func.id == "isinstance":
            return val[atom(e)]
        if (isinstance(e, ast.Call) and isinstance(e.func, ast.Attribute) and e.func.attr == "__eq__" and isinstance(e.func.value, ast.Name)
                and e.func.value.id == ef.params[0] and depth < 2):
            return ev(e_eq, val, depth + 1)
        raise Unknown()
    # discover the atoms with a dry run over a generous table, then enumerate
    try:
        for _ in range(2):
            n = max(len(atoms), 1)
            for bits in itertools.product([False, True], repeat=min(n, 8)):
                val = list(bits) + [False] * 16
                ev(e_eq, val)
                ev(e_ne, val)
        n = len(atoms)
        if n > 8:
            return None
        for bits in itertools.product([False, True], repeat=n):
            val = list(bits) + [False] * 4
            if ev(e_ne, val) != (not ev(e_eq, val)):
                return False
        return True
    except Unknown:
        return None

def check(program: Program, run: Run) -> None:
    run.explanation = (
        "Data-model contract decided from the syntax tree and the render skeletons: for every class defining __eq__/__hash__ "
        "the attributes that can influence the hash (through everything __hash__ calls, e.g. the get_sql skeleton under the "
        "default context) must be a subset of the attributes compared by __eq__ (R1); __eq__ must be a bool-returning "
        "conjunction over the same attribute on both sides, and every class whose instances the library puts into sets / "
        "dict keys must have such an __eq__ (R2); nodes_() of every composite must traverse every child it renders, so "
        "fields_()/tables_ see every reference (R3). Membership answers on generated objects are not computed.")
    run.rule("R1 hash-key subset of eq-key (attribute-wise, through nested get_sql)")
    run.rule("R2 __eq__ returns bool and compares the same attribute on both sides; __ne__ is its negation; set/dict element classes have a bool __eq__")
    run.rule("R3 rendered child attributes are traversed by nodes_(); the traversal of a child is guarded only by type/None tests on that child")
    eqs = program.definitions_of("__eq__")
    hashes = program.definitions_of("__hash__")
    run.analysed = {"eq_definitions": len(eqs), "hash_definitions": len(hashes)}
    if len(eqs) < 4 or len(hashes) < 3:
        raise AnalysisError(f"instance count below floor: {run.analysed}")

    classes = sorted({f.cls for f in eqs} | {f.cls for f in hashes}, key=lambda c: c.qualname)
    for c in classes:
        ef, hf = c.resolve("__eq__"), c.resolve("__hash__")
        own_eq = "__eq__" in c.methods
        if ef is not None:
            attrs, is_bool = eq_key(ef)
        else:
            attrs, is_bool = set(), True
        # Python: defining __eq__ without __hash__ in the same class makes instances unhashable
        unhashable = own_eq and "__hash__" not in c.methods
        if unhashable:
            run.info(f"C17/info:unhashable:{c.qualname}", f"{c.qualname} defines __eq__ without __hash__: instances are unhashable (coherent)")
            run.ob("C17/R1 hash coherent with equality", c.qualname, True, detail="unhashable by construction")
        elif hf is not None and ef is not None and is_bool:
            hv, _ = render(program, c, "__hash__")
            hkey = self_attrs_in(hv)
            extra = sorted(a for a in hkey - attrs if not a.startswith("__"))
            run.ob("C17/R1 hash-key is a subset of eq-key", c.qualname, not extra, detail=f"hash reads {sorted(hkey)}; eq compares {sorted(attrs)}", where=hf.loc())
            # the class itself as part of the hash key: __eq__ must then compare the exact class, not isinstance
            h_src, e_src = ast.unparse(hf.node), ast.unparse(ef.node)
            selfn_h = hf.params[0] if hf.params else "self"
            hashes_class = f"{selfn_h}.__class__" in h_src or f"type({selfn_h})" in h_src
            if hashes_class:
                eq_exact = "__class__" in e_src or "type(" in e_src
                subs = [k.qualname for k in c.all_subclasses() if k.resolve("__hash__") is hf and k.resolve("__eq__") is ef]
                okc = eq_exact or not subs
                run.ob("C17/R1 class identity in the hash key is compared by __eq__", c.qualname, okc, detail=f"subclasses sharing both methods: {subs[:4]}", where=hf.loc())
                if not okc:
                    run.finding(f"C17/hash-wider-than-eq:{c.qualname}:__class__",
                                f"{c.qualname}.__hash__ hashes the object's class, but {ef.qualname} accepts any instance of {c.qualname} (isinstance): a {subs[0]} that compares equal to a {c.qualname} hashes differently, "
                                "so set/dict membership disagrees with ==", where=hf.loc(), rule="R1")
            if extra:
                run.finding(f"C17/hash-wider-than-eq:{c.qualname}:{','.join(extra)}",
                            f"{c.qualname}.__hash__ depends on {extra}, which {ef.qualname} does not compare: objects that compare equal can hash differently, so set/dict membership disagrees with ==",
                            where=hf.loc(), rule="R1")
        if ef is not None and "__eq__" in c.methods:
            if not is_bool:
                run.info(f"C17/info:non-bool-eq:{c.qualname}", f"{ef.qualname} does not return bool (operator overload building a criterion); judged where its instances enter sets")
            else:
                run.ob("C17/R2 __eq__ returns bool over the same attributes on both sides", c.qualname, is_bool, where=ef.loc())
            nf = c.resolve("__ne__")
            if nf is not None and is_bool:
                neg = _ne_negates_eq(ef, nf)
                if neg is None:          # a shape the truth table does not cover: the textual idioms
                    src = ast.unparse(nf.node)
                    neg = "not" in src and "__eq__" in src or "!=" in src
                run.ob("C17/R2 __ne__ is the negation of __eq__", c.qualname, neg, where=nf.loc())
                if not neg:
                    run.finding(f"C17/ne-not-negation:{c.qualname}", f"{nf.qualname} is not the negation of __eq__", where=nf.loc(), rule="R2")

    # R2b: the objects the property names (tables, schemas, aliased queries, query builders -- every kind of row source)
    # answer == with a truth value on every path, delegations to an inherited __eq__ followed: the library looks them up
    # with linear searches (`x in list`, `a == b` in comprehensions), and an == that hands some operand kinds to the
    # criterion-building Term.__eq__ is truthy for them whatever they are, not symmetric, and disagrees with the hash
    sel = program.cls("Selectable")
    named = [k for k in program.all_classes() if (k.is_subclass_of(sel) and k is not sel) or k.name == "Schema"]
    if len(named) < 4:
        raise AnalysisError(f"instance count below floor: row-source classes {len(named)}")
    for k in sorted(named, key=lambda x: x.qualname):
        ef = k.resolve("__eq__")
        if ef is None:
            continue
        if any(b is not k and b in named and b.resolve("__eq__") is ef for b in k.mro):
            continue        # judged at the base class it inherits the method from
        why = _non_bool_return(program, k, ef, set())
        run.ob("C17/R2b == of a table / schema / aliased query / builder is a truth value on every path", k.qualname, why is None, detail=why or ef.qualname, where=ef.loc())
        if why is not None:
            run.finding(f"C17/eq-not-boolean:{k.qualname}",
                        f"== of a {k.qualname} ({ef.qualname}) {why}: the answer is an always-truthy object for those operands, so == is not symmetric, `x in [..]` succeeds for "
                        "every x, and the set/dict answer (by hash) differs from the linear search", where=ef.loc(), rule="R2")

    # R2c: symmetry across the class lattice.  An __eq__ that admits `isinstance(other, T)` answers for every pair (x, y)
    # with y a T; when some subclass S of T compares with a different __eq__, `x == y` (decided by x's method) and `y == x`
    # (decided by S's) are two different questions -- e.g. a comparison hoisted into a common base with the type test
    # widened to the base, while two subclasses keep their stricter overrides
    nsym = 0
    for ef in eqs:
        if ef.cls is None or len(ef.params) < 2:
            continue
        _a, isb = eq_key(ef)
        if not isb:
            continue
        tested = []
        for n in ast.walk(ef.node):
            if (isinstance(n, ast.Call) and isinstance(n.func, ast.Name) and n.func.id == "isinstance" and len(n.args) == 2
                    and isinstance(n.args[0], ast.Name) and n.args[0].id == ef.params[1]):
                spec = n.args[1]
                for e in (spec.elts if isinstance(spec, ast.Tuple) else [spec]):
                    k = program.resolve_expr_class(ef.module, e, None)
                    if k is not None:
                        tested.append(k)
        for T in tested:
            nsym += 1
            others = sorted({S.qualname for S in program.all_classes() if S.is_subclass_of(T) and S.resolve("__eq__") not in (None, ef)})
            run.ob("C17/R2c every class admitted by the type test of an __eq__ compares with that same __eq__", f"{ef.qualname}:{T.qualname}", not others,
                   detail=f"other __eq__ in {others[:4]}" if others else "", where=ef.loc())
            if others:
                run.finding(f"C17/eq-asymmetric:{ef.qualname}:{T.qualname}",
                            f"{ef.qualname} admits any {T.qualname} as the other operand, but {', '.join(others[:4])} compare with an __eq__ of their own: `x == y` and `y == x` are "
                            "answered by different methods (and the hashes of an 'equal' pair differ), so == is not symmetric and list membership disagrees with set membership",
                            where=ef.loc(), rule="R2")
    if nsym < 3:
        raise AnalysisError(f"instance count below floor: type tests in __eq__ methods {nsym}")

    # R2: element classes of sets/dicts built by the library
    seen = set()
    from ..inline import inlined

    def _find_arg(a):
        """the class argument of `<x>.find_(Cls)`"""
        if isinstance(a, ast.Call) and isinstance(a.func, ast.Attribute) and a.func.attr == "find_" and a.args:
            return a.args[0]
        return None
    for f0 in program.all_functions():
        f = inlined(program, f0)     # a collection loop moved into a private helper is read at its call sites
        set_locals = set()
        for n in ast.walk(f.node):
            if isinstance(n, (ast.Assign, ast.AnnAssign)) and n.value is not None and (
                    isinstance(n.value, ast.Set) or (isinstance(n.value, ast.Call) and isinstance(n.value.func, ast.Name) and n.value.func.id == "set" and not n.value.args)):
                for t in (n.targets if isinstance(n, ast.Assign) else [n.target]):
                    if isinstance(t, ast.Name):
                        set_locals.add(t.id)
        for n in ast.walk(f.node):
            elem = None
            carg = None
            if isinstance(n, ast.Call) and isinstance(n.func, ast.Name) and n.func.id == "set" and n.args:
                carg = _find_arg(n.args[0])
            elif isinstance(n, ast.SetComp) and len(n.generators) == 1 and isinstance(n.elt, ast.Name) and isinstance(n.generators[0].target, ast.Name) \
                    and n.elt.id == n.generators[0].target.id:
                carg = _find_arg(n.generators[0].iter)
                g0 = n.generators[0]
                # the filter spelled out: {node for node in self.nodes_() if isinstance(node, Table)}
                if (carg is None and isinstance(g0.iter, ast.Call) and isinstance(g0.iter.func, ast.Attribute) and g0.iter.func.attr == "nodes_" and len(g0.ifs) == 1
                        and isinstance(g0.ifs[0], ast.Call) and isinstance(g0.ifs[0].func, ast.Name) and g0.ifs[0].func.id == "isinstance" and len(g0.ifs[0].args) == 2
                        and isinstance(g0.ifs[0].args[0], ast.Name) and g0.ifs[0].args[0].id == g0.target.id and isinstance(g0.ifs[0].args[1], ast.Name)):
                    carg = g0.ifs[0].args[1]
            elif isinstance(n, ast.For) and isinstance(n.target, ast.Name) and _find_arg(n.iter) is not None:
                if any(isinstance(c_, ast.Call) and isinstance(c_.func, ast.Attribute) and c_.func.attr == "add" and isinstance(c_.func.value, ast.Name)
                       and c_.func.value.id in set_locals and c_.args and isinstance(c_.args[0], ast.Name) and c_.args[0].id == n.target.id for c_ in ast.walk(n)):
                    carg = _find_arg(n.iter)
            if carg is not None:
                elem = program.resolve_expr_class(f.module, carg, None)
                if elem is None and isinstance(carg, ast.Name):
                    elem = program.find_cls(carg.id)
            if elem is None:
                continue
            ef = elem.resolve("__eq__")
            _, is_bool = eq_key(ef) if ef is not None else (set(), True)
            hf = elem.resolve("__hash__")
            key = (elem.qualname, f.qualname)
            if key in seen:
                continue
            seen.add(key)
            if not is_bool:
                # a truthy-object __eq__ merges any two elements whose hashes collide: tolerable only if the hash tells
                # apart everything that distinguishes two references (for a Field: its table, always)
                hv, _ = render(program, elem, "__hash__") if hf is not None else (None, None)
                hkey = sorted(self_attrs_in(hv)) if hv is not None else []
                qualifier_conds = [conds for part, conds, _ in walk_parts(_inner_str(hv)) if isinstance(part, Hole) and "get_table_name" in show(part.value)]
                covers = bool(qualifier_conds) and all(not any(".alias" in show(cd, -20) or "with_namespace" in show(cd, -20) for cd in conds) for conds in qualifier_conds)
                is_bool = covers
                if covers:
                    # ... and the parts must stay apart: table and column are hashed as delimited identifiers, otherwise
                    # ("c", "id") and (None, "c.id") render to the same text and are merged
                    from ..skel import quoted_spans
                    from .c06 import paths as _paths
                    from .c07 import name_holes
                    undelimited = []
                    for flat in _paths(_inner_str(hv), limit=64):
                        spans = quoted_spans(flat)
                        for i_, a_, s_ in name_holes(flat):
                            if a_ in ("name", "_table_name") and not any(sp[0] < i_ < sp[1] for sp in spans):
                                undelimited.append(s_)
                    if undelimited:
                        is_bool = False
                        run.ob("C17/R2 objects de-duplicated through a set have a bool __eq__ (or a hash that separates every distinct reference)", f"{f.qualname}: set of {elem.qualname}", False, where=f.loc(n))
                        run.finding(f"C17/hash-not-injective:{elem.qualname}",
                                    f"{elem.qualname} objects are de-duplicated by hash alone ({ef.qualname} is always truthy), but {hf.qualname} hashes `{undelimited[0]}` without identifier delimiters "
                                    "(empty quote character in the context it renders with): the references (table 'c', column 'id') and (no table, column 'c.id') hash alike and are merged",
                                    where=hf.loc(), rule="R2")
                        continue
            run.ob("C17/R2 objects de-duplicated through a set have a bool __eq__ (or a hash that separates every distinct reference)", f"{f.qualname}: set of {elem.qualname}", is_bool, where=f.loc(n))
            if not is_bool:
                run.finding(f"C17/non-bool-eq-in-set:{elem.qualname}",
                            f"{f.qualname} collects {elem.qualname} objects in a set, but {ef.qualname} builds a criterion object (always truthy) instead of returning bool: any two "
                            f"{elem.qualname}s whose hashes collide are merged. {hf.qualname if hf else '__hash__'} hashes the rendering without namespace (reads {hkey}), so same-named columns of different tables always collide "
                            f"and which one survives depends on operand order",
                            where=f.loc(n), rule="R2")
    if not seen:
        raise AnalysisError("anchor vanished: no set(find_(...)) collection sites found")

    # R3: rendered subset of traversed
    sk = skeletons(program)
    sel = program.cls("Selectable")
    reported = set()
    for c in term_classes(program):
        if c.is_subclass_of(sel):
            continue
        rendered = {}
        for part, conds, in_rep in walk_parts(sk[c][0]):
            if isinstance(part, SlotP) and part.method == "get_sql":
                rp = recv_path(part.recv)
                ra = root_attr(rp)
                if ra in NO_TABLE or "create_param" in rp or ra in ("self", ""):
                    continue
                if rp.startswith("all("):
                    ra = rp[4:-1]
                rendered.setdefault(ra, part)
        nf = c.resolve("nodes_")
        trav = traversed_attrs(nf, c) if nf is not None and nf.cls.name != "Node" else set()
        shapes = traversal_shapes(nf, c) if nf is not None and nf.cls.name != "Node" else {}
        for a, part in sorted(rendered.items()):
            ok = a in trav
            # a child that is rendered as the k-th component of a tuple element must be reached as that component:
            # `for x in self.a: if isinstance(x, Node): x.nodes_()` silently skips tuples
            import re as _re
            rp_full = recv_path(part.recv)
            m = _re.match(r"^" + _re.escape(a) + r"\[\]\[(\d+)\]", rp_full)
            if ok and m and a in shapes:
                want = f"[][{m.group(1)}]"
                if not any(sh.startswith(want) for sh in shapes[a]):
                    ok = False
            owner = part.src[0].rsplit(".", 1)[0] if part.src else c.qualname
            if owner in ("Function", "Term") or program.find_cls(owner) is None:
                owner = c.resolve("get_sql").cls.qualname
            run.ob("C17/R3 rendered child is traversed by nodes_()", f"{c.qualname}.{a}", ok, where=nf.loc() if nf else "")
            if not ok and (owner, a) not in reported:
                reported.add((owner, a))
                run.finding(f"C17/not-traversed:{owner}:{a}", f"{owner} renders its child `{a}` but nodes_() ({nf.qualname if nf else 'Node.nodes_'}) does not traverse it: fields_()/tables_ miss the references inside, so join/foreign-table validation cannot see them",
                            where=nf.loc() if nf else "", rule="R3")


    # R3b: a traversal that is skipped when the node *looks* like it has no terms misses what the test does not see
    # (a nested row wrapped later, a subquery that reports no fields)
    nt = 0
    for nf in program.definitions_of("nodes_"):
        parents = {}
        for n in ast.walk(nf.node):
            for ch in ast.iter_child_nodes(n):
                parents[ch] = n
        for n in ast.walk(nf.node):
            if not (isinstance(n, ast.Call) and isinstance(n.func, ast.Attribute) and n.func.attr == "nodes_"):
                continue
            nt += 1
            x = n
            while x in parents:
                par = parents[x]
                tests = []
                if isinstance(par, (ast.If, ast.IfExp)) and x is not par.test:
                    tests.append(par.test)
                elif isinstance(par, (ast.ListComp, ast.GeneratorExp, ast.SetComp)):
                    for g in par.generators:
                        tests += g.ifs
                for t in tests:
                    if not _allowed_test(t):
                        run.ob("C17/R3 traversal of a child is unconditional", f"{nf.qualname}:{ast.unparse(t)[:50]}", False, where=nf.loc(n))
                        run.finding(f"C17/conditional-traversal:{nf.qualname}", f"{nf.qualname} descends into `{ast.unparse(n.func.value)[:40]}` only when `{ast.unparse(t)[:60]}` holds: "
                                    "references inside children for which the test is false are invisible to fields_()/tables_, so join and foreign-table validation depend on how the node was spelled", where=nf.loc(n), rule="R3")
                x = par
    run.ob("C17/R3 traversal of a child is unconditional", "all nodes_ definitions", True, detail=f"{nt} nested nodes_() calls examined", nontrivial=False)
    if nt < 25:
        raise AnalysisError(f"instance count below floor: nested nodes_ calls {nt}")

    # a hash stored on the object (self._hash = ..., vars(self)["_hash"] = ..., a hash computed once in __init__ and read
    # back) travels with every shallow copy and outlives every later change of what == compares
    nh = 0
    for hf in program.definitions_of("__hash__"):
        nh += 1
        sn = hf.params[0]
        dict_alias = {n.targets[0].id for n in ast.walk(hf.node) if isinstance(n, ast.Assign) and len(n.targets) == 1 and isinstance(n.targets[0], ast.Name) and (
            (isinstance(n.value, ast.Attribute) and n.value.attr == "__dict__" and isinstance(n.value.value, ast.Name) and n.value.value.id == sn) or
            (isinstance(n.value, ast.Call) and isinstance(n.value.func, ast.Name) and n.value.func.id == "vars" and n.value.args and isinstance(n.value.args[0], ast.Name) and n.value.args[0].id == sn))}
        stores = []
        for n in ast.walk(hf.node):
            tg = n.targets if isinstance(n, ast.Assign) else ([n.target] if isinstance(n, (ast.AugAssign, ast.AnnAssign)) else [])
            for t in tg:
                if isinstance(t, ast.Attribute) and isinstance(t.value, ast.Name) and t.value.id == sn:
                    stores.append(ast.unparse(t))
                if isinstance(t, ast.Subscript) and ((isinstance(t.value, ast.Name) and t.value.id in dict_alias) or (
                        isinstance(t.value, ast.Attribute) and t.value.attr == "__dict__" and isinstance(t.value.value, ast.Name) and t.value.value.id == sn)):
                    stores.append(ast.unparse(t))
            if isinstance(n, ast.Call) and isinstance(n.func, ast.Name) and n.func.id == "setattr" and n.args and isinstance(n.args[0], ast.Name) and n.args[0].id == sn:
                stores.append(ast.unparse(n)[:40])
            if isinstance(n, ast.Call) and isinstance(n.func, ast.Attribute) and n.func.attr == "setdefault" and (
                    (isinstance(n.func.value, ast.Name) and n.func.value.id in dict_alias) or (isinstance(n.func.value, ast.Attribute) and n.func.value.attr == "__dict__")):
                stores.append(ast.unparse(n)[:40])
        run.ob("C17/R1 __hash__ computes its value from the current state (nothing stored on the object)", hf.qualname, not stores, detail="; ".join(stores)[:120], where=hf.loc())
        if stores:
            run.finding(f"C17/memoised-hash:{hf.qualname}", f"{hf.qualname} stores its result on the object ({stores[0]}): copies made by @builder methods (replace_table, as_) inherit the hash computed "
                        "for the original, so objects that compare equal to a freshly built one hash differently", where=hf.loc(), rule="R1")
    if nh < 3:
        raise AnalysisError(f"instance count below floor: __hash__ definitions {nh}")

    # a memoised hash (or hash key) travels with every shallow copy: a term re-targeted by a builder method keeps the hash
    # of the term it was copied from
    from ..families import memo_methods
    for f7, deco in memo_methods(program):
        c7 = f7.cls
        if c7 is not None and c7.resolve("__hash__") is not None and f7.name in ast.unparse(c7.resolve("__hash__").node):
            run.finding(f"C17/memoised-hash:{f7.qualname}", f"{c7.qualname}.__hash__ returns {f7.name}, a {deco}: copies made by @builder methods (replace_table, as_) inherit the hash computed for the original, "
                        "so objects that compare equal to a freshly built one hash differently", where=f7.loc(), rule="R1")
