"""C04 -- parameterised rendering is equivalent to inline rendering (structural clauses, DESIGN 2/C04)."""
from __future__ import annotations

import ast

from ..model import AnalysisError, ClassInfo, Program
from ..report import Run
from ..skel import count_marker, field_class, recv_path, render, render_sites, renderable_classes, root_attr, skeletons, node_child_formatted
from ..symex import slots_in
from ..symex import (Alt, CondI, Const, CtxV, EnumV, Evaluator, Hole, Inh, InhOr, JoinP, Lit, Obj, One, Opaque, Phi, Rep,
                     RepI, SlotP, Str, Sym, show, walk_parts)
from .c08 import _root_self_attr, node_attrs

NO_VALUES = {"schema": "Schema renders identifiers only", "_schema": "Schema renders identifiers only",
             "as_type": "SQL type descriptor (SqlType/SqlTypeLength/str) renders no values"}
PLAIN_TYPES = {"str", "int", "bool", "float", "bytes", "Decimal", "date", "datetime", "time", "UUID"}
# reference placeholder table (property statement: dialect's style; numbered where the dialect numbers them)
REF_PLACEHOLDERS = {"ORACLE": "?", "MSSQL": "?", "MYSQL": "%s", "POSTGRESQL": "$7", "SQLITE": "?"}


# ------------------------------------------------------------------ R2 evaluation order
def order_violations(v, last=(0, None), out=None, skip=None):
    """walk in textual order; report slots whose evaluation index is lower than an earlier (textually) slot's;
    skip(slot) -> True for render calls that cannot carry values (a child's bare name)"""
    if out is None:
        out = []
    seen_idx = set()

    def rec(x, last):
        if isinstance(x, Str):
            for p in x.parts:
                last = rec(p, last)
            return last
        if isinstance(x, SlotP):
            rp = recv_path(x.recv)
            if root_attr(rp) in NO_VALUES or (skip is not None and skip(x)):
                return last
            if x.idx in seen_idx:
                return last   # the same evaluated string spliced in twice (slice halves)
            seen_idx.add(x.idx)
            if x.idx < last[0] and last[1] is not None:
                out.append((last[1], x))
                return last
            return (x.idx, x)
        if isinstance(x, Alt):
            a, b = rec(x.a, last), rec(x.b, last)
            return a if a[0] >= b[0] else b
        if isinstance(x, Phi):
            a, b = rec(x.a, last), rec(x.b, last)
            return a if a[0] >= b[0] else b
        if isinstance(x, Rep):
            inner = rec(x.body, last)
            return inner
        if isinstance(x, JoinP):
            for i in x.items:
                last = rec(i, last)
            return last
        if isinstance(x, One):
            return rec(x.value, last)
        if isinstance(x, CondI):
            best = last
            cur = last
            for i in x.items:
                cur = rec(i, cur)
            return cur if cur[0] >= best[0] else best
        if isinstance(x, RepI):
            cur = last
            for i in x.body:
                cur = rec(i, cur)
            return cur
        if isinstance(x, Opaque):
            for i in x.inner:
                last = rec(i, last)
            return last
        if isinstance(x, Hole) and isinstance(x.value, (Str, Phi)):
            return rec(x.value, last)
        return last
    rec(v, last)
    return out


# ------------------------------------------------------------------ R3 plain-data guards
def _isinstance_names(test: ast.expr, var: str) -> tuple[set, set]:
    """(positive, negative) class names tested with isinstance(var, ...) in a boolean test"""
    pos, neg = set(), set()

    def names(spec):
        if isinstance(spec, ast.Tuple):
            return {n for e in spec.elts for n in names(e)}
        if isinstance(spec, ast.Name):
            return {spec.id}
        if isinstance(spec, ast.Attribute):
            return {spec.attr}
        return set()

    def rec(t, polarity):
        if isinstance(t, ast.BoolOp):
            for v in t.values:
                rec(v, polarity)
        elif isinstance(t, ast.UnaryOp) and isinstance(t.op, ast.Not):
            rec(t.operand, not polarity)
        elif isinstance(t, ast.Call) and isinstance(t.func, ast.Name) and t.func.id == "isinstance" and len(t.args) == 2:
            a = t.args[0]
            if isinstance(a, ast.Name) and a.id == var or (isinstance(a, ast.NamedExpr) and isinstance(a.target, ast.Name) and a.target.id == var):
                (pos if polarity else neg).update(names(t.args[1]))
    rec(test, True)
    return pos, neg


NODE_NAMES = {"Node", "Term"}


def _weak_exclusion(names: set) -> bool:
    return bool(names & NODE_NAMES)


def node_exclusion(program: Program):
    """predicate on a set of class names tested by isinstance: do they, together, cover every query-builder object a value
    position can receive, i.e. every renderable subclass of the tree root Node (Term subclasses, and also Interval, Table,
    AliasedQuery ... which are Nodes without being Terms)?"""
    node = program.cls("Node")
    renderable = [c for c in program.all_classes() if c.is_subclass_of(node) and c.resolve("get_sql") is not None]

    def excl(names: set) -> bool:
        guards = [g for g in (program.find_cls(n) for n in names) if g is not None]
        return bool(guards) and all(any(c.is_subclass_of(g) for g in guards) for c in renderable)
    return excl


def parameterised_world(program: Program) -> set:
    """classes that can be rendered with a parameterizer in the context: statements with a parameterised entry point, every
    Node (any of them may sit in such a statement's tree), and the renderable helper classes their methods name.  DDL
    builders and their parts (Column, PeriodFor ...) have no parameterised rendering and stay outside."""
    memo = program.__dict__.setdefault("_c04_world", None)
    if memo is not None:
        return memo
    node = program.cls("Node")
    world = {c for c in program.all_classes() if c.resolve("get_parameterized_sql") is not None or c.is_subclass_of(node)}
    work = list(world)
    while work:
        c = work.pop()
        for k in c.mro:
            for f in k.methods.values():
                for n in ast.walk(f.node):
                    if isinstance(n, ast.Name):
                        r = program.resolve_global(f.module, n.id)
                        if r and r[0] == "class" and r[1] not in world and r[1].resolve("get_sql") is not None:
                            world.add(r[1])
                            work.append(r[1])
    program.__dict__["_c04_world"] = world
    return world


def guarded_plain(func_node: ast.FunctionDef, call: ast.Call, var: str, excl=_weak_exclusion) -> bool:
    """is `var` known not to be a query-builder object at `call`?  `excl` decides whether a set of isinstance-tested class
    names excludes them all"""
    parents = {}
    for n in ast.walk(func_node):
        for ch in ast.iter_child_nodes(n):
            parents[ch] = n
    # (b)/(c): enclosing IfExp / If
    cur = call
    while cur in parents:
        par = parents[cur]
        if isinstance(par, ast.IfExp):
            pos, neg = _isinstance_names(par.test, var)
            if cur is par.orelse and excl(pos):
                return True
            if cur is par.body and (excl(neg) or (pos and pos <= PLAIN_TYPES | {"list", "tuple", "dict"})):
                return True
        if isinstance(par, ast.If):
            pos, neg = _isinstance_names(par.test, var)
            in_body = any(cur is s or _contains(s, cur) for s in par.body)
            if in_body and (excl(neg) or (pos and pos <= PLAIN_TYPES)):
                return True
            if not in_body and excl(pos):
                return True
        cur = par
    # (a): dominating early return at function top level
    for st in func_node.body:
        if _contains(st, call):
            break
        if isinstance(st, ast.If):
            pos, neg = _isinstance_names(st.test, var)
            if excl(pos) and st.body and isinstance(st.body[-1], (ast.Return, ast.Raise)) and not st.orelse:
                return True
            # `if not isinstance(x, (str, int)): return ...`: what follows handles plain values only
            if neg and not pos and neg <= PLAIN_TYPES and st.body and isinstance(st.body[-1], (ast.Return, ast.Raise)) and not st.orelse:
                return True
    return False


def _contains(tree: ast.AST, node: ast.AST) -> bool:
    return any(n is node for n in ast.walk(tree))


def wrapper_sites(program: Program):
    vw = program.cls("ValueWrapper")
    out = []
    for f in program.all_functions():
        for n in ast.walk(f.node):
            if not isinstance(n, ast.Call) or not n.args:
                continue
            def wrapper_callee(callee) -> bool:
                if isinstance(callee, ast.Name):
                    r = program.resolve_global(f.module, callee.id)
                    if r and r[0] == "class" and r[1].is_subclass_of(vw):
                        return True
                    return callee.id in ("wrapper_cls",)
                if isinstance(callee, ast.Attribute):
                    return callee.attr in ("_wrapper_cls", "wrapper_cls")
                if isinstance(callee, ast.BoolOp) and isinstance(callee.op, ast.Or):
                    return all(wrapper_callee(v) for v in callee.values)      # `(wrapper_cls or ValueWrapper)(val)`
                if isinstance(callee, ast.IfExp):
                    return wrapper_callee(callee.body) and wrapper_callee(callee.orelse)
                return False
            is_wrap = wrapper_callee(n.func)
            if is_wrap:
                out.append((f, n))
    return out



# ------------------------------------------------------------------ R2d a value is recorded iff its placeholder is printed
def _recorded_not_printed(skv):
    """create_param calls that are evaluated inside a branch CONDITION of the skeleton (`placeholder = bind(value);
    if placeholder is None or not self.allow_parametrize: <inline>`) on a path whose text does not contain them: the value
    is appended to the list and then written inline.  Decided per path by a truth table over the atoms of the path
    condition: the path must be satisfiable together with the condition under which the call inside it is evaluated
    (short-circuit order of and / or and the arms of conditional values respected)."""
    import itertools
    from ..symex import Phi as _Phi, negate as _neg
    from .c06 import paths as _paths

    def is_cp(x):
        return isinstance(x, Sym) and x.kind == "call" and bool(x.args) and x.args[0] == ".create_param"

    def cp_calls(x, out, d=0):
        """the create_param(...) calls inside a value (the receiver of a printed `.get_sql`, a conditional value ...)"""
        if d > 14:
            return out
        if is_cp(x):
            out.add(show(x, -20))
        elif isinstance(x, SlotP):
            cp_calls(x.recv, out, d + 1)
        elif isinstance(x, (_Phi, Alt)):
            cp_calls(x.a, out, d + 1)
            cp_calls(x.b, out, d + 1)
        elif isinstance(x, Sym):
            for a in x.args:
                cp_calls(a, out, d + 1)
        elif isinstance(x, Str):
            for p_ in x.parts:
                cp_calls(p_, out, d + 1)
        return out

    def formula(x):
        if isinstance(x, Const):
            return ("const", bool(x.value))
        if isinstance(x, Sym) and x.kind == "op":
            op = x.args[0]
            if op == "not":
                return ("not", formula(x.args[1]))
            if op in ("and", "or"):
                return (op,) + tuple(formula(a) for a in x.args[1:])
            if op in ("is", "is not") and len(x.args) == 3 and isinstance(x.args[2], Const) and x.args[2].value is None:
                f = is_none(x.args[1])
                return f if op == "is" else ("not", f)
        return ("atom", show(x, -20))

    def is_none(v):
        if isinstance(v, Const):
            return ("const", v.value is None)
        if isinstance(v, (_Phi, Alt)):
            c = formula(v.cond)
            return ("or", ("and", c, is_none(v.a)), ("and", ("not", c), is_none(v.b)))
        if isinstance(v, (Str, SlotP)) or is_cp(v):
            return ("const", False)          # text, or the Parameter object create_param returns
        return ("atom", "none:" + show(v, -20))

    def evaluated(x, ctx, out, d=0):
        """(slot, condition under which it is evaluated) for every create_param call inside the value x"""
        if d > 14:
            return
        if is_cp(x):
            out.append((show(x, -20), ctx))
            return
        if isinstance(x, SlotP):
            evaluated(x.recv, ctx, out, d + 1)
            return
        if isinstance(x, (_Phi, Alt)):
            evaluated(x.cond, ctx, out, d + 1)
            c = formula(x.cond)
            evaluated(x.a, ("and", ctx, c), out, d + 1)
            evaluated(x.b, ("and", ctx, ("not", c)), out, d + 1)
        elif isinstance(x, Sym):
            if x.kind == "op" and x.args[0] in ("and", "or"):
                acc = ctx
                for a in x.args[1:]:
                    evaluated(a, acc, out, d + 1)
                    fa = formula(a)
                    acc = ("and", acc, fa if x.args[0] == "and" else ("not", fa))
            else:
                for a in x.args:
                    evaluated(a, ctx, out, d + 1)
        elif isinstance(x, Str):
            for p_ in x.parts:
                evaluated(p_, ctx, out, d + 1)
        elif isinstance(x, (tuple, list)):
            for a in x:
                evaluated(a, ctx, out, d + 1)

    def atoms(f, acc):
        if f[0] == "atom":
            acc.add(f[1])
        elif f[0] != "const":
            for g in f[1:]:
                atoms(g, acc)
        return acc

    def ev(f, val):
        if f[0] == "const":
            return f[1]
        if f[0] == "atom":
            return val[f[1]]
        if f[0] == "not":
            return not ev(f[1], val)
        if f[0] == "and":
            return all(ev(g, val) for g in f[1:])
        return any(ev(g, val) for g in f[1:])

    def sat(f) -> bool:
        names = sorted(atoms(f, set()))
        if len(names) > 12:
            return True
        return any(ev(f, dict(zip(names, bits))) for bits in itertools.product([False, True], repeat=len(names)))
    hits = []
    for flat, conds in _paths(skv, limit=256, with_conds=True):
        printed = set()
        for p_ in flat:
            if isinstance(p_, SlotP):
                cp_calls(p_, printed)
        fs = [formula(c) for c in conds]
        for c in conds:
            out = []
            evaluated(c if not (isinstance(c, Sym) and c.kind == "op" and c.args[0] == "not") else c.args[1], ("const", True), out)
            for key, E in out:
                if key in printed:
                    continue
                # the part of the path condition that talks about the same things as the call's own condition
                rel = atoms(E, set())
                F = [f for f in fs if atoms(f, set()) & rel] or [("const", True)]
                if sat(("and", ("and",) + tuple(F), E)):
                    hits.append((key, show(c)[:120]))
    return hits


def _known_wrapper(program: Program, f, call: ast.Call, name: str, vw) -> bool:
    """an enclosing test establishes that <name> is a value wrapper: isinstance(<name>, <ValueWrapper subclass>) or
    `type(<name>) in (ValueWrapper, self._wrapper_cls, ...)` / `type(<name>) is ...`"""
    parents = {}
    for n in ast.walk(f.node):
        for ch in ast.iter_child_nodes(n):
            parents[ch] = n

    def wrapper_expr(e) -> bool:
        if isinstance(e, ast.Name):
            r = program.resolve_global(f.module, e.id)
            return bool(r and r[0] == "class" and r[1].is_subclass_of(vw)) or e.id == "wrapper_cls"
        if isinstance(e, ast.Attribute):
            return e.attr in ("_wrapper_cls", "wrapper_cls")
        if isinstance(e, (ast.Tuple, ast.List, ast.Set)):
            return bool(e.elts) and all(wrapper_expr(x) for x in e.elts)
        return False
    cur = call
    while cur in parents:
        par = parents[cur]
        test = None
        if isinstance(par, (ast.If, ast.IfExp)) and cur is not par.test:
            in_body = cur is par.body if isinstance(par, ast.IfExp) else any(cur is s_ or _contains(s_, cur) for s_ in par.body)
            test = par.test if in_body else None
        if test is not None:
            for t in ast.walk(test):
                if (isinstance(t, ast.Call) and isinstance(t.func, ast.Name) and t.func.id == "isinstance" and len(t.args) == 2
                        and isinstance(t.args[0], ast.Name) and t.args[0].id == name and wrapper_expr(t.args[1])):
                    return True
                if (isinstance(t, ast.Compare) and len(t.ops) == 1 and isinstance(t.ops[0], (ast.In, ast.Is, ast.Eq))
                        and isinstance(t.left, ast.Call) and isinstance(t.left.func, ast.Name) and t.left.func.id == "type"
                        and t.left.args and isinstance(t.left.args[0], ast.Name) and t.left.args[0].id == name and wrapper_expr(t.comparators[0])):
                    return True
        cur = par
    return False

def check(program: Program, run: Run) -> None:
    run.explanation = (
        "Structural necessary conditions for placeholder/value agreement, decided on render skeletons and the syntax tree: "
        "the parameterizer field of the SqlContext is inherited at every nested render site and no child is rendered "
        "through str() (R1); within every renderer the Python evaluation order of value-bearing slots equals their textual "
        "order, since the value list is filled in evaluation order and unnumbered placeholders bind by position (R2); "
        "every value-wrapper construction and every create_param argument is guarded so a query-builder object cannot "
        "become a listed value (R3); inline and parameterised sibling branches end in the same alias wrapper, the "
        "placeholder table covers every shipped dialect in the dialect's style and numbering is 1-based after the append (R4). "
        "The token-for-token relation between the two renderings is not computed.")
    run.rule("R1 parameterizer inherited at every nested render; no str()-rendered child node")
    run.rule("R2 evaluation order of value-bearing slots == textual order in every renderer skeleton")
    run.rule("R2b no value-bearing render call is evaluated where its result may be discarded (default argument of a lookup, expression statement)")
    run.rule("R2d create_param is evaluated only on paths that print its placeholder (a decision taken after the value was recorded is reported)")
    run.rule("R3 value-wrapper constructor arguments and create_param arguments are never Nodes (dominating isinstance guard)")
    run.rule("R4 inline/parameterised branches agree on the alias wrapper; IDX_PLACEHOLDERS total and in dialect style; 1-based numbering after append")
    sites = render_sites(program)
    sk = skeletons(program)
    run.analysed = {"render_sites": len(sites), "renderers": len(sk)}
    if len(sites) < 100 or len(sk) < 100:
        raise AnalysisError(f"instance count below floor: {run.analysed}")

    # ---- R1
    for s in sites:
        if s["method"] not in ("get_sql", "get_name_sql"):
            continue
        where = f"{s['file']}:{s['line']}"
        ctx = s["ctx"]
        if not isinstance(ctx, CtxV):
            run.ob("C04/R1 parameterizer reaches the nested render", f"{s['func']}:{s['recv']}", False, where=where)
            run.finding(f"C04/ctx-bypass:{s['func']}:{s['recv']}", f"{s['func']} renders `{s['recv']}` without the context: its values can never be parameterised", where=where, rule="R1")
            continue
        v = ctx.fields["parameterizer"]
        ok = isinstance(v, (Inh, InhOr))
        run.ob("C04/R1 parameterizer reaches the nested render", f"{s['func']}:{s['recv']}", ok, detail=show(v)[:80], where=where)
        if not ok:
            run.finding(f"C04/param-dropped:{s['func']}:{s['recv']}", f"{s['func']} passes parameterizer={show(v)[:60]} to `{s['recv']}` instead of the incoming one", where=where, rule="R1")
    for c, (skv, ev) in sk.items():
        na = node_attrs(program, c)
        for part, conds, in_rep in walk_parts(skv):
            if isinstance(part, Hole) and isinstance(part.value, Sym) and _root_self_attr(part.value) in na:
                if any(("<class Term>" in show(cd, -20) or "<class Node>" in show(cd, -20)) and "isinstance" in show(cd, -20) for cd in conds):
                    continue  # the formatting branch is taken only after an isinstance test excluded Term/Node
                if any("hasattr" in show(cd, -20) and "get_sql" in show(cd, -20) and show(cd, -20).startswith("not") for cd in conds):
                    continue  # str() only for objects without get_sql
                a = _root_self_attr(part.value)
                if not in_rep and not node_child_formatted(program, c, a):
                    continue  # decided exactly: with a Node of any kind in self.<a> the renderer goes through its get_sql(ctx)
                where = f"{part.src[2]}:{part.src[1]}" if part.src else ""
                run.ob("C04/R1 child node rendered through get_sql(ctx)", f"{c.qualname}:{a}", False, where=where)
                run.finding(f"C04/ctx-bypass:{part.src[0] if part.src else c.qualname}:{a}",
                            f"{c.qualname} formats its child node `{a}` with str()/format: the value stays inline when a parameterizer is supplied", where=where, rule="R1")

    # ---- R2
    seen = set()
    for c, (skv, ev) in sk.items():
        from .c06 import _renders_a_bare_name
        viols = order_violations(skv, skip=lambda sp, c=c: _renders_a_bare_name(program, c, sp))
        run.ob("C04/R2 evaluation order equals textual order", c.qualname, not viols,
               detail="; ".join(f"{recv_path(b.recv)} evaluated before {recv_path(a.recv)}" for a, b in viols)[:300])
        for a, b in viols:
            key = f"C04/eval-order:{b.src[0] if b.src else c.qualname}:{recv_path(b.recv)}<{recv_path(a.recv)}"
            if key in seen:
                continue
            seen.add(key)
            run.finding(key, f"in {c.qualname} the slot `{recv_path(b.recv)}` ({b.src[0] if b.src else ''}) is evaluated before `{recv_path(a.recv)}` but printed after it: "
                             f"their values enter the list in the wrong order and positional placeholders bind to the wrong values",
                        where=f"{b.src[2]}:{b.src[1]}" if b.src else "", rule="R2")

    # ---- R2c: rendered children handed to a template that is data (`self.template.format(*rendered)`): where, how often
    # and in which order their text appears is decided at run time, while their values entered the list in call order
    for c, (skv, ev) in sk.items():
        for part, conds, in_rep in walk_parts(skv):
            if not isinstance(part, Hole):
                continue
            inner = [sp for sp in slots_in(part.value) if root_attr(recv_path(sp.recv)) not in NO_VALUES]
            if not inner:
                continue
            v = part.value
            fn = inner[0].src[0] if inner[0].src else (part.src[0] if part.src else c.qualname)   # where the children are rendered
            op = v.args[0] if isinstance(v, Sym) and v.kind == "call" and v.args and isinstance(v.args[0], str) else type(v).__name__
            if op in (".format", ".format_map") or (isinstance(v, Sym) and v.kind == "op" and v.args and v.args[0] == "%"):
                tmpl = show(v.args[1])[:40] if isinstance(v, Sym) and len(v.args) > 1 else "?"
                key = f"C04/data-template:{fn}:{tmpl}"
                run.ob("C04/R2c rendered children are placed by the code, not by a template that is data", f"{fn}:{tmpl}", False,
                       detail=", ".join(recv_path(sp.recv) for sp in inner)[:120])
                if key not in seen:
                    seen.add(key)
                    run.finding(key, f"{fn} renders {', '.join(sorted({recv_path(sp.recv) for sp in inner}))} and splices the texts into `{tmpl}`, a template that is data: the values enter the "
                                     f"list in call order, but a numbered / repeated / omitted replacement field puts the placeholders in another order or number",
                                where=f"{part.src[2]}:{part.src[1]}" if part.src else "", rule="R2c")

    # ---- R2b: a render call that is evaluated records its values; if its text may then be thrown away
    # (default of a lookup, bare expression statement) the value list has entries no placeholder stands for
    for c, (skv, ev) in sk.items():
        for sp, construct, src in getattr(ev, "eager", []):
            rp = recv_path(sp.recv)
            if root_attr(rp) in NO_VALUES:
                continue
            fn = src[0] if src else c.qualname
            key = f"C04/evaluated-not-printed:{fn}:{rp}"
            run.ob("C04/R2b every evaluated value-bearing render is printed", f"{fn}:{rp}", False, detail=construct)
            if key in seen:
                continue
            seen.add(key)
            run.finding(key, f"{fn} evaluates `{rp}.{sp.method}(ctx)` as the {construct}: the render runs (and appends its values to the "
                             f"parameter list) even when its text is not used, so placeholders and values no longer correspond",
                        where=f"{src[2]}:{src[1]}" if src else "", rule="R2b")
    run.ob("C04/R2b every evaluated value-bearing render is printed", "all renderers (eagerly evaluated defaults, discarded statements)",
           True, detail=f"{len(sk)} renderers")

    # ---- R3
    ws = wrapper_sites(program)
    world = parameterised_world(program)
    excl_all = node_exclusion(program)
    run.analysed["classes_rendered_under_a_parameterizer"] = len(world)
    run.analysed["value_wrapper_constructor_sites"] = len(ws)
    if len(ws) < 3:
        raise AnalysisError(f"instance count below floor: value wrapper constructor sites {len(ws)}")
    for f, call in ws:
        arg = call.args[0]
        subject = f"{f.qualname}:{ast.unparse(call)[:50]}"
        if isinstance(arg, ast.Constant):
            run.ob("C04/R3 wrapped value is plain data", subject, True, where=f.loc(call), nontrivial=False)
            continue
        if any(k.arg == "allow_parametrize" and isinstance(k.value, ast.Constant) and k.value.value is False for k in call.keywords):
            # never handed to the parameterizer: whatever it wraps is written inline
            run.ob("C04/R3 wrapped value never reaches the value list (allow_parametrize=False)", subject, True, where=f.loc(call), nontrivial=False)
            continue
        if isinstance(arg, ast.Attribute) and arg.attr == "value" and isinstance(arg.value, ast.Name) and _known_wrapper(program, f, call, arg.value.id, program.cls("ValueWrapper")):
            # re-wrapping the value of an object known to be a value wrapper: plain by induction over this very rule
            run.ob("C04/R3 wrapped value is plain data (the value of an existing value wrapper)", subject, True, where=f.loc(call), nontrivial=False)
            continue
        var = arg.id if isinstance(arg, ast.Name) else None
        # inside the parameterised world the guard has to exclude every Node (a `Term` test lets Interval / Table /
        # AliasedQuery through, and the parameterizer would record the object itself); outside it (DDL parts) no value
        # reaches a parameterizer and the constructor only has to keep terms unwrapped
        strict = f.cls is None or f.cls in world
        ok = bool(var) and guarded_plain(f.node, call, var, excl_all if strict else _weak_exclusion)
        if not ok and var is None and isinstance(arg, ast.Attribute):
            ok = False
        run.ob("C04/R3 wrapped value is plain data (isinstance guard dominates the constructor)", subject, ok, where=f.loc(call))
        if not ok:
            run.finding(f"C04/unguarded-wrap:{f.qualname}:{ast.unparse(arg)}",
                        f"{f.qualname} wraps `{ast.unparse(arg)}` in a value wrapper without first excluding every Node (Term subclasses and the non-Term nodes Interval, Table, AliasedQuery): with a parameterizer the query-builder object itself lands in the value list",
                        where=f.loc(call), rule="R3", excerpt=f.module.excerpt(call.lineno, 1))
    # create_param arguments
    for c, (skv, ev) in sk.items():
        for part, conds, in_rep in walk_parts(skv):
            if isinstance(part, SlotP) and "create_param" in show(part.recv):
                recv = part.recv
                if isinstance(recv, Sym) and recv.kind == "call" and len(recv.args) >= 3:
                    val = recv.args[2]
                    if isinstance(val, Sym) and val.kind == "attr" and isinstance(val.args[0], Obj):
                        attr = val.args[1]
                        plain = _attr_is_plain(program, c, attr)
                        if not plain:
                            # decided exactly: with one query-builder object among plain values in self.<attr>, the renderer
                            # must not reach create_param (the guard has to exclude *any* Node, not merely *all* Nodes)
                            plain = not _param_reached_with_node(program, c, attr)
                        run.ob("C04/R3 create_param argument is plain data by construction", f"{c.qualname}.{attr}", plain, where=f"{part.src[2]}:{part.src[1]}")
                        if not plain:
                            dc = part.src[0].rsplit(".", 1)[0] if part.src else c.qualname
                            run.finding(f"C04/param-node-value:{dc}:{attr}",
                                        f"{dc} hands self.{attr} to create_param, but {attr} keeps the raw constructor arguments (no Term/Node exclusion): a Field inside it ends up in the value list",
                                        where=f"{part.src[2]}:{part.src[1]}", rule="R3")

    # ---- R2d: recorded iff printed
    nrec = 0
    for c, (skv, ev) in sk.items():
        if not any(isinstance(p_, SlotP) and "create_param" in show(p_.recv) for p_, _, _ in walk_parts(skv)) and "create_param" not in show(skv, -30):
            continue
        nrec += 1
        hits = _recorded_not_printed(skv)
        f_ = c.resolve("get_sql")
        run.ob("C04/R2d a value handed to create_param is printed as its placeholder on every path that evaluates the call", c.qualname, not hits,
               detail=hits[0][1] if hits else "", where=f_.loc() if f_ else "")
        if hits:
            dc = f_.qualname if f_ else c.qualname
            run.finding(f"C04/recorded-not-printed:{dc}",
                        f"{dc} evaluates create_param(...) while deciding between the inline and the parameterised form (`{hits[0][1]}`) and then takes a branch that writes the value inline: "
                        "the value is in the list without a placeholder in the SQL, every later value shifts by one", where=f_.loc() if f_ else "", rule="R2d")
    run.analysed["renderers_with_create_param"] = nrec

    # ---- R4 sibling branches
    MARK = "@ALIAS@"
    for c in sk:
        if not any(isinstance(p, SlotP) and "create_param" in show(p.recv) for p, _, _ in walk_parts(sk[c][0])):
            continue
        on, _ = render(program, c, attrs={"alias": Const(MARK)}, ctx=CtxV.incoming().with_(with_alias=Const(True)))
        for part in _alts(on):
            if "parameterizer" in show(part.cond):
                ca, cb = count_marker(part.a, MARK), count_marker(part.b, MARK)
                ok = ca == cb
                run.ob("C04/R4 inline and parameterised branches end in the same alias wrapper", c.qualname, ok, detail=f"inline{ca} param{cb}")
                if not ok:
                    f = c.resolve("get_sql")
                    run.finding(f"C04/branch-disagree:{f.qualname}:alias",
                                f"{f.qualname}: the inline branch emits the alias {ca} but the parameterised branch {cb}: the two renderings differ by more than the placeholder", where=f.loc(), rule="R4")
    _placeholders(program, run)

    # ---- the mechanism keeps no state between renderings (shared rule, see families.inherit_history_dependence)
    from ..families import inherit_history_dependence
    run.rule("history: no function of this property's mechanism writes object / class / parameterizer state while rendering or memoises on a copied object (inherited from C02 and C01)")
    inherit_history_dependence(program, run, "C04", r"^(ValueWrapper|MySQLValueWrapper|SQLLiteValueWrapper|Array|Parameterizer|Parameter)\.", "the value list or the placeholder of a term depends on earlier renderings of the same object / parameterizer, so the parameterised form of a reused term no longer matches its inline form")

def _param_reached_with_node(program: Program, c, attr: str) -> bool:
    from ..symex import Evaluator, ListV, One
    fld = program.find_cls("Field")
    if fld is None:
        return True
    memo = program.__dict__.setdefault("_c04_param_probe", {})
    if (c, attr) in memo:
        return memo[(c, attr)]
    kinds = program.attr_kinds(c).get(attr, set())
    node = Obj(fld, {}, name="<Field among the values>")
    plainv = Evaluator.typed("v", {"int"})
    if kinds & {"list", "tuple", "set"}:
        probes = [ListV((One(node), One(plainv)), "list"), ListV((One(plainv), One(node)), "list"), ListV((One(node),), "list")]
    else:
        probes = [node]
    reached = False
    for pv in probes:
        try:
            v, _ev = render(program, c, attrs={attr: pv})
        except AnalysisError:
            reached = True
            break
        if any(isinstance(part, SlotP) and "create_param" in show(part.recv) for part, _, _ in walk_parts(v)):
            reached = True
            break
    memo[(c, attr)] = reached
    return reached


def _alts(v):
    out = []

    def rec(x):
        if isinstance(x, Str):
            for p in x.parts:
                rec(p)
        elif isinstance(x, Alt):
            out.append(x)
            rec(x.a)
            rec(x.b)
    rec(v)
    return out


def _attr_is_plain(program: Program, c: ClassInfo, attr: str) -> bool:
    """attribute excluded from being a Node at every construction site (value wrappers) or built filtered"""
    vw = program.cls("ValueWrapper")
    if c.is_subclass_of(vw) and attr == "value":
        return True   # discharged by the constructor-site rule above
    for k in c.mro:
        f = k.methods.get("__init__")
        if f is None:
            continue
        for n in ast.walk(f.node):
            if isinstance(n, ast.Assign):
                for t in n.targets:
                    if isinstance(t, ast.Attribute) and t.attr == attr:
                        src = ast.unparse(n.value)
                        if "isinstance" in src and ("Node" in src or "Term" in src):
                            return True
                        return False
    return False


def _placeholders(program: Program, run: Run) -> None:
    pc = program.cls("Parameter")
    ev = Evaluator(program)
    tab = ev.getattr(ev.self_obj(pc), "IDX_PLACEHOLDERS", None)
    from ..symex import DictV
    if not isinstance(tab, DictV):
        raise AnalysisError("anchor vanished: Parameter.IDX_PLACEHOLDERS is not a constant table")
    keys = {k.name for k, v in tab.items if isinstance(k, EnumV)}
    shipped = {}
    for c in program.all_classes():
        if "SQL_CONTEXT" in c.class_attrs and c.name.endswith("Query"):
            cv = ev.getattr(ev.self_obj(c), "SQL_CONTEXT", None)
            if isinstance(cv, CtxV) and isinstance(cv.fields["dialect"], EnumV):
                shipped[c.qualname] = cv.fields["dialect"]
    if len(shipped) < 5:
        raise AnalysisError(f"anchor vanished: shipped SQL_CONTEXT records found: {sorted(shipped)}")
    for qn, d in sorted(shipped.items()):
        has = d.name in keys
        run.ob("C04/R4 placeholder table has an entry for the shipped dialect", f"{qn}:{d.name}", has)
        if not has:
            run.finding(f"C04/placeholder-missing:{d.name}", f"Parameter.IDX_PLACEHOLDERS has no entry for {d.name} (used by {qn}): falls back to the default '?'", rule="R4")
        sk, _ = render(program, pc, attrs={"_placeholder": Const(None), "_idx": Const(7)}, ctx=CtxV.incoming().with_(dialect=d))
        text = sk.value if isinstance(sk, Const) else show(sk)
        exp = REF_PLACEHOLDERS.get(d.name)
        ok = exp is not None and text == exp
        run.ob("C04/R4 placeholder in the dialect's style (numbered iff the dialect numbers)", f"{d.name}", ok, detail=f"idx=7 -> {text!r} expected {exp!r}")
        if not ok:
            run.finding(f"C04/placeholder-style:{d.name}", f"Parameter renders {text!r} for index 7 under {d.name}; the dialect's style is {exp!r}", where=pc.methods['get_sql'].loc(), rule="R4")
    # numbering: append precedes len()
    pz = program.cls("Parameterizer")
    cp = pz.methods.get("create_param")
    if cp is None:
        raise AnalysisError("anchor vanished: Parameterizer.create_param")
    app = [n.lineno for n in ast.walk(cp.node) if isinstance(n, ast.Call) and isinstance(n.func, ast.Attribute) and n.func.attr == "append"
           and "values" in ast.unparse(n.func.value)]
    lens = [n for n in ast.walk(cp.node) if isinstance(n, ast.Call) and isinstance(n.func, ast.Name) and n.func.id == "len" and "values" in ast.unparse(n)]
    offs = [n for n in ast.walk(cp.node) if isinstance(n, ast.BinOp) and any(x in lens for x in ast.walk(n))]
    ok = bool(app) and bool(lens) and all(ln.lineno > min(app) for ln in lens) and not offs and len(app) == 1
    run.ob("C04/R4 placeholders numbered len(values) after the append (1-based, one append per parameter)", "Parameterizer.create_param", ok, where=cp.loc())
    # the value that is recorded is the value that was handed in: a coercion on the way (str(), int(), normalisation) makes
    # the listed value a different object from the one the inline rendering printed
    cpi = cp
    prms = set(cpi.params[1:])
    rebound = sorted({t.id for n in ast.walk(cpi.node) for t in (
        (n.targets if isinstance(n, ast.Assign) else [n.target] if isinstance(n, (ast.AugAssign, ast.AnnAssign, ast.NamedExpr)) else []))
        if isinstance(t, ast.Name) and t.id in prms})
    appended = [n.args[0] for n in ast.walk(cpi.node) if isinstance(n, ast.Call) and isinstance(n.func, ast.Attribute) and n.func.attr == "append"
                and "values" in ast.unparse(n.func.value) and n.args]
    as_given = bool(appended) and all(isinstance(a, ast.Name) and a.id in prms for a in appended) and not rebound
    run.ob("C04/R4 the recorded value is the value handed in (no coercion before the append)", "Parameterizer.create_param", as_given,
           detail=f"appended={[ast.unparse(a) for a in appended]} rebound={rebound}", where=cp.loc())
    if not as_given:
        run.finding("C04/value-transformed:Parameterizer.create_param",
                    f"create_param records `{ast.unparse(appended[0]) if appended else '?'}`" + (f" after rebinding {', '.join(rebound)}" if rebound else "") +
                    ": the listed value is no longer the object the inline rendering prints (a Decimal recorded as its str() is listed as text, its literal is quoted)", where=cp.loc(), rule="R4")
    if not ok:
        run.finding("C04/numbering:Parameterizer.create_param", "create_param does not number the placeholder with len(values) taken after a single append", where=cp.loc(), rule="R4")
