"""C02 -- rendering is a pure, repeatable, process-independent function (DESIGN 2/C02)."""
from __future__ import annotations

import ast

from ..effects import Effects
from ..families import is_observer, observers
from ..inline import inlined
from ..model import AnalysisError, Program
from ..report import Run

# the one accumulator a render may write to (named in the property statement)
ALLOWED_WRITES = {("Parameterizer.create_param", "self.values")}
ORDER_FREE_CONSUMERS = ("set(", "frozenset(", "sorted(", "any(", "all(", "len(", "bool(", "sum(", "min(", "max(")


def check(program: Program, run: Run) -> None:
    run.explanation = (
        "Effect-freedom of the observer closure: every get_sql/_*_sql/__str__/__hash__/__eq__/nodes_/fields_/... "
        "entry of every class is closed under resolved calls (class-hierarchy analysis) and no function in the "
        "closure may write to anything but objects it created itself, except Parameterizer.create_param -> self.values. "
        "No set-kinded value may be iterated into output; the parameterizer is created per call; SqlContext is frozen. "
        "Purity implies repeat-render, interleaved-dialect and thread clauses; no unordered iteration implies "
        "hash-seed independence. Nothing is executed.")
    run.rule("R1 render purity: no REBIND/MUTATE on self/param/global in the observer closure (allow: Parameterizer.create_param:self.values)")
    run.rule("R2 order-stable output: no iteration of set-kinded values (for/comprehension/join/list()/unpack) in the closure; no id()/random/time/env; hash() only in __hash__")
    run.rule("R6 no cached_property / lru_cache / cache on methods: a memo stored on the object is inherited by every shallow copy")
    run.rule("R5 no @builder method is invoked on the rendered object itself inside the observer closure (with immutable=False the decorator does not copy)")
    run.rule("R4 no one-shot iterator (generator call, generator expression, map/filter/zip...) is stored in object state: iterating it while rendering is a write")
    run.rule("R3 fresh accumulator, frozen context: Parameterizer() constructed inside get_parameterized_sql; no mutable defaults; SqlContext frozen dataclass; copy() constructs a new SqlContext")
    run.assumptions += ["class-hierarchy call resolution (no monkey-patching)",
                        "str()/float formatting of CPython is deterministic across processes"]
    eng = Effects(program)
    entries = observers(program)
    entries = list(dict.fromkeys((f, eng.canon(c) if c is not None else None) for f, c in entries))
    eng.fixpoint(entries)
    closure: set = set()
    for f, c in entries:
        closure |= eng.closure(f, c)
    # builder-decorated callees return fresh copies: their bodies are C01's obligation, not part of the render closure
    closure = {(f, c) for f, c in closure if not f.is_builder}
    funcs = {f for f, _ in closure}
    run.analysed = {"modules": len(program.modules), "observer_entries": len(entries),
                    "closure_function_receiver_pairs": len(closure), "closure_functions": len(funcs),
                    "get_sql_definitions": len(program.definitions_of("get_sql"))}
    if len(program.modules) < 16 or len(program.definitions_of("get_sql")) < 40 or len(funcs) < 150:
        raise AnalysisError(f"instance count below floor: {run.analysed}")

    # R1 -- judged on the interprocedural summary of each entry (objects constructed during the
    # render are fresh there); reported by origin (function + local path) with one example chain
    seen_local: dict = {}
    for f, c in sorted(entries, key=lambda k: (k[0].qualname, k[1].qualname if k[1] else "")):
        s = eng.memo.get((f, c if f.cls is not None else None))
        if s is None:
            continue
        bad = [e for e in s.effects if (e.func, e.local) not in ALLOWED_WRITES]
        run.ob("C02/R1 observer entry writes only to fresh objects (closure summary)",
               f"{f.qualname}@{c.qualname if c else '-'}", not bad,
               detail="; ".join(sorted({f"{e.func}:{e.local}" for e in bad}))[:300], where=f.loc(),
               nontrivial=bool(s.calls or s.effects))
        for e in bad:
            seen_local.setdefault((e.func, e.local, e.kind), (e, f, c))
    for (func, local, kind), (e, f, c) in sorted(seen_local.items(), key=lambda kv: kv[0]):
        path = [f"entry {f.qualname}@{c.qualname if c else '-'}"] + [f"{a} @ {b}" for a, b in e.via] + [f"{e.func} @ {e.loc}: {e.stmt}"]
        key = f"C02/render-write:{func}:{local.replace('self.', '')}"
        of = program.func(func) if "." in func else f
        run.finding(key, f"{func} executes `{e.stmt}` ({kind} {local}) while rendering/observing: the object changes when it is looked at",
                    where=e.loc, rule="R1", path=path, excerpt=of.module.excerpt(int(e.loc.rsplit(':', 1)[1]), 2))

    # R2 -- unordered iteration / nondeterministic sources
    for f, c in sorted(closure, key=lambda k: (k[0].qualname, k[1].qualname if k[1] else "")):
        s = eng.memo.get((f, c))
        if s is None:
            continue
        bad = []
        for loc, src, how, consumer in s.set_iterations:
            if consumer.startswith(ORDER_FREE_CONSUMERS):
                continue
            bad.append((loc, src, how, consumer))
        for loc, src, what in s.nondeterminism:
            if what == "hash" and f.name == "__hash__":
                continue
            bad.append((loc, src, what, ""))
        run.ob("C02/R2 no unordered iteration or nondeterministic source reaches output",
               f"{f.qualname}@{c.qualname if c else '-'}", not bad, where=f.loc(),
               nontrivial=bool(s.set_iterations or s.nondeterminism))
        for loc, src, how, consumer in bad:
            if how in ("hash", "id") or "." in how and how not in ("for",):
                run.finding(f"C02/nondeterministic:{f.qualname}:{how}",
                            f"{f.qualname} uses {src} while rendering: value differs between processes", where=loc, rule="R2")
            else:
                run.finding(f"C02/set-order:{f.qualname}:{src.replace('self.', '')}",
                            f"{f.qualname} iterates the set-kinded value `{src}` into its output ({how}): order depends on PYTHONHASHSEED",
                            where=loc, rule="R2", excerpt=consumer)

    # R3
    _r3(program, run)
    # R4
    _r4(program, run)
    # R5
    _r5(program, run, closure)
    # R6
    _r6(program, run)



def _iterated_self_attrs(c) -> set:
    """attributes of self that a method of this class iterates (for / comprehension / join / *-unpacking)"""
    out = set()
    for f in c.methods.values():
        if not f.params:
            continue
        sn = f.params[0]
        for n in ast.walk(f.node):
            its = []
            if isinstance(n, ast.For):
                its.append(n.iter)
            elif isinstance(n, (ast.ListComp, ast.SetComp, ast.GeneratorExp, ast.DictComp)):
                its += [g.iter for g in n.generators]
            elif isinstance(n, ast.Starred):
                its.append(n.value)
            elif isinstance(n, ast.Call) and isinstance(n.func, ast.Attribute) and n.func.attr == "join" and n.args:
                its.append(n.args[0])
            for it in its:
                if isinstance(it, ast.Attribute) and isinstance(it.value, ast.Name) and it.value.id == sn:
                    out.add(it.attr)
    return out



REITERABLE = {"list", "tuple", "set", "frozenset", "dict", "str", "bytes", "Sequence", "Collection", "Mapping", "Sized"}


def _reiterable_test(test):
    """names known to hold a re-iterable container in the body / in the else branch of `if <test>`"""
    neg = False
    while isinstance(test, ast.UnaryOp) and isinstance(test.op, ast.Not):
        test, neg = test.operand, not neg
    names = set()
    if (isinstance(test, ast.Call) and isinstance(test.func, ast.Name) and test.func.id == "isinstance" and len(test.args) == 2
            and isinstance(test.args[0], ast.Name)):
        spec = test.args[1]
        elts = spec.elts if isinstance(spec, ast.Tuple) else [spec]
        kinds = {e.id if isinstance(e, ast.Name) else (e.attr if isinstance(e, ast.Attribute) else None) for e in elts}
        if kinds and kinds <= REITERABLE:
            names = {test.args[0].id}
    return (set(), names) if neg else (names, set())

def _raw_param_stores(f):
    """(attribute, parameter, node) for every `self.<attribute> = <name>` where <name> may, on some path, still be bound
    to the value the caller passed for a non-variadic parameter (flow-sensitive over if / loops / try; a re-binding of the
    name to anything but another such name ends it)"""
    sn = f.params[0]
    a = f.node.args
    raw0 = {x.arg for x in list(a.posonlyargs) + list(a.args)[1:] + list(a.kwonlyargs)}

    def walk(body, raw):
        res = []
        for st in body:
            if isinstance(st, ast.If):
                # inside `if isinstance(x, (list, tuple, ...))` the value is a re-iterable container
                safe_body, safe_else = _reiterable_test(st.test)
                r1, x1 = walk(st.body, set(raw) - safe_body)
                r2, x2 = walk(st.orelse, set(raw) - safe_else)
                res += x1 + x2
                raw = r1 | r2
            elif isinstance(st, (ast.For, ast.While, ast.With, ast.Try)):
                for sub in [getattr(st, "body", []), getattr(st, "orelse", []), getattr(st, "finalbody", [])] + [h.body for h in getattr(st, "handlers", [])]:
                    r, x = walk(sub, set(raw))
                    res += x
                    raw |= r
            elif isinstance(st, (ast.Assign, ast.AnnAssign)) and st.value is not None:
                targets = st.targets if isinstance(st, ast.Assign) else [st.target]
                is_raw = isinstance(st.value, ast.Name) and st.value.id in raw
                for t in targets:
                    if isinstance(t, ast.Name):
                        (raw.add if is_raw else raw.discard)(t.id)
                    elif isinstance(t, ast.Attribute) and isinstance(t.value, ast.Name) and t.value.id == sn and is_raw:
                        res.append((t.attr, st.value.id, st))
        return raw, res
    return walk(f.node.body, set(raw0))[1]

def _r6(program: Program, run: Run) -> None:
    """R6: functools.cached_property / lru_cache / cache on a method of a copied-and-rebuilt object is a render-time write
    in disguise: the first observation stores the value in the instance __dict__ (or in a cache keyed by the instance),
    the builder's shallow copy (`__dict__.update`, copy.copy) hands that value to every derived object, and a builder
    created with immutable=False keeps it across its own later changes."""
    MEMO = {"cached_property", "lru_cache", "cache"}
    n = 0
    for c in program.all_classes():
        for name, f in c.methods.items():
            n += 1
            hit = MEMO & set(f.decorators)
            if not hit:
                continue
            run.ob("C02/R6 no memoising decorator on methods of renderable/copied objects", f.qualname, False, detail=",".join(sorted(hit)), where=f.loc())
            run.finding(f"C02/memo-on-copied-object:{f.qualname}",
                        f"{f.qualname} is decorated with {sorted(hit)[0]}: the value computed at the first observation is stored on the object and travels with every shallow copy "
                        "(@builder, __copy__, copy.copy), so objects derived after a render keep answering with the ancestor's value", where=f.loc(), rule="R6")
    run.ob("C02/R6 no memoising decorator on methods of renderable/copied objects", "package", True, detail=f"{n} methods scanned", nontrivial=False)


def _r5(program: Program, run: Run, closure) -> None:
    """R5: the @builder decorator applies the method body to the receiver itself when the receiver was created with
    immutable=False (utils.builder: `copy.copy(self) if getattr(self, "immutable", True) else self`).  A builder method
    invoked on `self` from a renderer is therefore a write to the rendered object for such builders."""
    import ast
    n = 0
    seen = set()
    for f, c in sorted(closure, key=lambda k: (k[0].qualname, k[1].qualname if k[1] else "")):
        if c is None or not f.params or f.is_static or f.is_classmethod:
            continue
        if "immutable" not in program.attr_kinds(c):
            continue
        selfn = f.params[0]
        for node in ast.walk(f.node):
            if isinstance(node, ast.Call) and isinstance(node.func, ast.Attribute) and isinstance(node.func.value, ast.Name) and node.func.value.id == selfn:
                tgt = c.resolve(node.func.attr)
                if tgt is None:
                    continue
                n += 1
                if tgt.is_builder and (f.qualname, tgt.qualname) not in seen:
                    seen.add((f.qualname, tgt.qualname))
                    run.ob("C02/R5 no builder method is applied to the rendered object", f"{f.qualname}->{tgt.qualname}", False, where=f.loc(node))
                    run.finding(f"C02/builder-call-while-rendering:{f.qualname}:{node.func.attr}",
                                f"{f.qualname} calls the @builder method {tgt.qualname} on the object being rendered: for a builder created with immutable=False the decorator applies it to the object itself, "
                                "so the render leaves the clause set on it and every later render differs", where=f.loc(node), rule="R5", excerpt=f.module.excerpt(node.lineno, 1))
    run.ob("C02/R5 no builder method is applied to the rendered object", "observer closure", not seen, detail=f"{n} self-calls in renderers of classes with an `immutable` switch examined", nontrivial=False)
    run.analysed["renderer_self_calls"] = n
    if n < 100:
        raise AnalysisError(f"instance count below floor: renderer self-calls {n}")


LAZY_BUILTINS = {"map", "filter", "zip", "iter", "reversed", "enumerate"}
LAZY_EXTERN = {"chain", "islice", "starmap", "takewhile", "dropwhile", "groupby", "accumulate", "product", "permutations", "combinations", "zip_longest"}


def _r4(program: Program, run: Run) -> None:
    """R4: iterating is an effect on a one-shot iterator.  A generator object (call of a generator function, generator
    expression, map/filter/zip/...) stored in an object's state is drained by the first render that walks it; every
    later render -- and every sibling copy sharing it -- sees it empty.  State must hold re-iterable containers."""
    import ast
    genfuncs = {}
    for f in program.all_functions():
        own = [n for n in ast.walk(f.node) if isinstance(n, (ast.Yield, ast.YieldFrom))]
        # yields of nested defs belong to those
        nested = {id(y) for d in ast.walk(f.node) if isinstance(d, (ast.FunctionDef, ast.Lambda)) and d is not f.node for y in ast.walk(d) if isinstance(y, (ast.Yield, ast.YieldFrom))}
        if any(id(y) not in nested for y in own):
            genfuncs.setdefault(f.name, []).append(f)
    n_gen = sum(len(v) for v in genfuncs.values())
    run.analysed["generator_functions"] = n_gen
    if n_gen < 8:
        raise AnalysisError(f"instance count below floor: generator functions recognised {n_gen}")
    nstores = 0
    for f in program.all_functions():
        if f.cls is None or not f.params:
            continue
        selfn = f.params[0]
        local_lazy: dict = {}

        def lazy(e):
            if isinstance(e, ast.GeneratorExp):
                return "a generator expression"
            if isinstance(e, ast.Call):
                fn = e.func
                nm = fn.id if isinstance(fn, ast.Name) else (fn.attr if isinstance(fn, ast.Attribute) else None)
                if isinstance(fn, ast.Name) and nm in LAZY_BUILTINS | LAZY_EXTERN:
                    return f"{nm}(...)"
                if isinstance(fn, ast.Attribute) and nm in LAZY_EXTERN:
                    return f"{nm}(...)"
                if nm in genfuncs:
                    cands = genfuncs[nm]
                    # a method call on self/cls/an object: any generator definition of that name in the package
                    if isinstance(fn, ast.Name) and not any(g.cls is None for g in cands):
                        return None
                    return f"a call of the generator function {cands[0].qualname}"
                return None
            if isinstance(e, (ast.List, ast.Tuple, ast.Set)):
                for x in e.elts:
                    if isinstance(x, ast.Starred):
                        continue
                    r = lazy(x)
                    if r:
                        return r
                return None
            if isinstance(e, ast.BinOp) and isinstance(e.op, ast.Add):
                return lazy(e.left) or lazy(e.right)
            if isinstance(e, ast.IfExp):
                return lazy(e.body) or lazy(e.orelse)
            if isinstance(e, ast.Name):
                return local_lazy.get(e.id)
            return None

        def self_attr(t):
            while isinstance(t, ast.Subscript):
                t = t.value
            if isinstance(t, ast.Attribute) and isinstance(t.value, ast.Name) and t.value.id == selfn:
                return t.attr
            return None
        for n in ast.walk(f.node):
            if isinstance(n, ast.Assign) and len(n.targets) == 1 and isinstance(n.targets[0], ast.Name):
                r = lazy(n.value)
                if r:
                    local_lazy[n.targets[0].id] = r
        for n in ast.walk(f.node):
            stores = []
            if isinstance(n, ast.Assign):
                stores = [(self_attr(t), n.value) for t in n.targets]
            elif isinstance(n, ast.AnnAssign) and n.value is not None:
                stores = [(self_attr(n.target), n.value)]
            elif isinstance(n, ast.AugAssign):
                # `self.x += gen` extends (consumes); `self.x += [gen]` stores
                stores = [(self_attr(n.target), n.value)] if isinstance(n.value, (ast.List, ast.Tuple)) else []
            elif isinstance(n, ast.Call) and isinstance(n.func, ast.Attribute) and n.func.attr in ("append", "add", "insert", "setdefault", "appendleft"):
                a = self_attr(n.func.value)
                stores = [(a, x) for x in n.args]
            for a, v in stores:
                if a is None:
                    continue
                nstores += 1
                r = lazy(v)
                if r:
                    run.ob("C02/R4 object state holds re-iterable containers only", f"{f.qualname}:{a}", False, detail=r, where=f.loc(n))
                    run.finding(f"C02/one-shot-iterator-in-state:{f.qualname}:{a}",
                                f"{f.qualname} stores {r} in self.{a}: the first render that iterates it drains it, so a second render (or the render of a sibling copy sharing it) emits an empty clause",
                                where=f.loc(n), rule="R4", excerpt=f.module.excerpt(n.lineno, 1))
    # through constructors: `JoinUsing(item, how, (Field(f) for f in fields))` stores the generator via `self.fields = fields`
    stored_params: dict = {}
    for c in program.all_classes():
        init = c.resolve("__init__")
        if init is None or not init.params:
            continue
        sp = {}
        for n in ast.walk(init.node):
            if isinstance(n, ast.Assign) and isinstance(n.value, ast.Name) and n.value.id in init.params[1:]:
                for t in n.targets:
                    if isinstance(t, ast.Attribute) and isinstance(t.value, ast.Name) and t.value.id == init.params[0]:
                        sp[n.value.id] = t.attr
        if sp:
            stored_params[c.name] = (init, sp)
    ncalls = 0
    for f in program.all_functions():
        for n in ast.walk(f.node):
            if not (isinstance(n, ast.Call) and isinstance(n.func, ast.Name) and n.func.id in stored_params):
                continue
            init, sp = stored_params[n.func.id]
            ncalls += 1
            bound = {}
            pos = init.params[1:]
            for i_, a_ in enumerate(n.args):
                if i_ < len(pos) and not isinstance(a_, ast.Starred):
                    bound[pos[i_]] = a_
            for k_ in n.keywords:
                if k_.arg:
                    bound[k_.arg] = k_.value
            for prm, a_ in bound.items():
                if prm not in sp:
                    continue
                desc = "a generator expression" if isinstance(a_, ast.GeneratorExp) else None
                if desc is None and isinstance(a_, ast.Call):
                    nm = a_.func.id if isinstance(a_.func, ast.Name) else (a_.func.attr if isinstance(a_.func, ast.Attribute) else None)
                    if nm in LAZY_BUILTINS | LAZY_EXTERN:
                        desc = f"{nm}(...)"
                    elif nm in genfuncs and isinstance(a_.func, ast.Attribute):
                        desc = f"a call of the generator function {nm}"
                if desc:
                    run.ob("C02/R4 object state holds re-iterable containers only", f"{f.qualname}:{n.func.id}.{sp[prm]}", False, detail=desc, where=f.loc(n))
                    run.finding(f"C02/one-shot-iterator-in-state:{f.qualname}:{n.func.id}.{sp[prm]}",
                                f"{f.qualname} passes {desc} as `{prm}` to {n.func.id}(...), which stores it in self.{sp[prm]}: the first render that iterates it drains it, so every later render of the object "
                                "(or of a builder sharing it) emits an empty clause", where=f.loc(n), rule="R4", excerpt=f.module.excerpt(n.lineno, 1))
    # through the public fluent API: a @builder method that stores its (non-variadic) argument as it was given, into an
    # attribute some method iterates.  The caller may hand in a generator / map / iterator; unless every path re-binds the
    # name to a materialised container before the store, the first render drains what the object holds
    nraw = 0
    for c in program.all_classes():
        iterated = None
        for f in c.methods.values():
            if "builder" not in f.decorators or not f.params:
                continue
            for attr, prm, node in _raw_param_stores(f):
                if iterated is None:
                    iterated = set()
                    for k in program.all_classes():
                        if k.is_subclass_of(c) or c.is_subclass_of(k):
                            iterated |= _iterated_self_attrs(k)
                nraw += 1
                if attr not in iterated:
                    continue
                run.ob("C02/R4 object state holds re-iterable containers only", f"{f.qualname}:{attr}", False, detail=f"parameter `{prm}` stored as given", where=f.loc(node))
                run.finding(f"C02/one-shot-iterator-in-state:{f.qualname}:{attr}",
                            f"{f.qualname} stores its argument `{prm}` in self.{attr} as it was given on some path (no tuple()/list() around it), and self.{attr} is iterated when the object is "
                            "rendered: for a generator, map object or iterator the first render drains it, so a second render of the same object (or of a copy sharing it) emits an empty clause",
                            where=f.loc(node), rule="R4", excerpt=f.module.excerpt(node.lineno, 1))
    run.analysed["builder_argument_stores_scanned"] = nraw
    run.analysed["constructor_calls_scanned"] = ncalls
    run.ob("C02/R4 object state holds re-iterable containers only", "package", True, detail=f"{nstores} stores to self state and {ncalls} constructor calls scanned; {n_gen} generator functions known", nontrivial=False)
    run.analysed["state_stores_scanned"] = nstores
    if nstores < 300:
        raise AnalysisError(f"instance count below floor: state stores scanned {nstores}")


def _fresh_when_absent(program: Program, f, pcls) -> tuple[bool, bool]:
    """(a Parameterizer is constructed in f, every construction is reached only when the context carries none).
    Path conditions are read with their polarity: `if not ctx.parameterizer:` / `if ctx.parameterizer is None:` /
    the else branch of `if ctx.parameterizer:` / `ctx.parameterizer or Parameterizer()`; a local holding
    `ctx.parameterizer` stands for it."""
    held = {n.targets[0].id for n in ast.walk(f.node)
            if isinstance(n, ast.Assign) and len(n.targets) == 1 and isinstance(n.targets[0], ast.Name)
            and isinstance(n.value, ast.Attribute) and n.value.attr == "parameterizer"}

    def is_p(e):
        if isinstance(e, ast.NamedExpr):
            return is_p(e.value)
        return (isinstance(e, ast.Attribute) and e.attr == "parameterizer") or (isinstance(e, ast.Name) and e.id in held)

    def absent(test, positive: bool) -> bool:
        """the condition (taken with this polarity) implies that no parameterizer was supplied"""
        if isinstance(test, ast.UnaryOp) and isinstance(test.op, ast.Not):
            return present(test.operand, positive)
        if isinstance(test, ast.Compare) and len(test.ops) == 1 and is_p(test.left) and isinstance(test.comparators[0], ast.Constant) and test.comparators[0].value is None:
            if isinstance(test.ops[0], (ast.Is, ast.Eq)):
                return positive
            if isinstance(test.ops[0], (ast.IsNot, ast.NotEq)):
                return not positive
        if isinstance(test, ast.BoolOp):
            if isinstance(test.op, ast.And) and positive:
                return any(absent(v, True) for v in test.values)
            if isinstance(test.op, ast.Or) and not positive:
                return any(absent(v, False) for v in test.values)
        if is_p(test):
            return not positive
        return False

    def present(test, positive: bool) -> bool:
        """`not <test>` taken with this polarity implies absence"""
        return absent(test, not positive)

    made = False
    ok = True

    def walk(node, conds):
        nonlocal made, ok
        if isinstance(node, ast.Call) and isinstance(node.func, ast.Name):
            r = program.resolve_global(f.module, node.func.id)
            if r and r[0] == "class" and r[1] is pcls:
                made = True
                if not any(absent(t, pos) for t, pos in conds):
                    ok = False
        if isinstance(node, ast.If):
            walk(node.test, conds)
            for st in node.body:
                walk(st, conds + [(node.test, True)])
            for st in node.orelse:
                walk(st, conds + [(node.test, False)])
            # statements after an `if <present>: return/raise` are only reached when absent: handled by the caller
            return
        if isinstance(node, ast.IfExp):
            walk(node.test, conds)
            walk(node.body, conds + [(node.test, True)])
            walk(node.orelse, conds + [(node.test, False)])
            return
        if isinstance(node, ast.BoolOp):
            acc = list(conds)
            for v in node.values:
                walk(v, acc)
                acc = acc + [(v, isinstance(node.op, ast.And))]
            return
        if isinstance(node, (ast.FunctionDef, ast.Module)) or hasattr(node, "body") and isinstance(getattr(node, "body"), list):
            extra = []
            for fld in ("body", "orelse", "finalbody"):
                seq = getattr(node, fld, None)
                if not isinstance(seq, list):
                    continue
                acc = list(conds)
                for st in seq:
                    walk(st, acc)
                    # early exit: `if <test>: return ...` makes the rest of the block conditional on `not <test>`
                    if isinstance(st, ast.If) and not st.orelse and st.body and isinstance(st.body[-1], (ast.Return, ast.Raise)):
                        acc = acc + [(st.test, False)]
            for fld, val in ast.iter_fields(node):
                if fld in ("body", "orelse", "finalbody"):
                    continue
                for ch in (val if isinstance(val, list) else [val]):
                    if isinstance(ch, ast.AST):
                        walk(ch, conds)
            return
        for ch in ast.iter_child_nodes(node):
            walk(ch, conds)

    walk(f.node, [])
    return made, made and ok


def _r3(program: Program, run: Run) -> None:
    pcls = program.cls("Parameterizer")
    gps = program.definitions_of("get_parameterized_sql")
    if not gps:
        raise AnalysisError("anchor vanished: get_parameterized_sql")
    for f0 in gps:
        f = inlined(program, f0, f0.cls)     # the decision may sit in a helper (`ctx = _with_parameterizer(ctx)`)
        made, tested = _fresh_when_absent(program, f, pcls)
        run.ob("C02/R3 fresh Parameterizer constructed inside the call when none is supplied", f.qualname, made and tested, where=f.loc())
        if not (made and tested):
            run.finding(f"C02/shared-accumulator:{f.qualname}",
                        "get_parameterized_sql does not create a new Parameterizer per call", where=f.loc(), rule="R3")
    # no Parameterizer instance / mutable object at module, class or default-argument level
    for f in program.all_functions():
        a = f.node.args
        for d in list(a.defaults) + [x for x in a.kw_defaults if x is not None]:
            mutable = isinstance(d, (ast.List, ast.Dict, ast.Set, ast.ListComp, ast.DictComp, ast.SetComp))
            if isinstance(d, ast.Call) and isinstance(d.func, ast.Name):
                r = program.resolve_global(f.module, d.func.id)
                if d.func.id in ("list", "dict", "set") or (r and r[0] == "class" and not r[1].has_extern_base("Enum")):
                    mutable = True
            run.ob("C02/R3 no mutable default argument", f"{f.qualname}({ast.unparse(d)})", not mutable, where=f.loc(), nontrivial=False)
            if mutable:
                run.finding(f"C02/mutable-default:{f.qualname}", f"{f.qualname} has a mutable default argument `{ast.unparse(d)}` shared between calls",
                            where=f.loc(), rule="R3")
    for m in program.modules.values():
        scopes = [("module", m.constants)] + [(c.qualname, c.class_attrs) for c in program.all_classes() if c.module is m]
        for scope, consts in scopes:
            for name, e in consts.items():
                for n in ast.walk(e):
                    if isinstance(n, ast.Call) and isinstance(n.func, ast.Name):
                        r = program.resolve_global(m, n.func.id)
                        if r and r[0] == "class" and r[1] is pcls:
                            run.finding(f"C02/shared-accumulator:{scope}.{name}", f"a Parameterizer instance lives at {scope} level ({name})",
                                        where=f"{m.relpath}:{e.lineno}", rule="R3")
    ctx = program.cls("SqlContext")
    frozen = False
    for d in ctx.node.decorator_list:
        if isinstance(d, ast.Call) and any(k.arg == "frozen" and isinstance(k.value, ast.Constant) and k.value.value is True for k in d.keywords):
            frozen = True
    run.ob("C02/R3 SqlContext is a frozen dataclass", "SqlContext", frozen, where=f"{ctx.module.relpath}:{ctx.node.lineno}")
    if not frozen:
        run.finding("C02/context-mutable:SqlContext", "SqlContext is no longer @dataclass(frozen=True): renders can alter a shared context", rule="R3")
    cp = ctx.methods.get("copy")
    if cp is None:
        raise AnalysisError("anchor vanished: SqlContext.copy")
    rets = [n for n in ast.walk(cp.node) if isinstance(n, ast.Return)]
    fresh = bool(rets) and all(isinstance(r.value, ast.Call) and isinstance(r.value.func, ast.Name) and r.value.func.id == ctx.name for r in rets)
    run.ob("C02/R3 SqlContext.copy returns a newly constructed SqlContext", "SqlContext.copy", fresh, where=cp.loc())
    if not fresh:
        run.finding("C02/context-copy:SqlContext.copy", "SqlContext.copy does not return a newly constructed SqlContext", where=cp.loc(), rule="R3")
    for f in program.all_functions():
        for n in ast.walk(f.node):
            if (isinstance(n, ast.Call) and isinstance(n.func, ast.Attribute) and n.func.attr == "__setattr__"
                    and isinstance(n.func.value, ast.Name) and n.func.value.id == "object"):
                run.finding(f"C02/context-mutable:{f.qualname}:object.__setattr__", f"{f.qualname} bypasses frozen dataclass with object.__setattr__",
                            where=f.loc(n), rule="R3")
