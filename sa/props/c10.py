"""C10 -- a subquery renders the same wherever it is embedded (DESIGN 2/C10)."""
from __future__ import annotations

from ..model import AnalysisError, Program
from ..report import Run
from ..skel import (BUILDER_CLASSES, dialect_init_consts, field_class, kind_states, recv_path, render, render_sites,
                    root_attr, skeletons)
from ..symex import Alt, Const, CtxV, Inh, InhOr, Lit, SlotP, Str, show, walk_parts
from .c12 import peel

POSITION_FLAGS = ("subquery", "with_alias", "subcriterion", "with_namespace")
# clause slots that cannot consume a position flag (one reason each)
EXEMPT_RECV = {
    "_limit": "wrapped integer constant (limit/offset setters wrap ints)",
    "_offset": "wrapped integer constant",
    "_insert_table": "Table renders name and alias regardless of flags",
    "_update_table": "Table renders name and alias regardless of flags",
    "_force_indexes": "Index renders a quoted name only",
    "_use_indexes": "Index renders a quoted name only",
    "new Table": "freshly built Table from a string",
    "_create_table": "Table",
    "_drop_table": "Table",
    "_into_table": "Table",
}
# embedding sites: receiver root -> required constant flags
EMBED = {
    "_from": {"subquery": True, "with_alias": True},
    "_with": {"subquery": False, "with_alias": False},
    "_wheres": {"subquery": True}, "_prewheres": {"subquery": True}, "_havings": {"subquery": True},
    "_on_conflict_wheres": {"subquery": True}, "_on_conflict_do_update_wheres": {"subquery": True},
    "_selects": {"subquery": True}, "_values": {"subquery": True},
    # value expressions of the remaining clauses: a scalar subquery there (SET c=(SELECT ..), ORDER BY (SELECT ..)) is an
    # operand like in WHERE; the assignment targets ([0] of an update pair) are column names and cannot be one
    "_updates[][1]": {"subquery": True}, "_on_conflict_do_updates[][1]": {"subquery": True},
    "_groupbys": {"subquery": True}, "_orderbys": {"subquery": True},
}
TERM_EMBED = {("JoinOn", "criterion"): {"subquery": True}, ("Join", "item"): {"subquery": True, "with_alias": True},
              ("ContainsCriterion", "container"): {"subquery": True}}



def _refined(v):
    """`x if x is True else True` is True: under the test the tested value is the constant it was compared with"""
    from ..symex import Phi, Sym
    if isinstance(v, Phi):
        a, b, c = _refined(v.a), _refined(v.b), v.cond
        if isinstance(c, Sym) and c.kind == "op" and c.args[0] in ("is", "==") and isinstance(c.args[2], Const) and show(c.args[1]) == show(a):
            a = c.args[2]
        if isinstance(c, Sym) and c.kind == "op" and c.args[0] in ("is not", "!=") and isinstance(c.args[2], Const) and show(c.args[1]) == show(b):
            b = c.args[2]
        if a == b:
            return a
    return v

def check(program: Program, run: Run) -> None:
    run.explanation = (
        "Context-flow over the statement skeletons of the six builder classes, _SetOperation and CreateQueryBuilder: the "
        "embedding position talks to a subquery only through the flags subquery / with_alias / subcriterion / with_namespace, "
        "so the text of the clauses inside is position-independent iff every term slot of every clause receives those flags as "
        "constants or values computed by the builder itself, never inherited (R1); the incoming flags are consumed only by the "
        "single wrap at the tail, with nothing but the alias suffix and the upsert clause outside the parentheses (R2); each "
        "embedding site passes the flags its position needs, and sibling clauses that can hold a subquery operand agree (R3).")
    run.rule("R1 position flags are never Inherit at a clause slot of a statement renderer")
    run.rule("R1b every convention field (quote characters, AS keyword, alias policies) has one value across the clause slots of a statement")
    run.rule("R4 (inherited from C08/R1c) a statement's own dialect policy does not depend on the context it is entered with (top-level set operation vs stand-alone)")
    run.rule("R2 incoming subquery/with_alias consumed only by the tail wrap; only alias suffix / ON CONFLICT outside the parentheses")
    run.rule("R3 embedding sites: FROM/JOIN items subquery+alias; CTE body neither; criteria, select list, INSERT values, SET / DO UPDATE SET values, GROUP BY and ORDER BY keys and IN container subquery=True")
    sites = render_sites(program)
    stmt_classes = list(BUILDER_CLASSES) + ["_SetOperation"]
    kinds = kind_states(program)
    # clause helpers reachable when the statement is a SELECT (the only kind that positions other than a CTE body can embed)
    reached = set()
    for bn in BUILDER_CLASSES:
        bc = program.cls(bn)
        attrs = dict(kinds["SELECT"])
        attrs.update(dialect_init_consts(bc))
        sk, _ = render(program, bc, attrs=attrs, ctx=CtxV.incoming(False))
        for part, conds, in_rep in walk_parts(sk):
            if isinstance(part, SlotP) and part.src:
                reached.add((part.src[0], part.src[1]))
    n = 0
    seen = set()
    for s in sites:
        fcls = s["func"].rsplit(".", 1)[0]
        if fcls not in stmt_classes or not isinstance(s["ctx"], CtxV) or s["method"] != "get_sql":
            continue
        if fcls != "_SetOperation" and (s["func"], s["line"]) not in reached:
            continue
        ra = root_attr(s["recv"])
        where = f"{s['file']}:{s['line']}"
        if ra in EXEMPT_RECV or s["recv"] in EXEMPT_RECV:
            continue
        n += 1
        for flag in POSITION_FLAGS:
            v = s["ctx"].fields[flag]
            leak = isinstance(v, (Inh, InhOr))
            if leak and flag == "with_namespace" and fcls == "_SetOperation" and ra in ("base_query", "_set_operation"):
                # the operands of a set operation are statements: each recomputes its namespace decision at entry
                # (this rule, applied to the builders' own clause slots), so what they are handed does not reach a clause
                leak = False
            key = f"C10/flag-leak:{s['func']}:{ra}:{flag}"
            if key in seen:
                continue
            seen.add(key)
            run.ob("C10/R1 position flag does not leak into the clause", f"{s['func']}:{s['recv']}:{flag}", not leak, detail=show(v)[:60], where=where)
            if leak:
                run.finding(key, f"{s['func']} renders `{s['recv']}` with the incoming ctx.{flag}: the clause text of an embedded query depends on where it is embedded", where=where, rule="R1")
    run.analysed = {"statement_clause_slots": n, "render_sites": len(sites)}
    if n < 12:
        raise AnalysisError(f"instance count below floor: statement clause slots {n}")

    # ---- R1b: the convention fields (quote characters, AS keyword, alias policies ...) a statement hands to its clause
    # slots must be the same for every slot that can hold a nested statement: a subquery in the select list must not see
    # another as_keyword than the same subquery in WHERE
    CONV = ("quote_char", "secondary_quote_char", "alias_quote_char", "dialect", "as_keyword", "groupby_alias", "orderby_alias")
    for bn in BUILDER_CLASSES:
        bc = program.cls(bn)
        sk, _ = render(program, bc, attrs=dict(kinds["SELECT"]), ctx=CtxV.incoming(False))
        per_field: dict = {}
        for part, conds, in_rep in walk_parts(sk):
            if isinstance(part, SlotP) and isinstance(part.ctx, CtxV) and part.method == "get_sql":
                ra = root_attr(recv_path(part.recv))
                if ra in EXEMPT_RECV:
                    continue
                for k in CONV:
                    per_field.setdefault(k, {}).setdefault(show(part.ctx.fields[k], -6), (ra, part))
        for k, vals in per_field.items():
            ok = len(vals) <= 1
            run.ob("C10/R1b convention field is the same at every clause slot of the statement", f"{bn}:{k}", ok, detail="; ".join(f"{v} at {ra}" for v, (ra, _) in list(vals.items())[:3]))
            if not ok:
                # the odd one out: the value used by the fewest slots
                (v_odd, (ra_odd, part_odd)) = sorted(vals.items(), key=lambda kv: sum(1 for p2, _, _ in walk_parts(sk) if isinstance(p2, SlotP) and isinstance(p2.ctx, CtxV) and show(p2.ctx.fields[k], -6) == kv[0]))[0]
                fn = part_odd.src[0] if part_odd.src else bn
                run.finding(f"C10/convention-per-slot:{fn}:{ra_odd}:{k}", f"{fn} renders `{ra_odd}` with ctx.{k}={v_odd} while the other clause slots of the statement get {sorted(set(vals) - {v_odd})[:2]}: "
                            "a nested query in that clause renders differently from the same query in another clause", where=f"{part_odd.src[2]}:{part_odd.src[1]}" if part_odd.src else "", rule="R1b")

    # ---- R2 tail wrap (SELECT kind, dialect-only state at its initial value)
    for bn in BUILDER_CLASSES:
        bc = program.cls(bn)
        attrs = dict(kinds["SELECT"])
        # state that cannot be set on a SELECT (each entry is protected by a C14 guard): RETURNING needs INSERT/UPDATE/DELETE
        if "_returns" in dialect_init_consts(bc):
            attrs["_returns"] = dialect_init_consts(bc)["_returns"]
        attrs["_on_conflict"] = Const(False)
        sk, _ = render(program, bc, attrs=attrs, ctx=CtxV.incoming(False))
        sk = peel(sk)
        parts = list(sk.parts) if isinstance(sk, Str) else []
        idx = [i for i, p in enumerate(parts) if isinstance(p, Alt) and p.cond == Inh("subquery")]
        ok = len(idx) == 1
        detail = ""
        if ok:
            i = idx[0]
            wrap = parts[i]
            a_txt = "".join(p.text for p, _, _ in walk_parts(wrap.a) if isinstance(p, Lit))
            ok = a_txt.startswith("(") and a_txt.endswith(")") and not parts[:i]
            for t in parts[i + 1:]:
                if isinstance(t, Alt) and (t.cond == Inh("with_alias") or "_on_conflict" in show(t.cond)):
                    continue
                ok = False
                detail = "text outside the wrap: " + show(t)[:80]
        else:
            detail = f"{len(idx)} wraps on ctx.subquery at top level"
        run.ob("C10/R2 single tail wrap; only alias suffix / upsert clause outside", bn, ok, detail=detail)
        if not ok:
            run.finding(f"C10/tail-wrap:{bn}", f"{bn}.get_sql does not end in a single parenthesised wrap followed only by the alias suffix ({detail})", rule="R2")

    # a context bound before a loop over operands / clauses and rebound inside it is seen, rebound, by every later
    # iteration: the flags (and conventions) an operand is rendered with then depend on the operands before it
    seen_carried = set()
    for c_, (skv_, ev_) in skeletons(program).items():
        for note in getattr(ev_, "notes", []):
            if note and note[0] == "ctx-loop-carried":
                src_, name_ = note[1], note[2]
                key_ = (src_[0] if src_ else c_.qualname, name_)
                if key_ in seen_carried:
                    continue
                seen_carried.add(key_)
                run.ob("C10 no rendering context is rebound inside the loop that consumes it", f"{key_[0]}:{name_}", False, where=f"{src_[2]}:{src_[1]}" if src_ else "")
                run.finding(f"C10/context-carried-between-iterations:{key_[0]}:{name_}",
                            f"{key_[0]} rebinds the context `{name_}` inside the loop that renders with it: an operand rendered after the rebinding gets the flags meant for an earlier one "
                            "(the same query renders differently depending on what precedes it)", where=f"{src_[2]}:{src_[1]}" if src_ else "", rule="R3")
    run.ob("C10 no rendering context is rebound inside the loop that consumes it", "all renderers", not seen_carried, detail=f"{len(seen_carried)} rebinding(s)")
    # ---- R3 embedding sites
    found = set()
    # a join object is only ever rendered by a statement: a flag its renderer passes on unchanged has the value the
    # statements deliver at their `_joins[]` site (so the context may be derived by the statement or by the join)
    join_names = {k.qualname for k in program.all_classes() if k.qualname == "Join" or k.is_subclass_of(program.cls("Join"))}
    delivered_to_joins: dict[str, set] = {}
    for s in sites:
        if isinstance(s["ctx"], CtxV) and s["method"] == "get_sql" and s["func"].rsplit(".", 1)[0] in stmt_classes and root_attr(s["recv"]) == "_joins":
            for flag_, v_ in s["ctx"].fields.items():
                delivered_to_joins.setdefault(flag_, set()).add(v_)
    for s in sites:
        if not isinstance(s["ctx"], CtxV) or s["method"] != "get_sql":
            continue
        fcls = s["func"].rsplit(".", 1)[0]
        ra = root_attr(s["recv"])
        req = None
        if fcls in stmt_classes and s["recv"] in EMBED:
            req = EMBED[s["recv"]]
        elif fcls in stmt_classes and ra in EMBED:
            if ra == "_selects" and ("_group_sql" in s["func"] or any("_groupbys" in show(x) for x in s["conds"])):
                continue      # a select item written in GROUP BY position (picked by a GROUP BY key), not the select list
            if ra == "_with" and ".terms" in s["recv"]:
                continue
            req = EMBED[ra]
        else:
            for (cn, attr), r in TERM_EMBED.items():
                if fcls == cn and ra == attr:
                    req = r
        if req is None:
            continue
        found.add(ra)
        where = f"{s['file']}:{s['line']}"
        for flag, want in req.items():
            v = s["ctx"].fields[flag]
            vals = delivered_to_joins.get(flag, {v}) if (fcls in join_names and isinstance(v, Inh) and v.name == flag) else {v}
            ok = all(_refined(x) == Const(want) for x in vals)
            run.ob("C10/R3 embedding site passes the flag its position needs", f"{s['func']}:{s['recv']}:{flag}={want}", ok, detail=show(v)[:60], where=where)
            if not ok:
                run.finding(f"C10/embed-flag:{s['func']}:{ra}:{flag}", f"{s['func']} renders `{s['recv']}` with {flag}={show(v)[:40]} (position needs {want}): "
                            + ("a subquery operand there is not parenthesised" if flag == "subquery" and want else "the embedded item is wrapped/aliased wrongly"),
                            where=where, rule="R3")
    for need in ("_from", "_with", "_wheres", "_havings", "_selects", "_updates", "_groupbys", "_orderbys", "container", "criterion", "item"):
        if need not in found:
            raise AnalysisError(f"anchor vanished: no embedding site over `{need}` found")

    # ---- R4: the text of an operand must be the same stand-alone and inside a top-level set operation; that is C08/R1c
    from . import c08
    sub = Run("C08", run.tier)
    c08.check(program, sub)
    n4 = 0
    for o in sub.obligations:
        if o.rule.startswith("C08/R1c"):
            n4 += 1
            run.ob("C10/R4 (inherited from C08/R1c) operand of a top-level set operation renders as it does stand-alone", o.subject, o.ok, o.detail, o.where)
    for fd in sub.findings:
        if not fd.info and fd.key.startswith("C08/entry-context-drops:"):
            run.finding("C10/entry-context:" + fd.key.split(":", 1)[1], "the same query renders differently stand-alone and as operand of a set operation: " + fd.what, where=fd.where, rule="R4 (inherited from C08/R1c)")
    if n4 < 30:
        raise AnalysisError(f"instance count below floor: entry-context cells {n4}")
