"""C07 -- user-supplied names are emitted as single, correctly quoted identifiers (DESIGN 2/C07)."""
from __future__ import annotations

from ..families import is_module_function
from ..model import AnalysisError, Program
from ..report import Run
from ..skel import function_skeletons, quoted_spans, render, renderable_classes, skeletons
from ..symex import (Const, CtxV, EnumV, Evaluator, Hole, Inh, InhOr, Lit, Obj, Opaque, Phi, SlotP, Str, Sym, show)
from .c06 import paths

# attributes that carry a user-supplied identifier (confirmed by reading the constructors)
NAME_ATTRS = {"name", "_name", "_table_name", "alias"}
# renderers whose name attribute is not an identifier (one reason each)
EXEMPT = {
    ("PseudoColumn", "name"): "pseudo columns are keywords supplied by the library (ROWNUM, SYSDATE ...)",
    ("Function", "name"): "SQL function names are keywords, not quoted identifiers",
    ("SqlType", "name"): "SQL type names",
    ("SqlTypeLength", "name"): "SQL type names",
    ("EnumV", "name"): "",
}


def name_holes(flat):
    """indices of holes that print a name-bearing attribute"""
    out = []
    for i, p in enumerate(flat):
        if isinstance(p, Hole):
            v = p.value
            s = show(v)
            a = None
            if isinstance(v, Sym) and v.kind in ("attr", "getattr-default"):
                a = v.args[1]
            elif isinstance(v, Sym) and v.kind == "call" and ".get_table_name" in s:
                a = "_table_name"
            elif isinstance(v, Sym) and v.kind == "op" and v.args[0] == "or" and any(isinstance(x, Sym) and x.kind == "attr" and x.args[1] in NAME_ATTRS for x in v.args[1:]):
                a = "alias"
            if a in NAME_ATTRS:
                out.append((i, a, s))
    return out


def _child_classes(program: Program, c, attr: str) -> set:
    """package classes an instance attribute may hold, from `self.<attr>: T = ...` annotations and constructor calls"""
    import ast
    out = set()
    for k in c.mro:
        for f in k.methods.values():
            if f.is_static or not f.params:
                continue
            sn = f.params[0]
            for n in ast.walk(f.node):
                exprs = []
                if isinstance(n, ast.AnnAssign) and isinstance(n.target, ast.Attribute) and n.target.attr == attr and isinstance(n.target.value, ast.Name) and n.target.value.id == sn:
                    exprs = [n.annotation] + ([n.value] if n.value is not None else [])
                elif isinstance(n, ast.Assign) and any(isinstance(t, ast.Attribute) and t.attr == attr and isinstance(t.value, ast.Name) and t.value.id == sn for t in n.targets):
                    exprs = [n.value]
                    if isinstance(n.value, ast.Name):
                        # `self.<attr> = <parameter>`: the parameter's annotation
                        a_ = f.node.args
                        for prm in list(a_.posonlyargs) + list(a_.args) + list(a_.kwonlyargs):
                            if prm.arg == n.value.id and prm.annotation is not None:
                                exprs = [prm.annotation]
                for e in exprs:
                    for x in ast.walk(e):
                        names = [x.id] if isinstance(x, ast.Name) else ([w for w in __import__("re").findall(r"[A-Za-z_]\w*", x.value)] if isinstance(x, ast.Constant) and isinstance(x.value, str) else [])
                        for nm in names:
                            r = program.resolve_global(f.module, nm)
                            if r and r[0] == "class":
                                out.add(r[1])
    return out


def _child_writes_only_its_name(program: Program, c, attr: str, name_attr: str) -> bool:
    """every class the child attribute may hold renders as its quoted <name_attr> (and its alias) and nothing else: no
    nested render call, no other name-bearing hole -- so printing the name directly drops nothing"""
    from ..symex import walk_parts
    classes = {k for k in _child_classes(program, c, attr) if k.resolve("get_sql") is not None}
    if not classes:
        return False
    for k in classes:
        try:
            sk, _ = render(program, k)
        except AnalysisError:
            return False
        for part, _conds, _rep in walk_parts(sk):
            if isinstance(part, SlotP):
                return False
            if isinstance(part, Hole):
                v = part.value
                if isinstance(v, Sym) and v.kind in ("attr", "getattr-default") and v.args[1] in NAME_ATTRS:
                    if v.args[1] not in (name_attr, "alias") or show(v.args[0]) != "self":
                        return False      # another name, or the name of the child's own child read directly
    return True


def eval_quote(v, ctx: dict):
    """evaluate a quote-character expression under a concrete context record"""
    if isinstance(v, Const):
        return v.value
    if isinstance(v, (Inh, InhOr)):
        return ctx.get(v.name)
    if isinstance(v, Sym) and v.kind == "attr" and v.args[1] in ctx:
        return ctx[v.args[1]]   # a context record re-derived from the statement's own query class (see C08 ctx-rederive)
    if isinstance(v, Sym) and v.kind == "op" and v.args[0] == "or":
        for x in v.args[1:]:
            r = eval_quote(x, ctx)
            if r:
                return r
        return r
    if isinstance(v, Phi):
        # `ctx = ctx or <own query class>.SQL_CONTEXT` at a statement's entry: under a supplied context the supplied
        # one counts; the default is the statement's own context (the record it is evaluated under when none is given)
        if "ctx-present" in show(v.cond):
            return eval_quote(v.a, ctx)
        # `x if x else y` (or the guard-clause spelling in a helper): the test is itself a quote expression
        cond = v.cond
        neg = False
        while isinstance(cond, Sym) and cond.kind == "op" and cond.args[0] in ("not", "truthy", "bool"):
            neg = neg != (cond.args[0] == "not")
            cond = cond.args[1]
        try:
            c = eval_quote(cond, ctx)
        except AnalysisError:
            c = None
            known = False
        else:
            known = True
        if known:
            return eval_quote(v.a if bool(c) != neg else v.b, ctx)
        a, b = eval_quote(v.a, ctx), eval_quote(v.b, ctx)
        if a == b:
            return a
    raise AnalysisError(f"cannot evaluate quote expression {show(v)}")


def shipped_contexts(program: Program) -> dict:
    ev = Evaluator(program)
    out = {}
    for c in program.all_classes():
        if "SQL_CONTEXT" in c.class_attrs and c.name.endswith("Query"):
            cv = ev.getattr(ev.self_obj(c), "SQL_CONTEXT", None)
            if isinstance(cv, CtxV):
                rec = {}
                for k, v in cv.fields.items():
                    rec[k] = v.value if isinstance(v, Const) else (v.name if isinstance(v, EnumV) else None)
                out[c.qualname] = rec
    if len(out) < 6:
        raise AnalysisError(f"anchor vanished: shipped SQL_CONTEXT records: {sorted(out)}")
    return out


def check(program: Program, run: Run) -> None:
    run.explanation = (
        "Every renderer skeleton is scanned for holes that print a name-bearing attribute (name, _name, _table_name, alias, "
        "table qualifier): each must sit between two identical quote holes derived from ctx.quote_char / alias_quote_char "
        "(R1). The quote expressions of alias/table *definition* sites and of every *reference* site are evaluated under the "
        "six shipped context records and must coincide (R2). The text between identifier quotes must have the delimiter "
        "doubled (R3). The name space itself is not explored.")
    run.rule("R1 every name hole is Quoted with a quote expression built from ctx.quote_char / ctx.alias_quote_char")
    run.rule("R2 definition-site and reference-site quote characters are equal under every shipped SQL_CONTEXT")
    run.rule("R3 the quoted text has the delimiter doubled (escape)")
    run.rule("R7 a renderer prints only its own name attributes; a child's name is written by rendering the child (reviewed exceptions: Field/Star column qualifiers)")
    run.rule("R6 a name supplied to a constructor/builder reaches the name-bearing object unmodified: no str transformation (split, strip, case change, replace ...) of a parameter in a function that builds Schema/Table/Field/Column/Index objects or stores a name attribute")
    run.rule("R5 (inherited from C08/R1) no name-bearing child is formatted with str()/format instead of get_sql(ctx): it would be quoted with the default context's characters")
    run.rule("R4 every row-source slot (FROM item, UPDATE target, joined item) writes the table's alias exactly once: column qualifiers refer to it")
    fsk = function_skeletons(program)
    sel_cls = program.find_cls("Selectable")
    n_sites = 0
    raw_seen = set()
    quote_sites = {}     # site label -> quote expr V
    unescaped = 0
    seen_sites = set()
    for f, skv in fsk.items():
        c = f.cls
        for flat in paths(skv, limit=4000):
            spans = quoted_spans(flat)
            holes = name_holes(flat)
            for i, a, s in holes:
                p = flat[i]
                src_cls = p.src[0].rsplit(".", 1)[0] if p.src else c.qualname
                owner = c.qualname if (p.src and is_module_function(program, p.src[0])) else src_cls
                if (owner, a) in EXEMPT or (c.qualname, a) in EXEMPT or any((k.qualname, a) in EXEMPT for k in c.mro):
                    continue
                inside = [sp for sp in spans if sp[0] < i < sp[1]]
                n_sites += 1
                caller = None
                if p.src and len(p.src) > 3:
                    chain = [q for q in p.src[3] if not is_module_function(program, q)]
                    caller = chain[-1] if chain else None
                site = f"{caller or f.qualname}:{a}"
                if (site, bool(inside)) in seen_sites:
                    if inside and not (isinstance(p.value, Sym) and ".replace" in s):
                        unescaped += 1
                    continue
                seen_sites.add((site, bool(inside)))
                if not inside and sel_cls is not None and c.is_subclass_of(sel_cls) and i + 1 < len(flat) and isinstance(flat[i + 1], Lit) and flat[i + 1].text.startswith("("):
                    # `<name>(` in a row source: a function call (function names are not identifiers of the statement).  The
                    # name may still serve as the correlation name its columns are qualified with: then this very path has
                    # to write that name -- or the alias that replaces it -- between identifier quotes as well
                    quoted_here = any(a2 in (a, "alias") and any(sp_[0] < i2 < sp_[1] for sp_ in spans) for i2, a2, _s2 in holes if i2 != i)
                    if quoted_here:
                        continue
                if not inside:
                    key = f"C07/raw-name:{site}"
                    run.ob("C07/R1 name emitted between identifier quotes", site, False, detail=s, where=f"{p.src[2]}:{p.src[1]}" if p.src else "")
                    if key not in raw_seen:
                        raw_seen.add(key)
                        run.finding(key, f"{caller or f.qualname} prints the user-supplied name `{s}` without identifier quotes: spaces, keywords or quote characters in it change the statement",
                                    where=f"{p.src[2]}:{p.src[1]}" if p.src else "", rule="R1")
                    continue
                sp = inside[0]
                run.ob("C07/R1 name emitted between identifier quotes", site, True, detail=f"quote={sp[2]}", where=f"{p.src[2]}:{p.src[1]}" if p.src else "")
                if sp[3] == "hole":
                    quote_sites.setdefault(site, flat[sp[0]].value)
                # R3: escaped?
                esc = isinstance(p.value, Sym) and ".replace" in s
                if not esc:
                    unescaped += 1
    run.analysed = {"name_emission_sites": n_sites, "distinct_quoted_sites": len(quote_sites)}
    if n_sites < 60 or len(quote_sites) < 10 or len(seen_sites) < 25:
        raise AnalysisError(f"instance count below floor: {run.analysed}")

    # ---- R2
    ctxs = shipped_contexts(program)
    # definition quote: utils.format_alias_sql -> alias hole
    def_q = None
    for site, q in quote_sites.items():
        if site.endswith(":alias") and "alias_quote_char" in show(q):
            def_q = q
    if def_q is None:
        raise AnalysisError("anchor vanished: alias definition quote expression not found")
    for site, q in sorted(quote_sites.items()):
        for qn, rec in sorted(ctxs.items()):
            try:
                a, b = eval_quote(q, rec), eval_quote(def_q, rec)
            except AnalysisError:
                run.ob("C07/R2 quote expression evaluable", f"{site}@{qn}", False, detail=show(q))
                run.finding(f"C07/quote-expr:{site}", f"{site} quotes with `{show(q)}`, which is not built from the context's quote characters", rule="R2")
                break
            ok = a == b
            run.ob("C07/R2 reference and definition use the same quote character", f"{site}@{qn}", ok, detail=f"site {a!r} definition {b!r}")
            if not ok:
                run.finding(f"C07/def-ref-quote:{site}:{qn}", f"under {qn} the site {site} quotes names with {a!r} while alias definitions are written with {b!r}: a reference can miss its definition", rule="R2")

    # ---- R3
    run.ob("C07/R3 identifier text has the delimiter doubled", "utils.format_quotes (all identifier sites)", unescaped == 0, detail=f"{unescaped} identifier emissions without escape")
    if unescaped:
        fq = program.func("utils.format_quotes")
        run.finding("C07/unescaped-delimiter:utils.format_quotes", f"no identifier emission doubles the delimiter ({unescaped} site paths go through format_quotes unescaped): a name containing the quote character ends the identifier early (\"c\"d\")",
                    where=fq.loc(), rule="R3")

    # ---- R9: the name that is printed is the name that was supplied: a str method applied to a name attribute on its way into
    # the quotes (strip / case change / split ...) makes the definition differ from every reference that quotes the raw name
    NAME_OPS_OK = {".replace"}          # doubling of the delimiter (judged by R3)
    seen9 = set()
    from ..symex import walk_parts as _wp9
    for f, skv in fsk.items():
        for part, _conds, _rep in _wp9(skv):
            if not (isinstance(part, Hole) and isinstance(part.value, Sym) and part.value.kind == "call" and part.value.args
                    and isinstance(part.value.args[0], str) and part.value.args[0].startswith(".") and len(part.value.args) > 1):
                continue
            op9, arg9 = part.value.args[0], part.value.args[1]
            if op9 in NAME_OPS_OK or not (isinstance(arg9, Sym) and arg9.kind in ("attr", "getattr-default") and arg9.args[1] in NAME_ATTRS):
                continue
            fn9 = next((q for q in reversed(part.src[3]) if not is_module_function(program, q)), part.src[0]) if part.src and len(part.src) > 3 else f.qualname
            key9 = f"C07/name-transformed:{part.src[0] if part.src else fn9}:{arg9.args[1]}:{op9}"
            run.ob("C07/R9 a name is printed as supplied", f"{fn9}:{show(part.value)[:50]}", False, where=f"{part.src[2]}:{part.src[1]}" if part.src else "")
            if key9 not in seen9:
                seen9.add(key9)
                run.finding(key9, f"{part.src[0] if part.src else fn9} prints `{show(part.value)[:60]}`: the name is changed by `{op9}` on its way into the quotes, so the identifier written here "
                                  "is not the one every other site (qualifiers, GROUP BY / ORDER BY references) writes for the same object", where=f"{part.src[2]}:{part.src[1]}" if part.src else "", rule="R9")
    run.ob("C07/R9 a name is printed as supplied", "all renderers", True, nontrivial=False)

    # ---- R8: a string operation applied to text that rendered children have already printed rewrites the quoted names inside
    from ..skel import recv_path as _rp8, transformed_renderings
    for c_, fn_, op_, inner_ in transformed_renderings(program):
        what = ", ".join(sorted({_rp8(sp.recv) for sp in inner_}))[:80]
        run.ob("C07/R8 rendered identifiers reach the statement untouched", f"{fn_}:{op_}", False, detail=what)
        run.finding(f"C07/rendered-text-transformed:{fn_}:{op_}",
                    f"{fn_} applies `{op_}` to text that already contains the rendering of {what}: a quoted identifier printed by such a child is rewritten with it, "
                    "so the statement names something other than what the user supplied", where=f"{inner_[0].src[2]}:{inner_[0].src[1]}" if inner_[0].src else "", rule="R8")
    run.ob("C07/R8 rendered identifiers reach the statement untouched", "all renderers", True, nontrivial=False)

    # ---- R7: a renderer prints its own name; the name of a child object is printed by rendering the child, which also
    # writes the child's own qualifiers (Schema -> parent schemas, Table -> schema).  Reading `self.<child>.<name>` directly
    # bypasses them.  The two reviewed exceptions are column qualifiers, which by design refer to the row source by its
    # alias or bare name.
    # keyed by class, not by function: the read may live in get_sql or in a helper / hook of the same class
    QUALIFIER_READS = {("Field", "table"): "column qualifier: refers to the row source by alias or bare table name",
                       ("Star", "table"): "star qualifier: same"}

    def foreign_child(v):
        """`self.<child>.<name attr>` (also through get_table_name(self.<child>) / `a or b`): the child path, else None"""
        if isinstance(v, Sym) and v.kind in ("attr", "getattr-default") and v.args[1] in NAME_ATTRS:
            base = v.args[0]
            if isinstance(base, Sym) and base.kind in ("attr", "getattr-default") and show(base.args[0]) == "self":
                return base.args[1]
            return None
        if isinstance(v, Sym) and v.kind == "op" and v.args[0] == "or":
            for x in v.args[1:]:
                r = foreign_child(x)
                if r:
                    return r
            return None
        if isinstance(v, Sym) and v.kind == "call" and v.args and isinstance(v.args[0], str) and "get_table_name" in v.args[0]:
            for x in v.args[1:]:
                if isinstance(x, Sym) and x.kind in ("attr", "getattr-default") and show(x.args[0]) == "self":
                    return x.args[1]
        return None

    n7 = 0
    seen7 = set()
    for f, skv in fsk.items():
        for flat in paths(skv, limit=4000):
            for i, a, s_ in name_holes(flat):
                p_ = flat[i]
                fn = p_.src[0] if p_.src and not is_module_function(program, p_.src[0]) else f.qualname
                child = foreign_child(p_.value)
                if child is None or (fn, child) in seen7:
                    continue
                seen7.add((fn, child))
                n7 += 1
                owner_cls = fn.rsplit(".", 1)[0] if "." in fn else fn
                ok = (owner_cls, child) in QUALIFIER_READS or (f.cls is not None and any((k.qualname, child) in QUALIFIER_READS for k in f.cls.mro))
                if not ok and f.cls is not None and _child_writes_only_its_name(program, f.cls, child, a):
                    ok = True      # exact: the child's own renderer writes nothing but that (quoted) name and its alias
                run.ob("C07/R7 a child's name is written by rendering the child", f"{fn}:{child}", ok, detail=s_[:80],
                       where=f"{p_.src[2]}:{p_.src[1]}" if p_.src else "")
                if not ok:
                    run.finding(f"C07/child-name-read-directly:{fn}:{child}",
                                f"{fn} prints `{s_[:60]}`, a name attribute of its child `{child}`, instead of rendering the child: whatever the child's own renderer "
                                f"writes besides that name (parent schemas, the schema of a table) is silently dropped", where=f"{p_.src[2]}:{p_.src[1]}" if p_.src else "", rule="R7")
    run.analysed["foreign_name_reads"] = n7     # (no floor: the rule is not vacuous when the two reviewed reads disappear; the name-hole floor above applies)

    # ---- R4: Field/Star qualify by `table.alias` whenever the table has one (C11/R2), whatever the context; the
    # alias therefore has to be *defined* at the slot that introduces the table as a row source.
    from ..skel import BUILDER_CLASSES, count_marker, kind_states, recv_path, root_attr
    from ..symex import walk_parts
    from .c12 import MARK, peel
    tbl = program.cls("Table")
    SOURCE_SLOTS = {"_from": "FROM item", "_update_table": "UPDATE target", "item": "joined item"}
    seen4 = {}
    owners = [(program.cls(bn), dict(attrs), kind) for bn in BUILDER_CLASSES for kind, attrs in kind_states(program).items() if kind in ("SELECT", "UPDATE", "DELETE")]
    owners += [(program.cls(n), {}, "JOIN") for n in ("Join", "JoinOn", "JoinUsing")]
    for oc, attrs, kind in owners:
        sk, _ = render(program, oc, attrs=attrs)
        for part, conds, in_rep in walk_parts(sk):
            if not (isinstance(part, SlotP) and part.method == "get_sql" and isinstance(part.ctx, CtxV)):
                continue
            rp = recv_path(part.recv)
            ra = root_attr(rp)
            if ra not in SOURCE_SLOTS or (kind == "JOIN") != (ra == "item"):
                continue
            wa = part.ctx.fields["with_alias"]
            vals = [wa] if isinstance(wa, Const) else ([Const(False), Const(True)] if isinstance(wa, (Inh, InhOr)) else None)
            site = f"{part.src[0] if part.src else oc.qualname}:{ra}"
            if vals is None:
                raise AnalysisError(f"unsupported construct: with_alias at source slot {site} is {show(wa)[:60]}")
            for v in vals:
                key = (site, v.value)
                if key in seen4:
                    continue
                tsk, _ = render(program, tbl, attrs={"alias": Const(MARK)}, ctx=part.ctx.with_(with_alias=v))
                lo, hi = count_marker(peel(tsk), MARK)
                ok = lo == hi == 1
                seen4[key] = ok
                run.ob("C07/R4 row-source slot defines the table's alias exactly once", f"{site}@with_alias={v.value}", ok, detail=f"alias occurrences (min,max)=({lo},{hi})",
                       where=f"{part.src[2]}:{part.src[1]}" if part.src else "")
                if not ok:
                    run.finding(f"C07/source-alias-{'undefined' if hi == 0 or lo == 0 else 'duplicated'}:{site}",
                                f"{site}: the {SOURCE_SLOTS[ra]} is rendered with with_alias={v.value}, under which Table.get_sql writes the table's alias {lo}..{hi} times; "
                                "column references are qualified by that alias regardless, so they name a correlation that the statement never defines",
                                where=f"{part.src[2]}:{part.src[1]}" if part.src else "", rule="R4")
    run.analysed["source_slots"] = len(seen4)
    if len(seen4) < 3:
        raise AnalysisError(f"instance count below floor: source slots {len(seen4)}")

    # ---- R5: a child printed through str()/format is rendered by __str__ with the default context, so the names inside
    # it are delimited by the default quote character and lose their qualifier whatever the statement's dialect says.
    from . import c08
    sub = Run("C08", run.tier)
    c08.check(program, sub)
    nb = 0
    for o in sub.obligations:
        if o.rule.startswith("C08/R1 child node rendered through get_sql(ctx)"):
            nb += 1
            run.ob("C07/R5 " + o.rule[7:], o.subject, o.ok, o.detail, o.where)
    for fd in sub.findings:
        if not fd.info and fd.key.startswith("C08/ctx-rederive:") and fd.key.rsplit(":", 1)[1] in ("quote_char", "alias_quote_char"):
            run.finding("C07/quote-rederived:" + fd.key.split(":", 1)[1], "identifiers below this node are delimited by the quote character of the class the node was built with, not by the statement's: one statement mixes two identifier quote characters: " + fd.what,
                        where=fd.where, rule="R5 (inherited from C08/R1)")
        if not fd.info and fd.key.startswith("C08/entry-context-drops:") and (":quote_char:" in fd.key or ":alias_quote_char:" in fd.key):
            run.finding("C07/quote-not-delivered:" + fd.key.split(":", 1)[1], "aliases/identifiers of the operands of a top-level set operation are delimited differently from the rest of the statement: " + fd.what,
                        where=fd.where, rule="R5 (inherited from C08/R1c)")
        if not fd.info and fd.key.startswith("C08/ctx-bypass:"):
            run.finding("C07/quote-context-bypass:" + fd.key.split(":", 1)[1], "names inside this child are written with the default context's quote character and without qualifier: " + fd.what,
                        where=fd.where, rule="R5 (inherited from C08)")

    # ---- R6: 'denoting exactly the supplied name whatever characters it contains' -- a dot, a space or mixed case in a
    # name is content, not structure.  Any str-only transformation of a parameter inside a function that turns parameters
    # into name-bearing objects changes which identifier(s) the name denotes.
    import ast as _ast
    STR_TRANSFORMS = {"split", "rsplit", "partition", "rpartition", "splitlines", "strip", "lstrip", "rstrip", "lower", "upper", "title", "capitalize",
                      "casefold", "swapcase", "replace", "translate", "removeprefix", "removesuffix", "encode", "expandtabs", "zfill", "center", "ljust", "rjust"}
    NAMED = {c.name for c in program.all_classes() if any(a in program.attr_kinds(c) for a in ("_table_name", "_name")) or c.name in ("Field", "Column", "Index", "Schema", "Table", "Star", "AliasedQuery", "Cte")}
    nfun = 0
    for f in program.all_functions():
        params = set(f.params[1:] if f.cls is not None and not f.is_static else f.params)
        if not params:
            continue
        builds = False
        for n in _ast.walk(f.node):
            if isinstance(n, _ast.Call):
                nm = n.func.id if isinstance(n.func, _ast.Name) else (n.func.attr if isinstance(n.func, _ast.Attribute) else None)
                if nm in NAMED:
                    builds = True
            if isinstance(n, _ast.Assign):
                for t in n.targets:
                    if isinstance(t, _ast.Attribute) and t.attr in NAME_ATTRS | {"_schema"} and isinstance(t.value, _ast.Name) and f.params and t.value.id == f.params[0]:
                        builds = True
        if not builds:
            continue
        nfun += 1
        for n in _ast.walk(f.node):
            if isinstance(n, _ast.Call) and isinstance(n.func, _ast.Attribute) and n.func.attr in STR_TRANSFORMS and isinstance(n.func.value, _ast.Name) and n.func.value.id in params:
                prm, m = n.func.value.id, n.func.attr
                run.ob("C07/R6 names reach name-bearing objects unmodified", f"{f.qualname}:{prm}.{m}", False, where=f.loc(n))
                run.finding(f"C07/name-transformed:{f.qualname}:{prm}.{m}",
                            f"{f.qualname} applies .{m}() to its parameter `{prm}` while building name-bearing objects: characters of the supplied name are treated as structure "
                            f"(e.g. a dot splitting one identifier into two), so the emitted identifier(s) no longer denote exactly the supplied name",
                            where=f.loc(n), rule="R6", excerpt=f.module.excerpt(n.lineno, 1))
    run.ob("C07/R6 names reach name-bearing objects unmodified", "package", True, detail=f"{nfun} functions that build name-bearing objects scanned", nontrivial=False)
    run.analysed["name_building_functions"] = nfun
    if nfun < 20:
        raise AnalysisError(f"instance count below floor: name-building functions {nfun}")

    # ---- (inherited from C12/R6) an alias reference that falls back to the underlying column is the same name written
    # differently at definition and reference
    from ..families import one_shot_reuse_sites
    selc = program.cls("Selectable")
    for f7, var, desc, node, why in one_shot_reuse_sites(program):
        if f7.cls is not None and (f7.cls.is_subclass_of(selc) or f7.cls is selc) and f7.name.endswith("_sql"):
            run.finding(f"C07/alias-reference-inconsistent:{f7.qualname}:{var}", f"{f7.qualname} decides per term whether to write the select alias or the underlying column with `{var}`, {desc} that {why}: "
                        "the same name is written as the alias in SELECT and as another identifier in GROUP BY / ORDER BY", where=f7.loc(node), rule="inherited from C12/R6")

    # ---- (inherited from C12/R3) a join condition rendered with with_alias=True prints the alias of every aliased term in
    # it a second time, as a stray identifier token in the middle of the ON/USING expression
    from . import c12
    sub12 = Run("C12", run.tier)
    c12.check(program, sub12)
    n12 = 0
    for o in sub12.obligations:
        if o.rule.startswith("C12/R3 join condition"):
            n12 += 1
            run.ob("C07 (inherited from C12/R3) join condition emits no alias tokens", o.subject, o.ok, o.detail, o.where)
    for fd in sub12.findings:
        if not fd.info and fd.key.startswith("C12/operand-alias:Join"):
            run.finding("C07/stray-alias-token:" + fd.key.split(":", 1)[1], "an alias supplied once (for the select list) is emitted again inside the join condition: " + fd.what,
                        where=fd.where, rule="inherited from C12/R3")
        if not fd.info and fd.key.startswith("C12/alias-reference-policy:"):
            run.finding("C07/alias-reference-unresolvable:" + fd.key.split(":", 1)[1], "a select alias is written as a reference where the dialect cannot resolve it: " + fd.what,
                        where=fd.where, rule="inherited from C12/R5")
    if n12 < 2:
        raise AnalysisError(f"instance count below floor: join condition obligations {n12}")

    # ---- the mechanism keeps no state between renderings (shared rule, see families.inherit_history_dependence)
    from ..families import inherit_history_dependence
    run.rule("history: no function of this property's mechanism writes object / class / parameterizer state while rendering or memoises on a copied object (inherited from C02 and C01)")
    inherit_history_dependence(program, run, "C07", r"^(Selectable|Table|Schema|Field|Star|AliasedQuery)\.(field|__getattr__|__getitem__|get_sql|get_table_name|star)\b", "the object that names a column or its qualifier is shared between row sources derived from one another, so a reference can be qualified with another source's name")
