"""C16 -- replace_table replaces every reference and nothing else (DESIGN 2/C16)."""
from __future__ import annotations

import ast

from ..inline import inlined
from ..model import AnalysisError, ClassInfo, FuncInfo, Program
from ..report import Run
from ..skel import BUILDER_CLASSES, recv_path, render, root_attr, skeletons, term_classes
from ..symex import SlotP, show, walk_parts

# rendered receivers that never hold a table reference (one reason each)
NO_TABLE = {"schema": "function schema qualifier", "_schema": "schema object", "as_type": "SQL type descriptor",
            "_limit": "wrapped integer", "_offset": "wrapped integer"}


def self_attr(e: ast.expr, selfname: str) -> str | None:
    if isinstance(e, ast.Attribute) and isinstance(e.value, ast.Name) and e.value.id == selfname:
        return e.attr
    return None


_PROGRAM: list = []


def rewritten_attrs(f: FuncInfo, recv: ClassInfo | None = None):
    """(attr -> set of source attrs whose .replace_table result / comparison feeds the assignment, leaf attrs, compared names)"""
    if _PROGRAM:
        f = inlined(_PROGRAM[0], f, recv)     # closures (`def replace(x): return x.replace_table(a, b)`) and private helpers read through
    selfname = f.params[0]
    out: dict[str, set] = {}
    leaves = set()
    shallow = set()
    aliases = {selfname}
    # newone = super().replace_table(...): the parent's rewrites apply and `newone` stands for the (copied) receiver
    for n in ast.walk(f.node):
        if (isinstance(n, ast.Assign) and isinstance(n.value, ast.Call) and isinstance(n.value.func, ast.Attribute)
                and n.value.func.attr == "replace_table" and isinstance(n.value.func.value, ast.Call)
                and isinstance(n.value.func.value.func, ast.Name) and n.value.func.value.func.id == "super"):
            for t in n.targets:
                if isinstance(t, ast.Name):
                    aliases.add(t.id)
            r = recv or f.cls
            parent = r.resolve_after(f.cls, "replace_table") if r is not None else None
            if parent is not None:
                po, pl, ps = rewritten_attrs(parent, r)
                for k, v in po.items():
                    out.setdefault(k, set()).update(v)
                leaves |= pl
                shallow |= ps

    def sattr(e):
        if isinstance(e, ast.Attribute) and isinstance(e.value, ast.Name) and e.value.id in aliases:
            return e.attr
        return None
    # `self.left, self.right = [t.replace_table(a, b) ... for t in (self.left, self.right)]` (or a display of the same
    # arity): element i of the right-hand side is the rewrite of source i
    for n in ast.walk(f.node):
        if not (isinstance(n, ast.Assign) and len(n.targets) == 1 and isinstance(n.targets[0], (ast.Tuple, ast.List))):
            continue
        tgts = [sattr(t) for t in n.targets[0].elts]
        if not tgts or not all(tgts):
            continue
        v = n.value
        if isinstance(v, (ast.Tuple, ast.List)) and len(v.elts) == len(tgts):
            for a, e in zip(tgts, v.elts):
                if any(isinstance(x, ast.Call) and isinstance(x.func, ast.Attribute) and x.func.attr == "replace_table" for x in ast.walk(e)):
                    out.setdefault(a, set()).update({b for x in ast.walk(e) if isinstance(x, ast.Attribute) for b in [sattr(x)] if b})
        elif (isinstance(v, (ast.ListComp, ast.GeneratorExp)) and len(v.generators) == 1 and not v.generators[0].ifs
              and isinstance(v.generators[0].iter, (ast.Tuple, ast.List)) and len(v.generators[0].iter.elts) == len(tgts)
              and isinstance(v.generators[0].target, ast.Name)):
            var = v.generators[0].target.id
            rewrites_var = any(isinstance(x, ast.Call) and isinstance(x.func, ast.Attribute) and x.func.attr == "replace_table"
                               and isinstance(x.func.value, ast.Name) and x.func.value.id == var for x in ast.walk(v.elt))
            srcs_ = [sattr(e) for e in v.generators[0].iter.elts]
            if rewrites_var and all(srcs_):
                for a, b in zip(tgts, srcs_):
                    out.setdefault(a, set()).add(b)
    for n in ast.walk(f.node):
        if isinstance(n, ast.Assign):
            for t in n.targets:
                a = sattr(t)
                if a is None:
                    continue
                srcs = set()
                calls_rt = False
                for x in ast.walk(n.value):
                    if isinstance(x, ast.Call) and isinstance(x.func, ast.Attribute) and x.func.attr == "replace_table":
                        calls_rt = True
                    b = sattr(x) if isinstance(x, ast.Attribute) else None
                    if b:
                        srcs.add(b)
                if calls_rt:
                    out.setdefault(a, set()).update(srcs)
                elif isinstance(n.value, ast.Name):
                    leaves.add(a)   # self.table = new_table
                    out.setdefault(a, set()).add(a)
                else:
                    # e.g. [new if t == cur else t for t in self._from]: compares elements, does not recurse
                    if any(isinstance(x, ast.Compare) for x in ast.walk(n.value)) and a in srcs:
                        out.setdefault(a, set()).add(a)
                        shallow.add(a)
                if calls_rt and a in shallow and any(isinstance(x, ast.Compare) for x in ast.walk(n.value)):
                    shallow.discard(a)
        if isinstance(n, ast.Call) and isinstance(n.func, ast.Attribute) and n.func.attr in ("add", "remove", "discard"):
            a = sattr(n.func.value)
            if a:
                out.setdefault(a, set()).add(a)
    return out, leaves, shallow


def traversed_attrs(f: FuncInfo, recv: ClassInfo | None = None) -> set[str]:
    selfname = f.params[0]
    out = set()
    for n in ast.walk(f.node):
        if isinstance(n, ast.Attribute):
            a = self_attr(n, selfname)
            if a:
                out.add(a)
        if (isinstance(n, ast.Call) and isinstance(n.func, ast.Attribute) and n.func.attr == "nodes_" and isinstance(n.func.value, ast.Call)
                and isinstance(n.func.value.func, ast.Name) and n.func.value.func.id == "super"):
            r = recv or f.cls
            parent = r.resolve_after(f.cls, "nodes_") if r is not None else None
            if parent is not None and parent.cls.name != "Node":
                out |= traversed_attrs(parent, r)
    return out


def traversal_shapes(f: FuncInfo, recv: ClassInfo | None = None) -> dict:
    """attr -> shapes ('' direct, '[]' element, '[][k]' k-th component of a tuple element) on which nodes_() is invoked"""
    selfname = f.params[0]
    out: dict = {}

    def attrs_of(e):
        return [a for n in ast.walk(e) for a in [self_attr(n, selfname)] if isinstance(n, ast.Attribute) and a]
    var: dict = {}      # loop variable -> set of (attr, shape)
    for n in ast.walk(f.node):
        it = tg = None
        if isinstance(n, ast.For):
            it, tg = n.iter, n.target
        elif isinstance(n, ast.comprehension):
            it, tg = n.iter, n.target
        if it is None:
            continue
        srcs = attrs_of(it)
        if isinstance(tg, ast.Name):
            for a in srcs:
                var.setdefault(tg.id, set()).add((a, "[]"))
        elif isinstance(tg, ast.Tuple):
            for k, x in enumerate(tg.elts):
                if isinstance(x, ast.Name):
                    for a in srcs:
                        var.setdefault(x.id, set()).add((a, f"[][{k}]"))
    for n in ast.walk(f.node):
        if isinstance(n, ast.Call) and isinstance(n.func, ast.Attribute) and n.func.attr == "nodes_":
            v = n.func.value
            if isinstance(v, ast.Call) and isinstance(v.func, ast.Name) and v.func.id == "super":
                r = recv or f.cls
                parent = r.resolve_after(f.cls, "nodes_") if r is not None else None
                if parent is not None and parent.cls.name != "Node":
                    for a, shp in traversal_shapes(parent, r).items():
                        out.setdefault(a, set()).update(shp)
                continue
            idx = ""
            while isinstance(v, ast.Subscript):
                idx = (f"[{v.slice.value}]" if isinstance(v.slice, ast.Constant) else "[]") + idx
                v = v.value
            a = self_attr(v, selfname) if isinstance(v, ast.Attribute) else None
            if a:
                out.setdefault(a, set()).add(idx)
            elif isinstance(v, ast.Name) and v.id in var:
                for a2, shp in var[v.id]:
                    out.setdefault(a2, set()).add(shp + idx)
            elif isinstance(v, ast.Attribute) and isinstance(v.value, ast.Name) and v.value.id in var:
                for a2, shp in var[v.value.id]:
                    out.setdefault(a2, set()).add(shp + "." + v.attr)
    return out


def _allowed_test(t) -> bool:
    if isinstance(t, ast.NamedExpr):
        return _allowed_test(t.value)      # `x.replace_table(...) if (x := self._wheres) else None`
    if isinstance(t, ast.Name):
        return True
    if isinstance(t, ast.Attribute) and isinstance(t.value, ast.Name):
        return True      # truthiness of an own attribute / of the element's attribute holding the child
    if isinstance(t, ast.UnaryOp) and isinstance(t.op, ast.Not):
        return _allowed_test(t.operand)
    if isinstance(t, ast.BoolOp):
        return all(_allowed_test(v) for v in t.values)
    if isinstance(t, ast.Compare) and all(isinstance(o, (ast.Is, ast.IsNot)) for o in t.ops) and not any(isinstance(n, ast.Call) for n in ast.walk(t)) \
            and all(isinstance(c_, ast.Name) for c_ in t.comparators):
        return True      # identity with a named marker object (`self.default is not _NO_DEFAULT`): a presence test like `is not None`
    if isinstance(t, ast.Compare):
        names = {n.id for n in ast.walk(t) if isinstance(n, ast.Name)}
        return all(isinstance(o, (ast.Is, ast.IsNot, ast.Eq, ast.NotEq, ast.In, ast.NotIn)) for o in t.ops) and not any(isinstance(n, ast.Call) for n in ast.walk(t)) \
            and (bool(names & {"current_table", "new_table"}) or any(isinstance(c_, ast.Constant) and c_.value is None for c_ in t.comparators))
    if isinstance(t, ast.Call) and isinstance(t.func, ast.Name) and t.func.id in ("isinstance", "hasattr", "callable"):
        return True
    return False



def _declared_classes(program: Program, owner: ClassInfo, attr: str) -> list:
    """package classes named in the annotation of `self.<attr>: ...` along the MRO"""
    for k in owner.mro:
        for f in k.methods.values():
            for n in ast.walk(f.node):
                if isinstance(n, ast.AnnAssign) and isinstance(n.target, ast.Attribute) and n.target.attr == attr:
                    out = []
                    for x in ast.walk(n.annotation):
                        names = [x.id] if isinstance(x, ast.Name) else ([w for w in __import__("re").findall(r"[A-Za-z_]\w*", x.value)] if isinstance(x, ast.Constant) and isinstance(x.value, str) else [])
                        for nm in names:
                            r = program.resolve_global(f.module, nm)
                            if r and r[0] == "class":
                                out.append(r[1])
                    return out
    return []


def _row_source_holders(program: Program, noop) -> list:
    sel = program.find_cls("Selectable")
    if sel is None:
        return []
    return [d for d in program.all_classes() if d.is_subclass_of(sel) and d.resolve("replace_table") not in (None, noop)]


def _compared_with_current(stmt, name: str, current: str) -> bool:
    """`<name> == <current_table parameter>` (either order) occurs in the statement"""
    for c in ast.walk(stmt):
        if isinstance(c, ast.Compare) and len(c.ops) == 1 and isinstance(c.ops[0], ast.Eq):
            a, b = c.left, c.comparators[0]
            for x, y in ((a, b), (b, a)):
                if isinstance(y, ast.Name) and y.id == current and ast.unparse(x) == name:
                    return True
    return False


def _narrow_type_tests(program: Program, f: FuncInfo, test, call, attr, noop, row_source=False):
    """[(tested class names, classes left out)] for every positive `isinstance(<receiver of the rewrite>, K)` in `test` whose K
    does not cover every class the attribute may hold that has table references to rewrite"""
    recv = call.func.value
    rname = recv.id if isinstance(recv, ast.Name) else None
    if rname is None:
        return []
    out = []
    term = program.cls("Term")
    declared = _declared_classes(program, f.cls, attr) if f.cls is not None and attr else []
    holders = [d for d in program.all_classes() if any(d.is_subclass_of(k) for k in declared) and d.resolve("replace_table") not in (None, noop)]
    via_rs = False
    if not holders and row_source:
        via_rs = True
        # a position whose element is also compared with the table being replaced holds ROW SOURCES, whatever the
        # annotation says (`_from: list[Table]` holds every Selectable that from_() accepts): measured against every row
        # source class that has table references of its own to rewrite
        holders = _row_source_holders(program, noop)
    if not holders:
        return []       # no declaration to measure the test against

    def rec(t, positive):
        if isinstance(t, ast.UnaryOp) and isinstance(t.op, ast.Not):
            rec(t.operand, not positive)
        elif isinstance(t, ast.BoolOp):
            for v in t.values:
                rec(v, positive)
        elif (isinstance(t, ast.Call) and isinstance(t.func, ast.Name) and t.func.id == "isinstance" and len(t.args) == 2 and positive
              and isinstance(t.args[0], ast.Name) and t.args[0].id == rname):
            spec = t.args[1]
            ks = [program.resolve_expr_class(f.module, e, None) for e in (spec.elts if isinstance(spec, ast.Tuple) else [spec])]
            if not ks or not all(ks):
                return
            left = sorted(d.qualname for d in holders if not any(d.is_subclass_of(k) for k in ks))
            if left:
                # measured against the row-source classes, the finding is identified by what is LEFT OUT: an extension that
                # adds its own class to the test leaves the same classes out and is the same finding
                out.append((("without:" + "|".join(left)) if via_rs else "|".join(k.qualname for k in ks), left))
    rec(test, True)
    return out

def _tuple_store_arities(program: Program, c, attr: str) -> set:
    """arities of the tuples that methods of c (and its subclasses / bases) put into self.<attr>: append((..)),
    `+ [(..)]`, `+= [(..)]`, list displays and comprehensions; both branches of a conditional expression count"""
    out = set()

    def tuples_in(e):
        if isinstance(e, ast.Tuple):
            if not any(isinstance(x, ast.Starred) for x in e.elts):
                out.add(len(e.elts))
        elif isinstance(e, ast.IfExp):
            tuples_in(e.body)
            tuples_in(e.orelse)
        elif isinstance(e, (ast.List, ast.Set)):
            for x in e.elts:
                tuples_in(x)
        elif isinstance(e, (ast.ListComp, ast.GeneratorExp)):
            tuples_in(e.elt)
        elif isinstance(e, ast.BinOp) and isinstance(e.op, ast.Add):
            tuples_in(e.left)
            tuples_in(e.right)
    classes = [k for k in program.all_classes() if k is c or k.is_subclass_of(c) or c.is_subclass_of(k)]
    for k in classes:
        for g in k.methods.values():
            if not g.params or g.is_static or g.name == "replace_table":
                continue
            sn = g.params[0]
            for n in ast.walk(g.node):
                if isinstance(n, ast.Call) and isinstance(n.func, ast.Attribute) and n.func.attr in ("append", "add", "insert") and n.args \
                        and isinstance(n.func.value, ast.Attribute) and n.func.value.attr == attr and isinstance(n.func.value.value, ast.Name) and n.func.value.value.id == sn:
                    tuples_in(n.args[-1])
                elif isinstance(n, ast.Call) and isinstance(n.func, ast.Attribute) and n.func.attr == "extend" and n.args \
                        and isinstance(n.func.value, ast.Attribute) and n.func.value.attr == attr:
                    tuples_in(n.args[0])
                elif isinstance(n, (ast.Assign, ast.AugAssign)):
                    tg = n.targets if isinstance(n, ast.Assign) else [n.target]
                    if any(isinstance(t, ast.Attribute) and t.attr == attr and isinstance(t.value, ast.Name) and t.value.id == sn for t in tg):
                        tuples_in(n.value)
    return out


def _own_nodes(fnode):
    """nodes of a function body without the bodies of functions / lambdas defined inside it"""
    stack = list(ast.iter_child_nodes(fnode))
    while stack:
        n = stack.pop()
        yield n
        if isinstance(n, (ast.FunctionDef, ast.AsyncFunctionDef, ast.Lambda)):
            continue
        stack.extend(ast.iter_child_nodes(n))


def is_noop(f: FuncInfo) -> bool:
    body = [s for s in f.node.body if not (isinstance(s, ast.Expr) and isinstance(s.value, ast.Constant))]
    return len(body) == 1 and isinstance(body[0], ast.Return) and isinstance(body[0].value, ast.Name) and body[0].value.id == f.params[0]


def check(program: Program, run: Run) -> None:
    run.explanation = (
        "Three-way sibling agreement per class, computed from the syntax tree and the render skeletons: the attributes a "
        "class renders as child terms (slots of its effective get_sql skeleton), the attributes its nodes_() traverses, and "
        "the attributes its effective replace_table rewrites from the *same* attribute must satisfy rendered U traversed <= "
        "rewritten, for every Term subclass and for every clause attribute of every builder class; classes that hold children "
        "but inherit the Term no-op, assignments fed from another attribute, element-wise comparisons that do not recurse into "
        "subqueries, and replace_table calls on receivers whose class has a value-manufacturing __getattr__ but no "
        "replace_table are reported. Nothing is executed.")
    run.rule("R1 per node: rendered U traversed <= rewritten; right-hand side reads the same attribute; holders of children must not inherit the no-op")
    run.rule("R2 per statement: every clause attribute rendered as term/table slot is rewritten by the effective replace_table; FROM items are recursed into")
    run.rule("R3 every x.replace_table(...) inside a replace_table resolves to a definition for the declared class of x; sibling classes agree on how a shared attribute is rewritten")
    run.rule("R4 every replace_table definition other than the Term no-op is @builder")
    run.rule("R6 every nested replace_table / helper call receives (current_table, new_table) in the order of the enclosing function's own parameters")
    run.rule("R5b replace_table has no early exit except on identity / None / type tests (== between tables is coarser than their rendering)")
    run.rule("R5 a child is rewritten unconditionally: the only tests allowed around x.replace_table(...) are type/None tests on x or comparisons with the tables being exchanged")
    run.rule("R8 `item == current_table` over a list of row sources is a truth value for every kind of row source (a source that inherits the criterion-building Term.__eq__ equals every table)")
    _PROGRAM[:] = [program]
    term = program.cls("Term")
    sel = program.cls("Selectable")
    from .c11 import _builds_an_object
    for c in sorted(program.all_classes(), key=lambda k: k.qualname):
        if c is sel or not c.is_subclass_of(sel):
            continue
        eq = c.resolve("__eq__")
        if eq is not None and any(b is not c and b is not sel and b.is_subclass_of(sel) and b.resolve("__eq__") is eq for b in c.mro):
            continue        # judged at the row-source class it inherits the method from
        built = _builds_an_object(program, eq, c) if eq is not None else None
        run.ob("C16/R8 == of a row source answers with a truth value", c.qualname, built is None, detail=eq.qualname if eq else "object identity", where=eq.loc() if eq else None,
               nontrivial=eq is not None)
        if built is not None:
            run.finding(f"C16/source-equality-not-boolean:{c.qualname}",
                        f"a {c.qualname} can sit in a FROM / join list, but its == ({eq.qualname}) {built} (always truthy): the element-wise "
                        f"`new_table if item == current_table else item` of replace_table exchanges the {c.qualname} for new_table whatever current_table is", where=eq.loc(), rule="R8")
    noop = term.methods.get("replace_table")
    if noop is None or not is_noop(noop):
        raise AnalysisError("anchor vanished: Term.replace_table is no longer the documented no-op")
    defs = program.definitions_of("replace_table")
    run.analysed = {"replace_table_definitions": len(defs), "nodes_definitions": len(program.definitions_of("nodes_"))}
    if len(defs) < 12:
        raise AnalysisError(f"instance count below floor: replace_table definitions {len(defs)}")
    sk = skeletons(program)

    # R4
    for f in defs:
        if f is noop:
            continue
        run.ob("C16/R4 replace_table is builder-decorated (receiver unchanged)", f.qualname, f.is_builder, where=f.loc())
        if not f.is_builder:
            run.finding(f"C16/not-builder:{f.qualname}", f"{f.qualname} is not @builder: it rewrites the receiver in place", where=f.loc(), rule="R4")

    # R4b (inherited from C01/R4b): @builder only copies while the immutable switch is on
    from .c01 import check_immutable_switch
    sub01 = Run("C01", run.tier)
    check_immutable_switch(program, sub01)
    for fd in sub01.findings:
        if fd.key.startswith("C01/immutable-off:"):
            cn = fd.key.split(":", 1)[1]
            if program.find_cls(cn) is not None and program.cls(cn).resolve("replace_table") is not None:
                run.finding("C16/receiver-rewritten:" + cn, "replace_table of this class rewrites the receiver (and every query sharing it) instead of a copy: " + fd.what, where=fd.where, rule="R4 (inherited from C01/R4b)")

    # R5: `x.replace_table(..) if x.fields_() else x` looks like an optimisation, but what a child *reports* (fields_,
    # tables_, is_aggregate ...) is not what it *contains* (a subquery reports no fields)
    nrw = 0
    for f in defs:
        if f is noop:
            continue
        parents = {}
        for n in ast.walk(f.node):
            for ch in ast.iter_child_nodes(n):
                parents[ch] = n
        for n in ast.walk(f.node):
            if not (isinstance(n, ast.Call) and isinstance(n.func, ast.Attribute) and n.func.attr == "replace_table"):
                continue
            nrw += 1
            x = n
            while x in parents:
                par = parents[x]
                tests = []
                if isinstance(par, ast.IfExp) and x is not par.test:
                    tests.append(par.test)
                elif isinstance(par, ast.If) and x is not par.test:
                    tests.append(par.test)
                elif isinstance(par, (ast.ListComp, ast.GeneratorExp, ast.SetComp, ast.DictComp)):
                    for g in par.generators:
                        tests += g.ifs
                for t in tests:
                    ok5 = _allowed_test(t)
                    if ok5:
                        # a type test is a presence test only while it is at least as wide as what the attribute may
                        # hold: narrowed to one subclass it leaves every other kind of child with the old table
                        st5 = n
                        while st5 in parents and not isinstance(st5, ast.stmt):
                            st5 = parents[st5]
                        a5 = next((a_.attr for a_ in ast.walk(st5) if isinstance(a_, ast.Attribute) and isinstance(a_.value, ast.Name) and a_.value.id == f.params[0]), None)
                        cur5 = f.params[1] if len(f.params) > 1 else "current_table"
                        rs5 = isinstance(n.func.value, (ast.Name, ast.Attribute)) and _compared_with_current(st5, ast.unparse(n.func.value), cur5)
                        # (measuring a loop element that is compared with the table against every row-source class was tried in
                        # round 21 and withdrawn: a test split over two branches and extensions with row sources of their own
                        # were reported; see DESIGN 7.33)
                        rs5 = False
                        for narrow, left_out in _narrow_type_tests(program, f, t, n, a5, noop, row_source=rs5):
                            run.ob("C16/R5 child rewritten unconditionally", f"{f.qualname}:{ast.unparse(t)[:50]}", False, where=f.loc(n))
                            run.finding(f"C16/type-test-too-narrow:{f.qualname}:{a5 or '?'}:{narrow}",
                                        f"{f.qualname} rewrites a child of `{a5}` only when `{ast.unparse(t)[:70]}`; the attribute may also hold {', '.join(left_out[:4])}"
                                        f"{' ...' if len(left_out) > 4 else ''}, whose table references keep the old table", where=f.loc(n), rule="R5")
                    if not ok5:
                        st5 = n
                        while st5 in parents and not isinstance(st5, ast.stmt):
                            st5 = parents[st5]
                        a5 = next((a_.attr for a_ in ast.walk(st5) if isinstance(a_, ast.Attribute) and isinstance(a_.value, ast.Name) and a_.value.id == f.params[0]), "?")
                        run.ob("C16/R5 child rewritten unconditionally", f"{f.qualname}:{ast.unparse(t)[:50]}", False, where=f.loc(n))
                        run.finding(f"C16/conditional-rewrite:{f.qualname}:{a5}", f"{f.qualname} rewrites a child only when `{ast.unparse(t)[:60]}` holds: children for which the test is false keep the old table "
                                    "(e.g. a subquery reports no fields of its own but contains references)", where=f.loc(n), rule="R5")
                x = par
    # R7: a container of tuples ((term, order), (field, value), ...) rebuilt element by element keeps every member of the
    # element: a rebuild that writes k-tuples where a builder stores longer ones silently drops the extra members
    ntup = 0
    for f in defs:
        if f is noop or f.cls is None:
            continue
        sn = f.params[0]
        for n in ast.walk(f.node):
            if not (isinstance(n, ast.Assign) and len(n.targets) == 1 and isinstance(n.targets[0], ast.Attribute) and isinstance(n.targets[0].value, ast.Name)
                    and isinstance(n.value, (ast.ListComp, ast.GeneratorExp)) and isinstance(n.value.elt, ast.Tuple)):
                continue
            a7 = n.targets[0].attr
            k7 = len(n.value.elt.elts)
            if any(isinstance(x, ast.Starred) for x in n.value.elt.elts):
                continue        # `(x[0].replace_table(..), *x[1:])` keeps whatever follows
            stores = _tuple_store_arities(program, f.cls, a7)
            ntup += 1
            ok7 = not stores or max(stores) <= k7
            run.ob("C16/R7 element tuples are rebuilt with all their members", f"{f.qualname}:{a7}", ok7, detail=f"rebuilt as {k7}-tuples, stored as {sorted(stores)}", where=f.loc(n))
            if not ok7:
                run.finding(f"C16/element-truncated:{f.cls.qualname}:{a7}", f"{f.qualname} rebuilds the elements of {a7} as {k7}-tuples while a builder stores {max(stores)}-tuples there: "
                            "the extra members are dropped by replace_table, so the result differs from the same construction carried out with the new table", where=f.loc(n), rule="R7")
    run.analysed["tuple_container_rebuilds"] = ntup
    # R5b: leaving replace_table early skips every rewrite below.  `current_table == new_table` is not a reason to: equality
    # of tables (name, schema, alias) is coarser than their rendering (the temporal FOR clause), so an "equal" replacement
    # can still change the SQL.  Only identity / None / type tests may guard an early exit.
    def _identity_test(t) -> bool:
        if isinstance(t, ast.UnaryOp) and isinstance(t.op, ast.Not):
            return _identity_test(t.operand)
        if isinstance(t, ast.BoolOp):
            return all(_identity_test(v) for v in t.values)
        if isinstance(t, ast.Compare):
            return all(isinstance(o, (ast.Is, ast.IsNot)) for o in t.ops)
        return isinstance(t, ast.Call) and isinstance(t.func, ast.Name) and t.func.id == "isinstance"
    nexit = 0
    for f in defs:
        if f is noop:
            continue
        for n in _own_nodes(f.node):       # (a `return` inside a local helper function leaves the helper, not replace_table)
            if isinstance(n, ast.If) and any(isinstance(x, (ast.Return, ast.Raise)) for b in (n.body, n.orelse) for x in b):
                nexit += 1
                ok5 = _identity_test(n.test)
                run.ob("C16/R5b no early exit from replace_table on anything but an identity/None/type test", f"{f.qualname}:{ast.unparse(n.test)[:50]}", ok5, where=f.loc(n))
                if not ok5:
                    run.finding(f"C16/early-exit:{f.qualname}", f"{f.qualname} returns before rewriting anything when `{ast.unparse(n.test)[:60]}` holds: equality of tables ignores the temporal clause "
                                "(and whatever else == does not compare), so a replacement that changes the rendering is skipped", where=f.loc(n), rule="R5b")
    run.ob("C16/R5b no early exit from replace_table on anything but an identity/None/type test", "all replace_table definitions", True, detail=f"{nexit} early exits examined", nontrivial=False)
    # R6: the pair (table to replace, replacement) is handed down unchanged and in that order.  Both arguments have the same
    # type, so a swapped pair type-checks and every test that replaces a table by itself or by an absent one stays green.
    nfw = 0
    for f in program.all_functions():
        if f is noop or not any(isinstance(n, ast.Call) and isinstance(n.func, ast.Attribute) and "replace_table" in n.func.attr for n in ast.walk(f.node)):
            continue
        own = [a for a in f.params if a not in ("self", "cls")]
        for n in ast.walk(f.node):
            if not (isinstance(n, ast.Call) and isinstance(n.func, (ast.Attribute, ast.Name))):
                continue
            callee = n.func.attr if isinstance(n.func, ast.Attribute) else n.func.id
            if "replace" not in callee or len(n.args) < 2 or not all(isinstance(a, ast.Name) for a in n.args[:2]):
                continue
            a0, a1 = n.args[0].id, n.args[1].id
            if a0 in own and a1 in own and a0 != a1:
                nfw += 1
                ok6 = own.index(a0) < own.index(a1)
                run.ob("C16/R6 (current, new) forwarded in order", f"{f.qualname}:{ast.unparse(n)[:60]}", ok6, where=f.loc(n))
                if not ok6:
                    st6 = n
                    par6 = {ch: pa for pa in ast.walk(f.node) for ch in ast.iter_child_nodes(pa)}
                    while st6 in par6 and not isinstance(st6, ast.stmt):
                        st6 = par6[st6]
                    a6 = next((a_.attr for a_ in ast.walk(st6) if isinstance(a_, ast.Attribute) and isinstance(a_.value, ast.Name) and a_.value.id == (f.params[0] if f.params else "self")), "?")
                    run.finding(f"C16/arguments-swapped:{f.qualname}:{a6}", f"{f.qualname} calls `{ast.unparse(n)[:70]}` with the table to replace and its replacement exchanged: "
                                "references to the old table survive there and references to the new one are turned into the old", where=f.loc(n), rule="R6")
    if nfw < 15:
        raise AnalysisError(f"instance count below floor: forwarded (current, new) pairs {nfw}")
    run.ob("C16/R5 child rewritten unconditionally", "all replace_table definitions", True, detail=f"{nrw} nested replace_table calls examined", nontrivial=False)
    if nrw < 40:
        raise AnalysisError(f"instance count below floor: nested replace_table calls {nrw}")

    # R1
    seen = set()
    for c in term_classes(program):
        if c.is_subclass_of(sel):
            continue
        skv = sk[c][0]
        rendered = {}
        for part, conds, in_rep in walk_parts(skv):
            if isinstance(part, SlotP) and part.method == "get_sql":
                rp = recv_path(part.recv)
                ra = root_attr(rp)
                if ra in NO_TABLE or "create_param" in rp or ra in ("self", ""):
                    continue
                if rp.startswith("all("):
                    ra = rp[4:-1]
                rendered.setdefault(ra, part)
        nf = c.resolve("nodes_")
        traversed = (traversed_attrs(nf, c) - {"table"}) if nf is not None and nf.cls.name != "Node" else set()
        rf = c.resolve("replace_table")
        need = set(rendered) | traversed
        if rf is None or rf is noop:
            ok = not need
            run.ob("C16/R1 a class holding child terms does not inherit the no-op replace_table", c.qualname, ok, detail=f"children={sorted(need)}", nontrivial=bool(need))
            if not ok:
                owner = {}
                for a in sorted(need):
                    part = rendered.get(a)
                    dc = (part.src[0].rsplit(".", 1)[0] if part is not None and part.src else (nf.cls.qualname if nf else c.qualname))
                    if dc in ("Function", "Term"):
                        dc = c.resolve("get_sql").cls.qualname
                    owner.setdefault(dc, []).append(a)
                for dc, attrs in owner.items():
                    key = f"C16/inherits-noop:{dc}:{','.join(sorted(attrs))}"
                    if key not in seen:
                        seen.add(key)
                        run.finding(key, f"{dc} renders/traverses child terms {sorted(attrs)} but resolves replace_table to the Term no-op: references to the old table inside them survive",
                                    where=program.cls(dc).resolve('get_sql').loc() if program.find_cls(dc) else "", rule="R1")
            continue
        rewritten, leaves, shallow = rewritten_attrs(rf, c)
        for a in sorted(need):
            src = rewritten.get(a)
            if a == "table" and "table" in rewritten:
                continue
            ok = src is not None and a in src
            dc = rf.cls.qualname
            run.ob("C16/R1 rendered/traversed child is rewritten from itself", f"{c.qualname}.{a}", ok, detail=f"sources={sorted(src) if src else None}", where=rf.loc())
            if ok:
                continue
            if src is None:
                # attribute introduced by a subclass of the class that defines replace_table?
                part = rendered.get(a)
                owner_cls = part.src[0].rsplit(".", 1)[0] if part is not None and part.src else c.qualname
                key = f"C16/not-rewritten:{dc}:{a}" if owner_cls in (dc, "Function") or program.find_cls(owner_cls) is None or program.cls(dc).is_subclass_of(program.cls(owner_cls)) else f"C16/not-rewritten:{owner_cls}:{a}"
                if key not in seen:
                    seen.add(key)
                    run.finding(key, f"{key.split(':')[1]} renders/traverses `{a}` but the effective replace_table ({rf.qualname}) never rewrites it", where=rf.loc(), rule="R1")
            else:
                key = f"C16/wrong-source:{dc}:{a}<-{','.join(sorted(src))}"
                if key not in seen:
                    seen.add(key)
                    run.finding(key, f"{rf.qualname} assigns self.{a} from {sorted(src)}.replace_table(...) instead of self.{a}", where=rf.loc(), rule="R1")

    # R2 statements
    qb = program.cls("QueryBuilder")
    for bn in BUILDER_CLASSES:
        bc = program.cls(bn)
        skv = sk[bc][0]
        rendered = {}
        for part, conds, in_rep in walk_parts(skv):
            if isinstance(part, SlotP) and part.method == "get_sql":
                ra = root_attr(recv_path(part.recv))
                if ra in NO_TABLE or ra in ("self", "") or ra.startswith("new") or not ra.startswith("_"):
                    continue
                rendered.setdefault(ra, part)
        rf = bc.resolve("replace_table")
        if rf is None or rf is noop:
            raise AnalysisError(f"anchor vanished: {bn}.replace_table")
        rewritten, leaves, shallow = rewritten_attrs(rf, bc)
        for a in sorted(rendered):
            ok = a in rewritten and a in rewritten[a]
            if not ok:
                # elements of a class that holds no table at all (its replace_table is the inherited no-op, which R1
                # accepts only for classes that render no child): nothing to rewrite
                from .c07 import _child_classes
                kinds = _child_classes(program, bc, a)
                if kinds and all(k2.resolve("replace_table") is noop for k in kinds for k2 in program.all_classes() if k2 is k or k2.is_subclass_of(k)):
                    run.ob("C16/R2 clause attribute holds objects without table references", f"{bn}.{a}", True,
                           detail=",".join(sorted(k.qualname for k in kinds)), where=rf.loc(), nontrivial=False)
                    continue
            run.ob("C16/R2 clause attribute rewritten by the statement's replace_table", f"{bn}.{a}", ok, where=rf.loc())
            if not ok:
                part = rendered[a]
                owner = part.src[0].rsplit(".", 1)[0] if part.src else bn
                key = f"C16/clause-not-rewritten:{owner if owner != 'QueryBuilder' and program.find_cls(owner) and program.cls(owner).is_subclass_of(qb) else 'QueryBuilder'}:{a}"
                if key not in seen:
                    seen.add(key)
                    run.finding(key, f"{bn} renders clause `{a}` but {rf.qualname} does not rewrite it: the old table stays in that clause", where=rf.loc(), rule="R2")
        if bn == "QueryBuilder":
            for a in sorted(shallow & {"_from"}):
                run.ob("C16/R2 FROM items are recursed into", f"{bn}.{a}", False, where=rf.loc())
                run.finding(f"C16/shallow:{rf.qualname}:{a}", f"{rf.qualname} only compares the elements of {a} with the old table; subqueries and set operations in FROM are not recursed into", where=rf.loc(), rule="R2")
    so = program.cls("_SetOperation")
    rf = so.resolve("replace_table")
    ok = rf is not None and rf is not noop
    run.ob("C16/R2 set operations forward replace_table to base query and operands", "_SetOperation", ok)
    if not ok:
        run.finding("C16/inherits-noop:_SetOperation:base_query,_set_operation,_orderbys", "_SetOperation resolves replace_table to the Term no-op: neither the base query nor the operands are rewritten", rule="R2")

    # R3 calls resolve on the declared class of the receiver
    for f in defs:
        if f is noop:
            continue
        selfname = f.params[0]
        for n in ast.walk(f.node):
            if not (isinstance(n, ast.Call) and isinstance(n.func, ast.Attribute) and n.func.attr == "replace_table"):
                continue
            recv = n.func.value
            attr = None
            for x in ast.walk(f.node):
                pass
            # receiver is self.<a> or a comprehension variable ranging over self.<a>
            if isinstance(recv, ast.Attribute):
                attr = self_attr(recv, selfname)
            elif isinstance(recv, ast.Name):
                for comp in ast.walk(f.node):
                    if isinstance(comp, ast.comprehension) and isinstance(comp.target, ast.Name) and comp.target.id == recv.id:
                        attr = self_attr(comp.iter, selfname)
            if attr is None:
                continue
            decl = declared_elem_class(program, f.cls, attr)
            if decl is None:
                continue
            narrowed = _narrowed_classes(program, f, n, recv)
            if narrowed:
                bad = [k for k in narrowed if k.resolve("replace_table") is None and k.resolve("__getattr__") is not None]
                run.ob("C16/R3 replace_table call resolves on the isinstance-narrowed classes of the receiver",
                       f"{f.qualname}:{attr}->{'|'.join(k.qualname for k in narrowed)}", not bad, where=f.loc(n))
                for k in bad:
                    run.finding(f"C16/unresolved-on-dynamic:{f.qualname}:{attr}:{k.qualname}", f"{f.qualname} calls .replace_table on a {k.qualname}, which has none (its __getattr__ manufactures a Field)", where=f.loc(n), rule="R3")
                continue
            has = decl.resolve("replace_table") is not None
            dyn = decl.resolve("__getattr__") is not None
            ok = has or not dyn
            run.ob("C16/R3 replace_table call resolves on the declared class of the receiver", f"{f.qualname}:{attr}->{decl.qualname}", ok, where=f.loc(n))
            if not ok:
                run.finding(f"C16/unresolved-on-dynamic:{f.qualname}:{attr}", f"{f.qualname} calls .replace_table on elements of {attr} (declared {decl.qualname}); that class has no replace_table and its __getattr__ manufactures a Field, so the call raises TypeError",
                            where=f.loc(n), rule="R3")
    # sibling agreement on a shared attribute (leaf comparison vs recursive call)
    by_attr: dict = {}
    for f in defs:
        if f is noop:
            continue
        rw, leaves, shallow = rewritten_attrs(f)
        for a in rw:
            by_attr.setdefault((f.cls.mro[-1].qualname if f.cls.mro else "", a), []).append((f, a in leaves))
    for f in defs:
        if f is noop or not f.cls.subclasses:
            continue
        rw, leaves, _ = rewritten_attrs(f)
        for sub in f.cls.all_subclasses():
            sf = sub.methods.get("replace_table")
            if sf is None:
                continue
            srw, sleaves, _ = rewritten_attrs(sf)
            for a in set(rw) & set(srw):
                agree = (a in leaves) == (a in sleaves)
                run.ob("C16/R3 sibling replace_table definitions treat the shared attribute the same way", f"{f.qualname} vs {sf.qualname}:{a}", agree, where=f.loc())
                if not agree:
                    run.finding(f"C16/sibling-disagree:{f.cls.qualname}.{a}", f"{f.qualname} calls self.{a}.replace_table(...) while {sf.qualname} compares self.{a} with the table and assigns: {a} holds a table-like object without replace_table (the base-class form raises TypeError for a Table)",
                                where=f.loc(), rule="R3")

    # ---- R9: a row source embedded by the object is replaced when it IS the table -- and descended into when it is not.
    # `if self.item == current_table: self.item = new_table` handles a joined table; a joined subquery (or aliased query)
    # that mentions the table in its own FROM keeps it unless the same method also calls <source>.replace_table(...)
    n_r9 = 0
    holders9 = _row_source_holders(program, noop)
    for c9 in program.all_classes():
        f9 = c9.methods.get("replace_table")
        g9 = c9.resolve("get_sql")
        if f9 is None or g9 is None or len(f9.params) < 3 or not holders9:
            continue
        sn, cur, new_ = f9.params[0], f9.params[1], f9.params[2]
        for st in ast.walk(f9.node):
            if not isinstance(st, ast.If):
                continue
            # the equality may be one conjunct: `if self.query is not None and self.query == current_table:`
            conj = st.test.values if isinstance(st.test, ast.BoolOp) and isinstance(st.test.op, ast.And) else [st.test]
            cmp9 = next((c_ for c_ in conj if isinstance(c_, ast.Compare) and len(c_.ops) == 1 and isinstance(c_.ops[0], ast.Eq)), None)
            if cmp9 is None:
                continue
            l_, r_ = cmp9.left, cmp9.comparators[0]
            own = l_ if isinstance(r_, ast.Name) and r_.id == cur else (r_ if isinstance(l_, ast.Name) and l_.id == cur else None)
            if not (isinstance(own, ast.Attribute) and isinstance(own.value, ast.Name) and own.value.id == sn):
                continue
            attr9 = own.attr
            if not any(isinstance(b, ast.Assign) and isinstance(b.value, ast.Name) and b.value.id == new_ and any(
                    isinstance(t, ast.Attribute) and t.attr == attr9 and isinstance(t.value, ast.Name) and t.value.id == sn for t in b.targets) for b in st.body):
                continue
            # the object embeds the source itself (prints <source>.get_sql(...)), not just its name
            gs = g9.params[0] if g9.params else "self"
            embeds = any(isinstance(x, ast.Call) and isinstance(x.func, ast.Attribute) and x.func.attr == "get_sql" and isinstance(x.func.value, ast.Attribute)
                         and x.func.value.attr == attr9 and isinstance(x.func.value.value, ast.Name) and x.func.value.value.id == (km.params[0] if km.params else "self")
                         for k9 in c9.mro for km in [k9.methods.get("get_sql")] if km is not None for x in ast.walk(km.node))
            if not embeds:
                continue
            n_r9 += 1
            descends = any(isinstance(x, ast.Call) and isinstance(x.func, ast.Attribute) and x.func.attr == "replace_table" and isinstance(x.func.value, ast.Attribute)
                           and x.func.value.attr == attr9 and isinstance(x.func.value.value, ast.Name) and x.func.value.value.id == sn for x in ast.walk(f9.node))
            # ... or stores the result of some <alias>.replace_table(...) back into the attribute (`case QueryBuilder() as q: self.query = q.replace_table(..)`)
            descends = descends or any(isinstance(b, ast.Assign) and any(isinstance(t, ast.Attribute) and t.attr == attr9 and isinstance(t.value, ast.Name) and t.value.id == sn for t in b.targets)
                                       and any(isinstance(x, ast.Call) and isinstance(x.func, ast.Attribute) and x.func.attr == "replace_table" for x in ast.walk(b.value)) for b in ast.walk(f9.node))
            run.ob("C16/R9 an embedded row source that is not the table itself is descended into", f"{f9.qualname}:{attr9}", descends, where=f9.loc(st))
            if not descends:
                run.finding(f"C16/row-source-not-descended:{f9.qualname}:{attr9}",
                            f"{f9.qualname} replaces `{attr9}` when it equals the table but never calls {attr9}.replace_table(...): a subquery, set operation or aliased query held there "
                            f"({', '.join(h.qualname for h in holders9[:4])}) keeps the old table in its own clauses, and {g9.qualname} prints it", where=f9.loc(st), rule="R9")

    # ---- the mechanism keeps no state between renderings (shared rule, see families.inherit_history_dependence)
    from ..families import inherit_history_dependence
    run.rule("history: no function of this property's mechanism writes object / class / parameterizer state while rendering or memoises on a copied object (inherited from C02 and C01)")
    inherit_history_dependence(program, run, "C16", r"^Term\.(fields_|tables_|find_|nodes_)|\.replace_table", "what a term reports about its tables is computed before replace_table and travels with the copy")

def _narrowed_classes(program: Program, f: FuncInfo, call: ast.Call, recv: ast.expr):
    """classes named by an enclosing `isinstance(<recv>, (...))` test whose true-branch contains the call"""
    if not isinstance(recv, ast.Name):
        return []
    for n in ast.walk(f.node):
        in_body = isinstance(n, (ast.IfExp, ast.If)) and any(x is call for b in (n.body if isinstance(n.body, list) else [n.body]) for x in ast.walk(b))
        in_else = isinstance(n, (ast.IfExp, ast.If)) and any(x is call for b in (n.orelse if isinstance(n.orelse, list) else [n.orelse]) for x in ast.walk(b))
        if in_body or in_else:
            t = n.test
            if in_else:
                # `x if not isinstance(x, K) else x.replace_table(..)`: the call sits under the negated test
                if not (isinstance(t, ast.UnaryOp) and isinstance(t.op, ast.Not)):
                    continue
                t = t.operand
            elts = _isinstance_union(t, recv.id)
            if elts:
                out = [program.resolve_expr_class(f.module, e, None) for e in elts]
                if all(out):
                    return out
    return []


def _isinstance_union(t, name: str):
    """class expressions of `isinstance(<name>, K)`, `isinstance(<name>, (K1, K2))` or an `or` of such tests (None otherwise)"""
    if isinstance(t, ast.BoolOp) and isinstance(t.op, ast.Or):
        out = []
        for v in t.values:
            r = _isinstance_union(v, name)
            if not r:
                return None
            out += r
        return out
    if (isinstance(t, ast.Call) and isinstance(t.func, ast.Name) and t.func.id == "isinstance" and len(t.args) == 2
            and isinstance(t.args[0], ast.Name) and t.args[0].id == name):
        spec = t.args[1]
        return list(spec.elts) if isinstance(spec, ast.Tuple) else [spec]
    return None


def declared_elem_class(program: Program, owner: ClassInfo, attr: str) -> ClassInfo | None:
    """element class from `self.<attr>: list[T] = ...` annotations in __init__ along the MRO"""
    for k in owner.mro:
        f = k.methods.get("__init__")
        if f is None:
            continue
        for n in ast.walk(f.node):
            if isinstance(n, ast.AnnAssign) and isinstance(n.target, ast.Attribute) and n.target.attr == attr:
                a = n.annotation
                if isinstance(a, ast.Subscript):
                    inner = a.slice
                    if isinstance(inner, ast.BinOp):
                        inner = inner.left
                    return program.resolve_expr_class(f.module, inner, None)
                return program.resolve_expr_class(f.module, a, None)
    return None
