"""C09 -- LIMIT/OFFSET render as the dialect's row-limiting clause, values in the right slots (DESIGN 2/C09)."""
from __future__ import annotations

import ast
import re as _re
import itertools
import re

from ..inline import inlined
from ..model import AnalysisError, Program
from ..report import Run
from ..skel import BUILDER_CLASSES, recv_path, render
from ..symex import (Alt, Const, CtxV, EnumV, Evaluator, Hole, Lit, ListV, Obj, Phi, SlotP, Str, Sym, show, walk_parts,
                     s_lit)
from .c06 import paths

# reference grammars of the row-limiting clause (from the property statement / vendor grammars)
# tokens: L = limit slot, O = offset slot
REF = {
    "generic": {(0, 0): "", (1, 0): " LIMIT L", (1, 1): " LIMIT L OFFSET O", (0, 1): None},   # LIMIT n [OFFSET m]: offset alone is not derivable
    "MYSQL": {(0, 0): "", (1, 0): " LIMIT L", (1, 1): " LIMIT L OFFSET O", (0, 1): None},
    "SQLITE": {(0, 0): "", (1, 0): " LIMIT L", (1, 1): " LIMIT L OFFSET O", (0, 1): None},
    "POSTGRESQL": {(0, 0): "", (1, 0): " LIMIT L", (1, 1): " LIMIT L OFFSET O", (0, 1): " OFFSET O"},
    "ORACLE": {(0, 0): "", (1, 0): " FETCH NEXT L ROWS ONLY", (1, 1): " OFFSET O ROWS FETCH NEXT L ROWS ONLY", (0, 1): " OFFSET O ROWS"},
    # SQL Server: ORDER BY is mandatory for OFFSET/FETCH; {ob} is " ORDER BY (SELECT 0)" iff the query has no ORDER BY
    "MSSQL": {(0, 0): "", (1, 0): "{ob} OFFSET 0 ROWS FETCH NEXT L ROWS ONLY", (1, 1): "{ob} OFFSET O ROWS FETCH NEXT L ROWS ONLY", (0, 1): "{ob} OFFSET O ROWS"},
}


def dialect_of(program: Program, bc) -> str:
    ev = Evaluator(program)
    q = ev.getattr(ev.self_obj(bc), "QUERY_CLS", None)
    ctx = ev.getattr(q, "SQL_CONTEXT", None) if q is not None else None
    if isinstance(ctx, CtxV) and isinstance(ctx.fields["dialect"], EnumV):
        return ctx.fields["dialect"].name
    raise AnalysisError(f"anchor vanished: cannot fold {bc.qualname}.QUERY_CLS.SQL_CONTEXT.dialect")


def flatten(v) -> list[str]:
    """all alternative renderings of a (mostly folded) skeleton as token strings; symbolic alternatives kept apart"""
    out = []
    for flat in paths(v):
        s = ""
        for p in flat:
            if isinstance(p, Lit):
                s += p.text
            elif isinstance(p, SlotP):
                rp = recv_path(p.recv)
                s += {"_limit": "L", "_offset": "O"}.get(rp, f"<{rp}>")
            elif isinstance(p, Hole):
                s += "{" + show(p.value)[:30] + "}"
        out.append(s)
    return sorted(set(out))


def check(program: Program, run: Run) -> None:
    run.explanation = (
        "The state space (limit, offset) in (absent|present)^2 x ORDER BY present/absent x six builder classes (x TOP for SQL Server) "
        "is finite and the output is decided by three small selector methods per class; they are evaluated symbolically with "
        "concrete presence values (a wrapper object is truthy whatever number it holds, so 0 and positive coincide; a selector "
        "that does not fold on presence alone is reported) and every cell is compared with the dialect's reference grammar; the "
        "slot after LIMIT/FETCH NEXT must read the limit attribute and the slot after OFFSET the offset attribute, with the "
        "inherited context. _SetOperation pagination is tabulated per base-query dialect. Setters are checked to write only their "
        "own slot from their own argument. Exhaustive; nothing is executed.")
    run.rule("cell grammar: _apply_pagination('<QS>') for each (class, limit, offset, orderbys[, top]) equals the dialect's reference clause")
    run.rule("presence-only: selectors fold to constants given presence values (no dependence on the number)")
    run.rule("zero-dropped: presence of a bare int (TOP) must be tested with `is None`, not truthiness")
    run.rule("param-slot-order (inherited from C04/R2): in every statement class the pagination slots are evaluated in the order they are printed")
    run.rule("setters store 0 like any other value: a guard around the store tests the argument with `is None`, never for truthiness")
    run.rule("setters: limit->_limit, offset->_offset, slice.start->_offset, slice.stop->_limit, fetch_next->_limit; none reads other pagination state")
    run.exhaustive = True
    vw = program.cls("ValueWrapper")
    cells = 0
    for bn in BUILDER_CLASSES:
        bc = program.cls(bn)
        dialect = dialect_of(program, bc) if bn != "QueryBuilder" else "generic"
        ref = REF.get(dialect)
        if ref is None:
            raise AnalysisError(f"no reference grammar for dialect {dialect}")
        tops = [None]
        has_top = "_top" in {a for k in bc.mro for a in program.attr_kinds(k)}
        if has_top:
            tops = [Const(None), Const(5), Const(0)]
        for lim, off, ob, top in itertools.product((0, 1), (0, 1), (0, 1), tops):
            attrs = {"_limit": Obj(vw, {}, "_limit") if lim else Const(None),
                     "_offset": Obj(vw, {}, "_offset") if off else Const(None),
                     "_orderbys": Sym("nonempty", ("_orderbys",)) if ob else ListV((), "list")}
            if top is not None:
                attrs["_top"] = top
            sk, _ = render(program, bc, "_apply_pagination", attrs=attrs, extra_args=[s_lit("<QS>")], ctx=CtxV.incoming(False))
            alts = flatten(sk)
            cell = f"{bn}:limit={'set' if lim else 'absent'},offset={'set' if off else 'absent'},orderby={'yes' if ob else 'no'}"
            cells += 1
            if len(alts) != 1:
                run.ob("C09 selectors depend on presence only", cell, False, detail=str(alts)[:200])
                run.finding(f"C09/value-dependent:{cell}", f"pagination of {bn} does not fold on presence alone: {alts}", rule="presence-only")
                continue
            got = alts[0]
            assert got.startswith("<QS>"), got
            got = got[4:]
            want = ref[(lim, off)]
            if want is not None:
                want = want.format(ob="" if ob else " ORDER BY (SELECT 0)")
            ok = want is not None and got == want
            run.ob("C09 row-limiting clause matches the dialect grammar", cell, ok, detail=f"got {got!r} want {want!r}")
            if not ok:
                key = f"C09/grammar:{bn}:limit={'set' if lim else 'absent'},offset={'set' if off else 'absent'}" + ("" if dialect != "MSSQL" else f",orderby={'yes' if ob else 'no'}")
                why = (f"{dialect} has no row-limiting clause with an OFFSET and no LIMIT (grammar is LIMIT n [OFFSET m])" if want is None
                       else f"the {dialect} grammar requires {want!r}")
                run.finding(key, f"{bn} renders {got!r} for limit={'set' if lim else 'absent'}, offset={'set' if off else 'absent'}: {why}",
                            where=bc.resolve("_apply_pagination").loc(), rule="cell grammar")
            # slot context: inherited ctx
            for part, conds, in_rep in walk_parts(sk):
                if isinstance(part, SlotP) and isinstance(part.ctx, CtxV) and part.ctx.changed():
                    bad = {k: v for k, v in part.ctx.changed().items() if k in ("parameterizer", "dialect", "quote_char", "secondary_quote_char")}
                    if bad:
                        run.finding(f"C09/slot-context:{bn}:{recv_path(part.recv)}", f"{bn} renders {recv_path(part.recv)} with a modified context {bad}", rule="cell grammar")
        # TOP
        if has_top:
            f = bc.resolve("_top_sql")
            if f is None:
                raise AnalysisError("anchor vanished: _top_sql")
            for tv, label in ((Const(0), "0"), (Const(5), "5"), (Const(None), "None")):
                sk, _ = render(program, bc, "_top_sql", attrs={"_top": tv})
                alts = list(flatten(sk))
                txt = "|".join(alts)
                want = "" if label == "None" else f"TOP ({label}) "
                # the number is printed whenever one was given (modifiers such as PERCENT / WITH TIES may follow it)
                ok = all(a_ == "" for a_ in alts) if label == "None" else bool(alts) and all(a_.startswith(want) for a_ in alts)
                cells += 1
                run.ob("C09 TOP presence tested with `is None` (0 is a value)", f"{bn}._top_sql:_top={label}", ok, detail=f"got {txt!r} want {want!r}", where=f.loc())
                if not ok:
                    run.finding(f"C09/zero-dropped:{bn}._top_sql:_top={label}", f"{bn}._top_sql renders {txt!r} for top({label}); expected {want!r}: the presence test treats the number as a truth value",
                                where=f.loc(), rule="zero-dropped")
            # TOP together with OFFSET/FETCH in one query block is not T-SQL
            sel, _ = render(program, bc, "_select_sql", attrs={"_top": Const(5), "_distinct": Const(False)}, ctx=CtxV.incoming(False))
            pag, _ = render(program, bc, "_apply_pagination", attrs={"_top": Const(5), "_limit": Obj(vw, {}, "_limit"), "_offset": Const(None), "_orderbys": ListV((), "list")},
                            extra_args=[s_lit("<QS>")], ctx=CtxV.incoming(False))
            both = "TOP" in "".join(flatten(sel)) and "OFFSET" in "".join(flatten(pag))
            cells += 1
            run.ob("C09 TOP and OFFSET/FETCH are never emitted together", f"{bn}:top+fetch", not both)
            if both:
                run.finding(f"C09/top-with-offset-fetch:{bn}", f"{bn} emits TOP (n) and OFFSET ... FETCH NEXT in the same query block when top() is combined with limit/offset/fetch_next: not valid T-SQL", rule="cell grammar")
    # _SetOperation
    so = program.cls("_SetOperation")
    for lim, off in itertools.product((0, 1), (0, 1)):
        attrs = {"_limit": Obj(vw, {}, "_limit") if lim else Const(None), "_offset": Obj(vw, {}, "_offset") if off else Const(None)}
        if so.resolve("_limit_sql") is not None and so.resolve("_offset_sql") is not None:
            a, _ = render(program, so, "_limit_sql", attrs=attrs, ctx=CtxV.incoming(False))
            b, _ = render(program, so, "_offset_sql", attrs=attrs, ctx=CtxV.incoming(False))
            got = "".join(flatten(a)) + "".join(flatten(b))
            consults = "ctx.dialect" in show(a, -20) + show(b, -20)
        else:
            # the two clause helpers were folded into something else: take the tail of the whole rendering (no further
            # operands, no ORDER BY) from the first pagination slot / keyword on
            whole, _ = render(program, so, "get_sql", attrs={**attrs, "_set_operation": ListV((), "list"), "_orderbys": ListV((), "list"), "alias": Const(None)},
                              ctx=CtxV.incoming(False).with_(subquery=Const(False), with_alias=Const(False)))
            texts = flatten(whole)
            if len(texts) != 1:
                raise AnalysisError(f"unsupported construct: _SetOperation.get_sql does not fold on (limit, offset) presence: {len(texts)} alternatives")
            m_ = _re.search(r" (LIMIT|OFFSET|FETCH) ", texts[0])
            got = texts[0][m_.start():].rstrip(")") if m_ else ""
            consults = "ctx.dialect" in show(whole, -30)
        for dialect in ("generic", "MYSQL", "SQLITE", "POSTGRESQL", "ORACLE", "MSSQL"):
            want = REF[dialect][(lim, off)]
            if want is not None:
                want = want.format(ob="")
            ok = consults or (want is not None and got == want)
            cells += 1
            run.ob("C09 set-operation pagination matches the base query's dialect grammar", f"_SetOperation[{dialect}]:limit={lim},offset={off}", ok, detail=f"got {got!r} want {want!r}")
            if not ok:
                run.finding(f"C09/setop-grammar:{dialect}:limit={'set' if lim else 'absent'},offset={'set' if off else 'absent'}",
                            f"_SetOperation renders {got!r} whatever the dialect of its base query; {dialect} requires {want!r}", where=(so.resolve('_limit_sql') or so.resolve('get_sql')).loc(), rule="cell grammar")
    # order inside _SetOperation.get_sql: limit then offset
    run.analysed = {"cells": cells, "builder_classes": len(BUILDER_CLASSES)}
    if cells < 60:
        raise AnalysisError(f"instance count below floor: cells {cells}")
    _setters(program, run)

    # ---- the mechanism keeps no state between renderings (shared rule, see families.inherit_history_dependence)
    from ..families import inherit_history_dependence
    run.rule("history: no function of this property's mechanism writes object / class / parameterizer state while rendering or memoises on a copied object (inherited from C02 and C01)")
    inherit_history_dependence(program, run, "C09", r"^Parameterizer\.|\._(limit|offset)_sql|\._apply_pagination|^ValueWrapper\.get_sql", "a limit / offset value reached twice in one parameterised statement is not recorded for each placeholder it prints")

def _setters(program: Program, run: Run) -> None:
    want = {"limit": {"_limit": "limit"}, "offset": {"_offset": "offset"}, "fetch_next": {"_limit": "limit"},
            "slice": {"_offset": "slice.start", "_limit": "slice.stop"}}
    n = 0
    for c in program.all_classes():
        for name, mapping in want.items():
            f = c.methods.get(name)
            if f is None or not f.is_builder:
                continue
            f = inlined(program, f)     # a wrapping helper (`_row_count(self, limit)`) is read through
            n += 1
            got = {}
            reads = set()
            # single-assignment locals are names for their right-hand side (start, stop = slice.start, slice.stop)
            alias: dict[str, str] = {}
            stores_: dict[str, int] = {}
            for node in ast.walk(f.node):
                if isinstance(node, ast.Name) and isinstance(node.ctx, ast.Store):
                    stores_[node.id] = stores_.get(node.id, 0) + 1
            for node in ast.walk(f.node):
                if isinstance(node, ast.Assign) and len(node.targets) == 1:
                    t0, v0 = node.targets[0], node.value
                    pairs = [(t0, v0)] if isinstance(t0, ast.Name) else (
                        list(zip(t0.elts, v0.elts)) if isinstance(t0, ast.Tuple) and isinstance(v0, ast.Tuple) and len(t0.elts) == len(v0.elts) else [])
                    for tn, vn in pairs:
                        if isinstance(tn, ast.Name) and stores_.get(tn.id) == 1 and isinstance(vn, (ast.Name, ast.Attribute)):
                            alias[tn.id] = ast.unparse(vn)
                elif isinstance(node, ast.NamedExpr) and isinstance(node.target, ast.Name) and stores_.get(node.target.id) == 1 and isinstance(node.value, (ast.Name, ast.Attribute)):
                    alias[node.target.id] = ast.unparse(node.value)      # `if (start := slice.start) is not None:`

            def src_text(x) -> str:
                return alias.get(x.id, x.id) if isinstance(x, ast.Name) else ast.unparse(x)
            for node in ast.walk(f.node):
                if isinstance(node, ast.Assign):
                    for t in node.targets:
                        if isinstance(t, ast.Attribute) and isinstance(t.value, ast.Name) and t.value.id == f.params[0]:
                            srcs = {src_text(x) for x in ast.walk(node.value) if isinstance(x, (ast.Name, ast.Attribute))}
                            got[t.attr] = srcs
                if isinstance(node, ast.Attribute) and isinstance(node.ctx, ast.Load) and isinstance(node.value, ast.Name) and node.value.id == f.params[0] \
                        and node.attr in ("_limit", "_offset", "_top", "_orderbys"):
                    reads.add(node.attr)
            # zero is a value: a guard around the store may test the argument for None, not for truthiness
            def guards_of(stmts, stack, out):
                for st in stmts:
                    if isinstance(st, ast.If):
                        guards_of(st.body, stack + [st.test], out)
                        guards_of(st.orelse, stack + [st.test], out)
                    elif isinstance(st, ast.Assign):
                        for t in st.targets:
                            if isinstance(t, ast.Attribute) and isinstance(t.value, ast.Name) and t.value.id == f.params[0] and t.attr in mapping:
                                out.append((t.attr, list(stack), st))
                        if isinstance(st.value, ast.IfExp):
                            for t in st.targets:
                                if isinstance(t, ast.Attribute) and t.attr in mapping:
                                    out.append((t.attr, list(stack) + [st.value.test], st))
                    elif isinstance(st, (ast.For, ast.While, ast.With, ast.Try)):
                        guards_of(getattr(st, "body", []), stack, out)

            def truthiness_of(test, src):
                """sub-tests that use `src` as a truth value"""
                bad = []
                def rec(t):
                    if isinstance(t, ast.BoolOp):
                        for v_ in t.values:
                            rec(v_)
                    elif isinstance(t, ast.UnaryOp) and isinstance(t.op, ast.Not):
                        rec(t.operand)
                    elif isinstance(t, (ast.Name, ast.Attribute)) and src_text(t) == src:
                        bad.append(ast.unparse(t))
                    elif isinstance(t, ast.Compare) and isinstance(t.left, (ast.Name, ast.Attribute)) and src_text(t.left) == src and len(t.ops) == 1 and isinstance(t.ops[0], (ast.Gt, ast.NotEq, ast.Lt, ast.GtE)) \
                            and isinstance(t.comparators[0], ast.Constant) and t.comparators[0].value == 0:
                        bad.append(ast.unparse(t))
                rec(test)
                return bad
            gl = []
            guards_of(f.node.body, [], gl)
            for attr_, stack_, st_ in gl:
                badg = [b for g_ in stack_ for b in truthiness_of(g_, mapping[attr_])]
                run.ob("C09 setter stores a zero like any other value (argument tested for None only)", f"{c.qualname}.{name}:{attr_}", not badg,
                       detail="; ".join(ast.unparse(g_)[:50] for g_ in stack_), where=f.loc(st_))
                if badg:
                    run.finding(f"C09/setter-drops-zero:{c.qualname}.{name}:{attr_}",
                                f"{c.qualname}.{name} stores {attr_} only when `{badg[0]}` is truthy: a 0 is skipped, so an offset/limit recorded by an earlier call stays in force "
                                f"(q.offset(20)[0:5] keeps OFFSET 20) although 0 was requested", where=f.loc(st_), rule="setters")
            # the slots the method is named for come from its own argument; a further row-count slot may be written as well
            # (`limit(n, offset=m)`) when it comes from the parameter named after it; other attributes are not this rule's
            rowslots = {"_limit", "_offset"}
            extra_slots = (set(got) & rowslots) - set(mapping)
            ok = (set(mapping) <= set(got) and all(mapping[a] in got[a] for a in mapping) and not reads
                  and all(e.lstrip("_") in got[e] and e.lstrip("_") in f.params for e in extra_slots))
            wraps = all(any("wrap_constant" in s for s in got.get(a, ())) for a in set(mapping) | extra_slots)
            run.ob("C09 setter writes its own slot from its own argument, wrapped", f"{c.qualname}.{name}", ok and wraps,
                   detail=f"writes={ {k: sorted(v)[:4] for k, v in got.items()} } reads={sorted(reads)}", where=f.loc())
            if not (ok and wraps):
                run.finding(f"C09/setter:{c.qualname}.{name}", f"{c.qualname}.{name} does not map its argument to the matching slot as a wrapped constant (writes {sorted(got)}, reads {sorted(reads)})", where=f.loc(), rule="setters")
    # any other builder method that fills a row-count slot (a page helper, a dialect's own spelling): the same "zero is a
    # value" rule, decided on the names the stored value is computed from
    SLOTS = ("_limit", "_offset")
    extra = 0
    for c in program.all_classes():
        for name, f0 in c.methods.items():
            if not f0.is_builder or name in want:
                continue
            f = inlined(program, f0, c)
            sn = f.params[0] if f.params else None
            if sn is None:
                continue
            found = []

            def walk_(stmts, stack):
                for st in stmts:
                    if isinstance(st, ast.If):
                        walk_(st.body, stack + [(st.test, True)])
                        walk_(st.orelse, stack + [(st.test, False)])
                    elif isinstance(st, ast.Assign):
                        for t in st.targets:
                            if isinstance(t, ast.Attribute) and isinstance(t.value, ast.Name) and t.value.id == sn and t.attr in SLOTS:
                                found.append((t.attr, list(stack), st))
                    elif isinstance(st, (ast.For, ast.While, ast.With, ast.Try)):
                        walk_(getattr(st, "body", []), stack)
            walk_(f.node.body, [])
            for attr_, stack_, st_ in found:
                if isinstance(st_.value, ast.Constant):
                    continue       # a reset (None), not a value
                extra += 1
                names = {x.id for x in ast.walk(st_.value) if isinstance(x, ast.Name)} - {sn, "cast", "ValueWrapper"}
                badg = []
                for test, pos in stack_:
                    for t in ([test] + (list(test.values) if isinstance(test, ast.BoolOp) else [])):
                        if isinstance(t, ast.UnaryOp) and isinstance(t.op, ast.Not):
                            t, p_ = t.operand, not pos
                        else:
                            p_ = pos
                        if isinstance(t, ast.Name) and t.id in names and p_:
                            badg.append(ast.unparse(test))
                        elif (isinstance(t, ast.Compare) and isinstance(t.left, ast.Name) and t.left.id in names and len(t.ops) == 1 and p_
                              and isinstance(t.ops[0], (ast.Gt, ast.NotEq)) and isinstance(t.comparators[0], ast.Constant) and t.comparators[0].value == 0):
                            badg.append(ast.unparse(test))
                run.ob("C09 setter stores a zero like any other value (argument tested for None only)", f"{c.qualname}.{name}:{attr_}", not badg,
                       detail="; ".join(ast.unparse(g_)[:50] for g_, _p in stack_), where=f.loc(st_))
                if badg:
                    run.finding(f"C09/setter-drops-zero:{c.qualname}.{name}:{attr_}",
                                f"{c.qualname}.{name} stores {attr_} only when `{badg[0]}` holds: a 0 is skipped, so an offset/limit recorded by an earlier call stays in force "
                                f"although 0 was requested", where=f.loc(st_), rule="setters")
    run.analysed["other_row_count_stores"] = extra
    # __getitem__ forwards slices to slice()
    if n < 5:
        raise AnalysisError(f"instance count below floor: pagination setters {n}")

    # ---- inherited from C04: "the limit and offset values occupy the matching slots ... in the parameter list" -- the
    # parameter list is filled in evaluation order, so the pagination slots must be evaluated in the order they are printed
    from . import c04
    sub = Run("C04", run.tier)
    c04.check(program, sub)
    PAG = ("_limit", "_offset", "_top")
    npag = 0
    for o in sub.obligations:
        if o.rule.startswith("C04/R2 evaluation order") and (o.subject.endswith("QueryBuilder") or o.subject == "_SetOperation"):
            npag += 1
            run.ob("C09 (inherited from C04) pagination values enter the parameter list in the order their placeholders are printed", o.subject, o.ok, o.detail, o.where)
    for fd in sub.findings:
        if not fd.info and fd.key.startswith("C04/eval-order:") and any(a in fd.key for a in PAG):
            run.finding("C09/param-slot-order:" + fd.key.split(":", 1)[1], "limit/offset values land in each other's parameter slots: " + fd.what, where=fd.where, rule="inherited from C04 (evaluation order)")
    run.analysed["pagination_order_obligations"] = npag
    if npag < 6:
        raise AnalysisError(f"instance count below floor: statement classes with evaluation-order obligations {npag}")

    # ---- inherited from C13/R1: the position of the row-limiting keywords among the other clause keywords (T-SQL:
    # SELECT [DISTINCT] [TOP (n)] ...; everywhere: ... ORDER BY ... LIMIT/OFFSET/FETCH at the end)
    from . import c13
    sub13 = Run("C13", run.tier)
    c13.check(program, sub13)
    ROWLIM = ("TOP", "LIMIT", "OFFSET", "FETCH")
    for fd in sub13.findings:
        if not fd.info and fd.key.startswith(("C13/clause-order:", "C13/clause-repeated:")) and any(k in fd.key.rsplit(":", 1)[1] for k in ROWLIM):
            run.finding("C09/keyword-position:" + fd.key.split(":", 1)[1], "the row-limiting keyword is not where the dialect's grammar puts it: " + fd.what, where=fd.where, rule="inherited from C13/R1")
    n13 = sum(1 for o in sub13.obligations if o.rule.startswith("C13/R1"))
    run.ob("C09 (inherited from C13/R1) row-limiting keywords are in grammatical position", "statement skeletons", not any(
        fd.key.startswith(("C13/clause-order:", "C13/clause-repeated:")) and any(k in fd.key.rsplit(":", 1)[1] for k in ROWLIM) for fd in sub13.findings if not fd.info),
        detail=f"{n13} clause-order obligations of C13 consulted")
