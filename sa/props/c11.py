"""C11 -- column references are qualified exactly when needed and always by the right name (DESIGN 2/C11)."""
from __future__ import annotations

import ast
import itertools

from ..inline import inlined
from ..model import AnalysisError, Program
from ..report import Run
from ..skel import BUILDER_CLASSES, kind_states, recv_path, render, render_sites, root_attr
from ..symex import Const, CtxV, Hole, Inh, InhOr, ListV, Lit, Obj, One, SlotP, Str, Sym, show, walk_parts
from .c06 import paths


def method_as_value_sites(program: Program):
    """attribute reads `x.m` (not called) in a truth-value / comparison position where `m` names only methods in the
    package (never a data attribute): a bound method is always truthy and never equal to data"""
    data_attrs = set()
    method_names = {}
    for c in program.all_classes():
        for a, kinds in program.attr_kinds(c).items():
            data_attrs.add(a)
        for n, f in c.methods.items():
            if not f.is_property:
                method_names.setdefault(n, f)
    only_methods = {n for n in method_names if n not in data_attrs and not n.startswith("__")}
    out = []
    for f in program.all_functions():
        parents = {}
        for n in ast.walk(f.node):
            for ch in ast.iter_child_nodes(n):
                parents[ch] = n
        for n in ast.walk(f.node):
            if not (isinstance(n, ast.Attribute) and isinstance(n.ctx, ast.Load) and n.attr in only_methods):
                continue
            par = parents.get(n)
            if isinstance(par, ast.Call) and par.func is n:
                continue
            if isinstance(par, ast.Attribute):
                continue   # x.m.something
            ctx_kind = None
            if isinstance(par, ast.BoolOp):
                ctx_kind = "boolean operand"
            elif isinstance(par, ast.UnaryOp) and isinstance(par.op, ast.Not):
                ctx_kind = "not operand"
            elif isinstance(par, (ast.If, ast.IfExp, ast.While)) and par.test is n:
                ctx_kind = "test"
            elif isinstance(par, ast.Compare):
                ctx_kind = "comparison operand"
            if ctx_kind:
                out.append((f, n, ctx_kind))
    return out


def _owning_method(program: Program, f) -> str:
    """qualified name of f, or -- for a module-level function called from exactly one function -- of that caller
    (followed upwards while it stays unique)"""
    cur = f
    for _ in range(6):
        if cur.cls is not None:
            break
        callers = []
        for g in program.all_functions():
            if g is cur:
                continue
            for n in ast.walk(g.node):
                if isinstance(n, ast.Call) and isinstance(n.func, ast.Name) and n.func.id == cur.name:
                    r = program.resolve_global(g.module, n.func.id)
                    if r and r[0] == "func" and r[1] is cur and g not in callers:
                        callers.append(g)
        if len(callers) != 1:
            break
        cur = callers[0]
    return cur.qualname



def _builds_an_object(program, f, c=None):
    """None if the comparison method answers with a truth value on every path (delegations to an inherited __eq__
    followed); else a description of what it builds"""
    from .c17 import _non_bool_return
    return _non_bool_return(program, c or f.cls, f, set())


def check(program: Program, run: Run) -> None:
    run.explanation = (
        "The namespace decision is tabulated exhaustively for the three copies (QueryBuilder, PostgreSQL, SQLite get_sql) over "
        "all source shapes (joins x FROM shape x foreign-table flag x UPDATE target) by symbolic evaluation with concrete "
        "shapes, and compared with the disjunction the property states (R1); the qualifier emitted by Field and Star is "
        "tabulated over (with_namespace, table alias, table present) and the two renderers must agree (R2); positions that must "
        "stay bare receive with_namespace=False or table-less fields (R3); bound methods used as truth values or comparison "
        "operands are flagged package-wide (R4). Engine-side name resolution is not decided.")
    run.rule("R1 with_namespace == joins or >1 FROM items or subquery FROM or foreign-table flag or (UPDATE and FROM), identical in the three copies")
    run.rule("R2 qualifier emitted iff table and (with_namespace or alias); text = alias else table name; Field and Star agree")
    run.rule("R3 INSERT column list, SET targets, ON CONFLICT/ON DUPLICATE update targets: with_namespace Const False; USING fields built without a table")
    run.rule("R4 a name that only ever denotes methods is never used un-called as a truth value or comparison operand")
    run.rule("R8 every column-bearing clause slot of a DML statement is rendered under the statement's own with_namespace decision, never the incoming flag")
    run.rule("R7 (inherited from C13/R5,R6) the foreign-table flag is written monotonically: no builder call assigns it from its own argument alone")
    run.rule("R6 (inherited from C17/R3) every rendered child is traversed by nodes_(): the foreign-table flag is computed from fields_(), which sees only what nodes_() yields")
    run.rule("R5 the foreign-table decision (_validate_table) identifies row sources by whole-object equality/membership over _from, _update_table and the joined items, never by a projection (name only) of the source")
    run.exhaustive = True
    tbl, qbc = program.cls("Table"), program.cls("QueryBuilder")
    kinds = kind_states(program)
    T = lambda n: Obj(tbl, {"alias": Const(None)}, n)  # noqa: E731
    from_shapes = {"none": ListV((), "list"), "one table": ListV((One(T("t0")),), "list"),
                   "two tables": ListV((One(T("t0")), One(T("t1"))), "list"), "subquery": ListV((One(Obj(qbc, {}, "sq")),), "list")}
    copies = [bn for bn in ("QueryBuilder", "PostgreSQLQueryBuilder", "SQLLiteQueryBuilder")]
    tables = {}
    cells = 0
    for bn in copies:
        bc = program.cls(bn)
        tab = {}
        for joins, (fname, fval), foreign, upd in itertools.product((0, 1), from_shapes.items(), (0, 1), (0, 1)):
            attrs = dict(kinds["UPDATE" if upd else "SELECT"])
            attrs.update({"_joins": ListV((One(Obj(program.cls("JoinOn"), {}, "join0")),), "list") if joins else ListV((), "list"), "_from": fval,
                          "_foreign_table": Const(bool(foreign))})
            sk, _ = render(program, bc, attrs=attrs, ctx=CtxV.incoming(False))
            want_attr = "_updates" if upd else "_selects"
            val = None
            for part, conds, in_rep in walk_parts(sk):
                if isinstance(part, SlotP) and isinstance(part.ctx, CtxV) and root_attr(recv_path(part.recv)) == want_attr:
                    v = part.ctx.fields["with_namespace"]
                    if recv_path(part.recv).endswith("[0]") and upd:
                        continue   # SET target is forced bare (R3)
                    val = v
                    break
            if val is None:
                raise AnalysisError(f"anchor vanished: no {want_attr} slot in {bn}.get_sql skeleton")
            cells += 1
            state = f"joins={joins},from={fname},foreign={foreign},update={upd}"
            expected = bool(joins or fname in ("two tables", "subquery") or foreign or (upd and fname != "none"))
            ev_ok = isinstance(val, Const)
            got = bool(val.value) if ev_ok else None
            tab[state] = got
            run.ob("C11/R1 namespace decision equals the disjunction of source shapes", f"{bn}:{state}", ev_ok and got == expected,
                   detail=f"got {show(val)[:60]} expected {expected}")
            if not ev_ok:
                run.finding(f"C11/namespace-undetermined:{bn}:{state}", f"{bn}.get_sql: with_namespace does not fold for {state}: {show(val)[:80]}", rule="R1")
            elif got != expected:
                run.finding(f"C11/namespace-decision:{bn}:{state}", f"{bn}.get_sql computes with_namespace={got} for {state}; more than one row source in scope requires {expected}", where=bc.resolve('get_sql').loc(), rule="R1")
        tables[bn] = tab
    base = tables[copies[0]]
    for bn in copies[1:]:
        same = tables[bn] == base
        run.ob("C11/R1 copies of the namespace decision agree", f"{bn} vs {copies[0]}", same)
    run.analysed = {"namespace_cells": cells}

    # ---- R2
    results = {}
    for cn in ("Field", "Star"):
        c = program.cls(cn)
        for ns, alias, has_table in itertools.product((False, True), (None, "AL"), (True, False)):
            table = Obj(tbl, {"alias": Const(alias), "_table_name": Const("TN")}, "table") if has_table else Const(None)
            attrs = {"table": table, "alias": Const(None)}
            if cn == "Field":
                attrs["name"] = Const("col")
            sk, _ = render(program, c, attrs=attrs, ctx=CtxV.incoming(False).with_(with_namespace=Const(ns), with_alias=Const(False),
                                                                                   quote_char=Const('"')))
            alts = set()
            for flat in paths(sk):
                s = ""
                for p in flat:
                    s += p.text if isinstance(p, Lit) else ("{" + show(getattr(p, "value", p))[:30] + "}")
                alts.add(s)
            txt = "|".join(sorted(alts))
            col = '"col"' if cn == "Field" else "*"
            if has_table and (ns or alias):
                want = f'"{alias or "TN"}".{col}'
            else:
                want = col
            ok = txt == want
            results[(cn, ns, alias, has_table)] = txt
            run.ob("C11/R2 qualifier emitted iff needed, by alias else table name", f"{cn}:with_namespace={ns},alias={alias},table={has_table}", ok, detail=f"got {txt!r} want {want!r}")
            if not ok:
                run.finding(f"C11/qualifier:{cn}:with_namespace={ns},alias={alias},table={has_table}", f"{cn}.get_sql renders {txt!r}; expected {want!r}", where=c.resolve('get_sql').loc(), rule="R2")

    # ---- R3
    sites = render_sites(program)
    bare = {"_columns": "INSERT column list", "_updates[][0]": "SET target", "_on_conflict_do_updates[][0]": "ON CONFLICT / ON DUPLICATE KEY update target"}
    found = set()
    for s in sites:
        if not isinstance(s["ctx"], CtxV):
            continue
        for k, label in bare.items():
            hit = (s["recv"] == k) or (k == "_columns" and root_attr(s["recv"]) == "_columns" and s["func"].rsplit(".", 1)[0] in BUILDER_CLASSES)
            if not hit:
                continue
            found.add(k)
            v = s["ctx"].fields["with_namespace"]
            ok = v == Const(False)
            run.ob("C11/R3 position that must stay bare gets with_namespace=False", f"{s['func']}:{s['recv']}", ok, detail=show(v)[:60], where=f"{s['file']}:{s['line']}")
            if not ok:
                run.finding(f"C11/bare-position:{s['func']}:{s['recv']}", f"{s['func']} renders the {label} with with_namespace={show(v)[:40]}: the column is written qualified where the grammar wants a bare name",
                            where=f"{s['file']}:{s['line']}", rule="R3")
    for k in bare:
        if k not in found:
            raise AnalysisError(f"anchor vanished: no render site for {k}")
    joiner = program.cls("Joiner")
    using = joiner.methods.get("using")
    if using is None:
        raise AnalysisError("anchor vanished: Joiner.using")
    ok = True
    for n in ast.walk(using.node):
        if isinstance(n, ast.Call) and isinstance(n.func, ast.Name) and n.func.id == "Field":
            if len(n.args) > 2 or any(k.arg == "table" for k in n.keywords):
                ok = False
    run.ob("C11/R3 USING columns are built without a table", "Joiner.using", ok, where=using.loc())
    if not ok:
        run.finding("C11/bare-position:Joiner.using:fields", "Joiner.using builds its fields with a table: USING (...) columns would be qualified", where=using.loc(), rule="R3")

    # ---- R4
    ms = method_as_value_sites(program)
    run.analysed["method_as_value_sites"] = len(ms)
    for f, n, kind in ms:
        src = ast.unparse(n)
        # the finding is named by the method the test belongs to (a module-level helper with one calling method is part
        # of that method) and by the attribute path with a local root written `*`, so that moving the test into a
        # helper or renaming a loop variable does not make it a different finding
        owner = _owning_method(program, f)
        root = n
        while isinstance(root, ast.Attribute):
            root = root.value
        path = src
        if isinstance(root, ast.Name) and not (f.params and root.id == f.params[0] and f.cls is not None):
            path = "*" + src[len(root.id):]
        run.ob("C11/R4 bound method not used as a truth value / comparison operand", f"{f.qualname}:{src}", False, detail=kind, where=f.loc(n))
        run.finding(f"C11/method-as-bool:{owner}:{path}", f"{f.qualname} uses `{src}` as a {kind}, but `{n.attr}` only ever names a method: a bound method is always truthy and never equals data (a data attribute such as `_{n.attr.rstrip('_')}` was probably meant)",
                    where=f.loc(n), rule="R4", excerpt=f.module.excerpt(n.lineno, 1))
    run.ob("C11/R4 lint evaluated over all functions", "package", True, detail=f"{len(program.all_functions())} functions scanned", nontrivial=False)

    # ---- R5: `emp` and `emp AS e2` are different row sources (Table.__eq__ compares name, schema and alias); a test on a
    # projection of the referenced table (its name alone) accepts a foreign table as local and the reference stays bare.
    nsites = 0
    for c in [program.cls(b) for b in BUILDER_CLASSES]:
        f = c.methods.get("_validate_table")
        if f is None:
            continue
        f = inlined(program, f)     # the per-field test may live in a private helper
        selfn = f.params[0]
        # names bound to `<field>.table`
        tnames = set()
        for n in ast.walk(f.node):
            if isinstance(n, ast.Assign) and isinstance(n.value, ast.Attribute) and n.value.attr == "table":
                for t in n.targets:
                    if isinstance(t, ast.Name):
                        tnames.add(t.id)
            elif isinstance(n, ast.NamedExpr) and isinstance(n.value, ast.Attribute) and n.value.attr == "table" and isinstance(n.target, ast.Name):
                tnames.add(n.target.id)

        def is_table_expr(x):
            return (isinstance(x, ast.Attribute) and x.attr == "table" and not (isinstance(x.value, ast.Name) and x.value.id == selfn)) or (
                isinstance(x, ast.Name) and x.id in tnames)
        whole = proj = 0
        for n in ast.walk(f.node):
            if not isinstance(n, ast.Compare):
                continue
            for opnd in [n.left] + list(n.comparators):
                if is_table_expr(opnd):
                    whole += 1
                for sub in ast.walk(opnd):
                    if isinstance(sub, ast.Attribute) and is_table_expr(sub.value):
                        proj += 1
                        run.finding(f"C11/source-identity-by-projection:{f.qualname}:{sub.attr}",
                                    f"{f.qualname} decides whether a referenced table is one of the statement's own sources by comparing `{ast.unparse(sub)}` (a projection of the table) instead of the table itself: "
                                    "a same-named source under another alias is taken for local, the foreign-table flag stays off and the reference is written unqualified", where=f.loc(n), rule="R5")
        # which sources of the criterion are looked at: `.table` of every entry of <criterion>.fields_() reaches every kind of
        # row source (table, subquery, set operation, CTE reference); a type-filtered search (tables_ = find_(Table)) does not
        params = [a for a in f.params[1:]]
        enum_ok = enum_partial = None
        for n in ast.walk(f.node):
            if isinstance(n, ast.Attribute) and isinstance(n.value, ast.Name) and n.value.id in params:
                if n.attr in ("fields_", "nodes_"):
                    enum_ok = n.attr
                else:
                    tgt = program.cls("Term").resolve(n.attr)
                    filt = None
                    if tgt is not None:
                        for m in ast.walk(tgt.node):
                            if isinstance(m, ast.Call) and isinstance(m.func, ast.Attribute) and m.func.attr == "find_" and m.args and isinstance(m.args[0], ast.Name):
                                filt = m.args[0].id
                    if n.attr == "find_":
                        filt = "?"
                    if filt is None:
                        raise AnalysisError(f"unsupported construct: {f.qualname} enumerates the criterion through `.{n.attr}`, which is not understood")
                    enum_partial = (n.attr, filt)
        if enum_partial is not None:
            run.ob("C11/R5 every source referenced by the criterion is examined", f.qualname, False, detail=f".{enum_partial[0]} -> find_({enum_partial[1]})", where=f.loc())
            run.finding(f"C11/referenced-sources-partial:{f.qualname}:{enum_partial[0]}",
                        f"{f.qualname} collects the criterion's sources with `.{enum_partial[0]}` (a search filtered to {enum_partial[1]} objects) instead of the `.table` of every field: a reference to an "
                        "outer subquery, set operation or CTE is not seen, the foreign-table flag stays off and the statement's own columns are written bare", where=f.loc(), rule="R5")
        elif enum_ok is not None:
            run.ob("C11/R5 every source referenced by the criterion is examined", f.qualname, True, detail=f".{enum_ok}()", where=f.loc())
        # the set form (referenced <= known, referenced - known) compares whole objects as well
        for n in ast.walk(f.node):
            if (isinstance(n, ast.Compare) and isinstance(n.ops[0], (ast.LtE, ast.GtE))) or (isinstance(n, ast.BinOp) and isinstance(n.op, ast.Sub)) or (
                    isinstance(n, ast.Call) and isinstance(n.func, ast.Attribute) and n.func.attr in ("issubset", "issuperset", "difference")):
                whole += 2
        nsites += whole
        reads = {n.attr for n in ast.walk(f.node) if isinstance(n, ast.Attribute) and isinstance(n.value, ast.Name) and n.value.id == selfn}
        for need in ("_from", "_update_table", "_joins"):
            ok = need in reads
            run.ob("C11/R5 foreign-table decision consults every row source", f"{f.qualname}:{need}", ok, where=f.loc())
            if not ok:
                run.finding(f"C11/source-missing:{f.qualname}:{need}", f"{f.qualname} does not consult {need}: references to sources introduced there are taken for foreign (or the reverse)", where=f.loc(), rule="R5")
        run.ob("C11/R5 sources compared as whole objects", f.qualname, proj == 0 and whole >= 2, detail=f"{whole} whole-object tests, {proj} projections", where=f.loc())
    if nsites < 2:
        raise AnalysisError(f"anchor vanished: _validate_table whole-object source tests {nsites}")
    # R5b: `table in <sources>` asks the list ELEMENT for equality first (list.__contains__ evaluates element == table), so
    # the whole-object test is only a membership test if == of every kind of row source answers with a truth value.  A row
    # source that is also a Term and inherits the criterion-building Term.__eq__ answers with a (truthy) criterion object:
    # every table is then "one of the statement's own sources" and the foreign-table flag never comes on
    sel = program.cls("Selectable")
    nsrc = 0
    for c in sorted(program.all_classes(), key=lambda k: k.qualname):
        if not c.is_subclass_of(sel) or c is sel:
            continue
        eq = c.resolve("__eq__")
        nsrc += 1
        if eq is not None and any(b is not c and b is not sel and b.is_subclass_of(sel) and b.resolve("__eq__") is eq for b in c.mro):
            continue        # judged at the row-source class it inherits the method from
        if eq is None:
            run.ob("C11/R5b == of a row source answers with a truth value", c.qualname, True, detail="object identity", nontrivial=False)
            continue
        built = _builds_an_object(program, eq, c)
        run.ob("C11/R5b == of a row source answers with a truth value", c.qualname, built is None, detail=f"{eq.qualname}" + (f" {built}" if built else ""), where=eq.loc())
        if built is not None:
            run.finding(f"C11/source-equality-not-boolean:{c.qualname}",
                        f"a {c.qualname} can be a row source (FROM item, joined item), but its == ({eq.qualname}) {built} (always truthy): "
                        f"`table in sources` is true for every table once a {c.qualname} is among the sources, so a reference to an outer table never sets the foreign-table flag "
                        "and is written without its qualifier", where=eq.loc(), rule="R5")
    if nsrc < 3:
        raise AnalysisError(f"instance count below floor: row-source classes {nsrc}")

    # ---- R6: _validate_table looks at criterion.fields_(); a reference inside a child that nodes_() does not yield is
    # invisible to it, the foreign-table flag stays off and the statement's columns are written bare
    from . import c17
    sub = Run("C17", run.tier)
    c17.check(program, sub)
    n6 = 0
    for o in sub.obligations:
        if o.rule.startswith("C17/R3"):
            n6 += 1
            run.ob("C11/R6 (inherited from C17/R3) rendered child is visible to the foreign-table decision", o.subject, o.ok, o.detail, o.where)
    for fd in sub.findings:
        if not fd.info and fd.key.startswith("C17/not-traversed:"):
            run.finding("C11/foreign-reference-unseen:" + fd.key.split(":", 1)[1], "a reference to an outer table inside this child never sets the foreign-table flag, so the correlated statement is rendered unqualified: " + fd.what,
                        where=fd.where, rule="R6 (inherited from C17/R3)")
    if n6 < 60:
        raise AnalysisError(f"instance count below floor: traversal obligations {n6}")

    # ---- R8: the statement's own namespace decision reaches every clause that can hold a column reference.  A clause helper
    # called with the *incoming* context (`self._where_sql(outer_ctx)`) takes the decision of the statement this one is
    # embedded in -- none at top level -- and writes bare columns next to qualified ones.
    COLUMN_CLAUSES = {"_wheres", "_prewheres", "_havings", "_selects", "_groupbys", "_orderbys", "_joins", "_from"}
    n8 = 0
    seen8 = set()
    for st in render_sites(program):
        if not isinstance(st["ctx"], CtxV) or st["method"] != "get_sql":
            continue
        fcls = st["func"].rsplit(".", 1)[0]
        ra8 = root_attr(st["recv"])
        is_setop = fcls == "_SetOperation" and ra8 == "_orderbys"      # the operands re-decide for themselves
        if not is_setop and (not (fcls.endswith("QueryBuilder") and fcls in BUILDER_CLASSES) or ra8 not in COLUMN_CLAUSES):
            continue
        v8 = st["ctx"].fields["with_namespace"]
        chain8 = (getattr(st.get("part"), "src", None) or (None, None, None, ()))[3]
        entry8 = next((c_ for c_ in chain8 if c_.endswith(".get_sql")), st["func"])     # the statement renderer that passed the context down
        k8 = (entry8, st["func"], ra8, show(v8)[:40])
        if k8 in seen8:
            continue
        seen8.add(k8)
        n8 += 1
        inherited = isinstance(v8, (Inh, InhOr)) and v8.name == "with_namespace"
        run.ob("C11/R8 clause rendered under the statement's own namespace decision", f"{st['func']}:{st['recv']}", not inherited, detail=f"with_namespace={show(v8)[:60]}",
               where=f"{st['file']}:{st['line']}")
        if inherited and is_setop:
            # a set operation has no row sources of its own: its ORDER BY keys name output columns and its operands decide
            # for themselves; with the enclosing statement's flag they are written with a qualifier no source defines
            run.finding(f"C11/namespace-decision-inherited:{st['func']}:{ra8}",
                        f"{st['func']} renders `{st['recv']}` with the incoming ctx.with_namespace: embedded in a statement with joins / several sources the keys of the set operation are "
                        "written with a table qualifier although the set operation itself has a single, anonymous row source", where=f"{st['file']}:{st['line']}", rule="R8")
        elif inherited:
            run.finding(f"C11/namespace-decision-missed:{entry8}:{ra8}",
                        f"(reached from {entry8}) {st['func']} renders `{st['recv']}` with the incoming ctx.with_namespace instead of the statement's own decision on some path: with joins / several sources "
                        "the columns of that clause are written bare while the rest of the statement is qualified", where=f"{st['file']}:{st['line']}", rule="R8")
    if n8 < 8:
        raise AnalysisError(f"instance count below floor: statement clause sites {n8}")

    # ---- R7: the foreign-table flag is sticky.  where()/prewhere() are called repeatedly and in any order; a call that
    # assigns the flag from its own criterion alone clears what an earlier call recorded, and the statement loses its
    # qualification.  Decided by C13's write-form analysis (R5/R6) restricted to the anchored flag.
    from . import c13
    sub13 = Run("C13", run.tier)
    c13.check(program, sub13)
    n7 = 0
    for o in sub13.obligations:
        if o.rule.startswith("C13/R5") and o.subject.endswith(":_foreign_table"):
            n7 += 1
            run.ob("C11/R7 (inherited from C13/R5) the foreign-table flag is only ever switched on by a builder call", o.subject, o.ok, o.detail, o.where)
    for fd in sub13.findings:
        if fd.info:
            continue
        if fd.key.startswith("C13/overwrite-in-accumulating:") and fd.key.endswith(":_foreign_table"):
            run.finding("C11/foreign-flag-cleared:" + fd.key.split(":")[1], "the foreign-table flag recorded by an earlier call is overwritten, so a correlated statement is rendered unqualified: " + fd.what,
                        where=fd.where, rule="R7 (inherited from C13/R5)")
        elif fd.key.startswith("C13/last-call-wins:") and ":_foreign_table:" in fd.key:
            run.finding("C11/foreign-flag-cleared:" + fd.key.split(":")[-1], "the foreign-table flag recorded by one clause is overwritten by the other, so a correlated statement is rendered unqualified: " + fd.what,
                        where=fd.where, rule="R7 (inherited from C13/R6)")
    if n7 < 2:
        raise AnalysisError(f"anchor vanished: builder writes of the foreign-table flag {n7}")

    # ---- a memoised namespace decision is inherited by builders copied from a rendered one
    from ..families import memo_methods
    selc = program.cls("Selectable")
    for f7, deco in memo_methods(program):
        if f7.cls is not None and (f7.cls.is_subclass_of(selc) or f7.cls is selc):
            run.finding(f"C11/memo-inherited:{f7.qualname}", f"{f7.qualname} is a {deco}: the value computed when an ancestor was rendered (one source, no qualification needed) is inherited by every builder copied from it, "
                        "so a join / second FROM item added afterwards does not turn qualification on", where=f7.loc(), rule="R1")

    # ---- the mechanism keeps no state between renderings (shared rule, see families.inherit_history_dependence)
    from ..families import inherit_history_dependence
    run.rule("history: no function of this property's mechanism writes object / class / parameterizer state while rendering or memoises on a copied object (inherited from C02 and C01)")
    inherit_history_dependence(program, run, "C11", r"^Term\.(fields_|tables_|find_)|\._validate_table|^(Field|Star)\.get_sql", "the foreign-table decision reads a field set computed for an earlier version of the criterion")
