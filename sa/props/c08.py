"""C08 -- one dialect's conventions govern the whole statement tree (DESIGN 2/C08)."""
from __future__ import annotations

import ast

from ..families import is_observer
from ..model import AnalysisError, ClassInfo, Program
from ..report import Run
from ..skel import field_class, recv_path, render, render_sites, renderable_classes, root_attr, skeletons, node_child_formatted
from ..symex import (Alt, Const, CtxV, EnumV, Hole, Inh, InhOr, Lit, Obj, Phi, SlotP, Str, Sym, show, walk_parts,
                     s_lit)

DIALECT_FIELDS = ("dialect", "quote_char", "secondary_quote_char", "alias_quote_char", "as_keyword",
                  "groupby_alias", "orderby_alias", "parameterizer")
SELECT_STATE = {"_update_table": Const(None), "_insert_table": Const(None), "_delete_from": Const(False),
                "_selects": Sym("nonempty", ("_selects",)), "_select_into": Const(False), "_on_conflict": Const(False)}


def _root_self_attr(v):
    """attribute of the root object a value is read from (through elements / items), else None"""
    for _ in range(6):
        if isinstance(v, Sym) and v.kind == "attr" and isinstance(v.args[0], Obj) and v.args[0].root:
            return v.args[1]
        if isinstance(v, Sym) and v.kind in ("elem", "item") and v.args:
            v = v.args[0]
            continue
        return None
    return None


def node_attrs(program: Program, c: ClassInfo) -> set[str]:
    """attributes the class itself treats as Nodes: traversed by nodes_ or rewritten by replace_table"""
    out = set()
    for m in ("nodes_", "replace_table"):
        f = c.resolve(m)
        if f is None:
            continue
        selfname = f.params[0]
        for n in ast.walk(f.node):
            if isinstance(n, ast.Call) and isinstance(n.func, ast.Attribute) and n.func.attr in ("nodes_", "replace_table"):
                v = n.func.value
                if isinstance(v, ast.Attribute) and isinstance(v.value, ast.Name) and v.value.id == selfname:
                    out.add(v.attr)
                elif isinstance(v, ast.Name):
                    # loop / comprehension variable ranging over self.<attr>
                    for m2 in ast.walk(f.node):
                        it = tgt = None
                        if isinstance(m2, ast.For):
                            it, tgt = m2.iter, m2.target
                        elif isinstance(m2, ast.comprehension):
                            it, tgt = m2.iter, m2.target
                        if it is not None and any(isinstance(x, ast.Name) and x.id == v.id for x in ast.walk(tgt)) \
                                and isinstance(it, ast.Attribute) and isinstance(it.value, ast.Name) and it.value.id == selfname:
                            out.add(it.attr)
    # ... and attributes that a constructor fills from a parameter annotated with a package class that renders itself
    # (Schema._parent: Schema | None): such a child must be rendered with the context too, Node or not
    for k in c.mro:
        init = k.methods.get("__init__")
        if init is None or not init.params:
            continue
        sn = init.params[0]
        anns = {a.arg: a.annotation for a in init.node.args.posonlyargs + init.node.args.args + init.node.args.kwonlyargs if a.annotation is not None}
        for n in ast.walk(init.node):
            if isinstance(n, ast.Assign) and isinstance(n.value, ast.Name) and n.value.id in anns:
                for t in n.targets:
                    if isinstance(t, ast.Attribute) and isinstance(t.value, ast.Name) and t.value.id == sn:
                        names = {x.id for x in ast.walk(anns[n.value.id]) if isinstance(x, ast.Name)}
                        names |= {w for x in ast.walk(anns[n.value.id]) if isinstance(x, ast.Constant) and isinstance(x.value, str) for w in __import__("re").findall(r"[A-Za-z_]\w*", x.value)}
                        for nm in names:
                            kc = program.find_cls(nm)
                            if kc is not None and kc.resolve("get_sql") is not None:
                                out.add(t.attr)
    return out


def manufactured_attr(program: Program, v):
    """an attribute read <Obj self>.<a>.<name> whose declared class has a value-manufacturing __getattr__
    and does not define <name> -> (class, name) ; else None"""
    if not (isinstance(v, Sym) and v.kind == "attr"):
        return None
    base, name = v.args
    if isinstance(base, Sym) and base.kind == "attr" and isinstance(base.args[0], Obj):
        owner, attr = base.args[0].cls, base.args[1]
        decl = declared_class(program, owner, attr)
        if decl is None:
            return None
        if decl.resolve(name) is not None or decl.class_attr(name) is not None:
            return None
        kinds = {k for k in program.attr_kinds(decl).get(name, set()) if not k.startswith("class:")}
        if kinds:
            return None
        ga = decl.resolve("__getattr__")
        if ga is None and not any(s.resolve("__getattr__") for s in decl.all_subclasses()):
            return None
        return decl, name
    return None


def declared_class(program: Program, owner: ClassInfo, attr: str) -> ClassInfo | None:
    """class named by the annotation of the __init__ parameter stored into self.<attr>"""
    for k in owner.mro:
        f = k.methods.get("__init__")
        if f is None:
            continue
        for n in ast.walk(f.node):
            if isinstance(n, ast.Assign) and isinstance(n.value, ast.Name):
                for t in n.targets:
                    if isinstance(t, ast.Attribute) and t.attr == attr and isinstance(t.value, ast.Name) and t.value.id == f.params[0]:
                        for a in f.node.args.args + f.node.args.kwonlyargs:
                            if a.arg == n.value.id and a.annotation is not None:
                                return program.resolve_expr_class(f.module, a.annotation, None)
    return None


def literal_signature(v) -> str:
    parts = []
    for part, conds, in_rep in walk_parts(v):
        if isinstance(part, Lit):
            parts.append(part.text)
        elif isinstance(part, SlotP):
            parts.append("<" + recv_path(part.recv) + ">")
        elif isinstance(part, Hole):
            parts.append("{" + show(part.value)[:60] + "}")
    return "".join(parts)


def check(program: Program, run: Run) -> None:
    run.explanation = (
        "Context-flow analysis over the render skeletons of every renderable class: at each of the nested render call "
        "sites the abstract SqlContext passed down is compared field by field with the incoming one; dialect-bearing "
        "fields must be inherited (outermost `ctx or K.SQL_CONTEXT` default and a dialect builder's own constant override "
        "excepted); values formatted through str()/format instead of get_sql(ctx) and context fields read through a "
        "value-manufacturing __getattr__ are flagged; SqlContext.copy must forward every dataclass field (R1). "
        "Dialect behaviour selected by the class of the node instead of ctx.dialect is tabulated by comparing the "
        "skeleton of every dialect override with the generic method it replaces (R2). Nothing is executed.")
    run.rule("R1 dialect fields (dialect, quote chars, as_keyword, groupby/orderby_alias, parameterizer) are Inherit at every nested render site; no ctx bypass; SqlContext.copy forwards all fields")
    run.rule("R1c every convention field of every shipped dialect context reaches the operands of a top-level set operation (re-derived, forced by the builder, or equal to the default)")
    run.rule("R2 an override in a dialect class that changes the rendering of a construct the generic class can also produce (SELECT path, value literals, set-operand wrapping) requires the generic renderer to consult ctx.dialect")
    run.assumptions += ["class-hierarchy resolution; the six shipped SQL_CONTEXT records"]
    sites = render_sites(program)
    run.analysed = {"render_sites": len(sites), "renderable_classes": len(renderable_classes(program)),
                    "ctx_copy_sites": sum(1 for f in program.all_functions() for n in ast.walk(f.node)
                                          if isinstance(n, ast.Call) and isinstance(n.func, ast.Attribute) and n.func.attr == "copy"
                                          and isinstance(n.func.value, ast.Name) and n.func.value.id == "ctx")}
    if len(sites) < 100:
        raise AnalysisError(f"instance count below floor: render sites {len(sites)}")

    # ---- R1
    for s in sites:
        ctx = s["ctx"]
        where = f"{s['file']}:{s['line']}"
        subject = f"{s['func']}:{s['recv']}"
        if s["method"] not in ("get_sql", "get_name_sql", "get_parameterized_sql"):
            continue
        if not isinstance(ctx, CtxV):
            run.ob("C08/R1 nested render receives the context", subject, False, detail=f"ctx={show(ctx)}", where=where)
            run.finding(f"C08/ctx-bypass:{s['func']}:{s['recv']}", f"{s['func']} renders `{s['recv']}` without passing the SqlContext: the child falls back to its own default dialect", where=where, rule="R1")
            continue
        bad = []
        for k in DIALECT_FIELDS:
            v = ctx.fields[k]
            fc = field_class(v)
            if fc == "inherit":
                continue
            in_dialect_class = s["cls"].module.short.startswith("dialects.")
            if fc == "const" and in_dialect_class and k in ("groupby_alias", "orderby_alias", "as_keyword"):
                continue  # the dialect's own builder fixing its own policy flag for its own statement
            if k == "parameterizer" and v == ctx.fields.get("parameterizer") and isinstance(v, (Inh, InhOr)):
                continue
            bad.append((k, v))
        run.ob("C08/R1 dialect fields inherited at nested render site", subject, not bad,
               detail=", ".join(f"{k}={show(v)[:60]}" for k, v in bad), where=where)
        for k, v in bad:
            man = manufactured_attr(program, v)
            origin = s["cls"].qualname
            if man:
                run.finding(f"C08/ctx-manufactured:{origin}:{k}",
                            f"{s['func']} sets ctx.{k} from `{show(v)}` but {man[0].qualname} has no attribute '{man[1]}': its __getattr__ manufactures a Field, so every {k}-keyed rendering below ignores the real dialect",
                            where=where, rule="R1")
            else:
                run.finding(f"C08/ctx-rederive:{origin}:{k}",
                            f"{origin} (at {s['func']}) replaces ctx.{k} with `{show(v)[:80]}` instead of inheriting it: a node built with another (generic) class inside a dialect statement keeps its own convention",
                            where=where, rule="R1")
    # a context bound before a loop over operands / clauses and rebound inside it is seen, rebound, by every later
    # iteration: the flags (and conventions) an operand is rendered with then depend on the operands before it
    seen_carried = set()
    for c_, (skv_, ev_) in skeletons(program).items():
        for note in getattr(ev_, "notes", []):
            if note and note[0] == "ctx-loop-carried":
                src_, name_ = note[1], note[2]
                key_ = (src_[0] if src_ else c_.qualname, name_)
                if key_ in seen_carried:
                    continue
                seen_carried.add(key_)
                run.ob("C08 no rendering context is rebound inside the loop that consumes it", f"{key_[0]}:{name_}", False, where=f"{src_[2]}:{src_[1]}" if src_ else "")
                run.finding(f"C08/context-carried-between-iterations:{key_[0]}:{name_}",
                            f"{key_[0]} rebinds the context `{name_}` inside the loop that renders with it: an operand rendered after the rebinding gets the flags meant for an earlier one "
                            "(the same query renders differently depending on what precedes it)", where=f"{src_[2]}:{src_[1]}" if src_ else "", rule="R3")
    run.ob("C08 no rendering context is rebound inside the loop that consumes it", "all renderers", not seen_carried, detail=f"{len(seen_carried)} rebinding(s)")
    # str()/format bypass of Node-kinded attributes
    for c, (sk, ev) in skeletons(program).items():
        na = node_attrs(program, c)
        if not na:
            continue
        for part, conds, in_rep in walk_parts(sk):
            if isinstance(part, Hole) and isinstance(part.value, Sym) and _root_self_attr(part.value) in na:
                if any("<class Node>" in show(cd, -20) and "isinstance" in show(cd, -20) for cd in conds):
                    continue  # the formatting branch is taken only after an isinstance test excluded every Node
                # (excluding Term alone is not enough: Interval, Table, AliasedQuery and Cte render through get_sql(ctx) but are not Terms)
                if any("hasattr" in show(cd, -20) and "get_sql" in show(cd, -20) and show(cd, -20).startswith("not") for cd in conds):
                    continue  # str() only for objects without get_sql
                a = _root_self_attr(part.value)
                if not in_rep and not node_child_formatted(program, c, a):
                    continue  # decided exactly: with a Node of any kind in self.<a> the renderer goes through its get_sql(ctx)
                where = f"{part.src[2]}:{part.src[1]}" if part.src else ""
                run.ob("C08/R1 child node rendered through get_sql(ctx)", f"{c.qualname}:{a}", False, where=where)
                run.finding(f"C08/ctx-bypass:{part.src[0] if part.src else c.qualname}:{a}",
                            f"{c.qualname} formats its child node `{a}` with str()/format instead of get_sql(ctx): it is rendered in the default dialect and can never be parameterised",
                            where=where, rule="R1")
    # SqlContext.copy forwards every field
    ctxc = program.cls("SqlContext")
    fields = [n for n in ctxc.class_annos]
    cp = ctxc.methods.get("copy")
    if cp is None:
        raise AnalysisError("anchor vanished: SqlContext.copy")
    # decided by evaluating copy() itself: with every field of the receiver holding a distinct old value and one keyword
    # supplied, the new record must carry the supplied value in that field and the old value in every other one -- however
    # the method spells it (one `kwargs.get(...)` per field, a mapping built from dataclasses.fields() and merged, ...)
    from ..symex import DictV as _DictV, Evaluator as _Ev, Frame as _Frame
    ev_ = _Ev(program)
    old_ = {n: Sym("OLD", (n,)) for n in fields}
    for fld in fields:
        o_ = Obj(ctxc, dict(old_), "self", root=True)
        try:
            res = ev_.call_function(cp, ctxc, o_, [], {fld: Sym("NEW", (fld,))})
        except AnalysisError as e_:
            raise AnalysisError(f"unsupported construct: SqlContext.copy could not be evaluated ({str(e_)[:120]})")
        if not isinstance(res, CtxV):
            raise AnalysisError(f"unsupported construct: SqlContext.copy does not evaluate to a context record ({show(res)[:80]})")
        wrong = [k for k in fields if res.fields.get(k) != (Sym("NEW", (fld,)) if k == fld else old_[k])]
        ok = not wrong
        run.ob("C08/R1 SqlContext.copy forwards the field", f"SqlContext.{fld}", ok, detail=", ".join(f"{k}={show(res.fields.get(k))[:30]}" for k in wrong[:3]), where=cp.loc())
        if not ok:
            bad = wrong[0]
            run.finding(f"C08/copy-drops-field:SqlContext.{bad}", f"SqlContext.copy({fld}=...) yields {bad}={show(res.fields.get(bad))[:40]} instead of {'the supplied value' if bad == fld else 'the value of the receiver'}: "
                        "every derived context resets / ignores that field", where=cp.loc(), rule="R1")

    # ---- R1c entry contexts
    _entry_contexts(program, run)

    # ---- R2 class-keyed conventions
    _r2(program, run)

    # ---- the mechanism keeps no state between renderings (shared rule, see families.inherit_history_dependence)
    from ..families import inherit_history_dependence
    run.rule("history: no function of this property's mechanism writes object / class / parameterizer state while rendering or memoises on a copied object (inherited from C02 and C01)")
    inherit_history_dependence(program, run, "C08", r"^(Parameter|Interval|JSON)\.get_sql|^Parameterizer\.", "the dialect-dependent text of a term is fixed by the first context that rendered it")

CONVENTION_FIELDS = ("dialect", "quote_char", "secondary_quote_char", "alias_quote_char", "as_keyword", "groupby_alias", "orderby_alias")


def _entry_contexts(program: Program, run: Run) -> None:
    """R1c: a statement can also be entered through _SetOperation.__str__, which starts from the *default* context and
    re-derives only some fields from the operand's query class.  Every convention field in which a shipped dialect's
    SQL_CONTEXT (or the policy its builder forces) differs from what that entry path delivers is a convention the
    operands of a top-level set operation silently lose."""
    from .c07 import shipped_contexts
    ctxs = shipped_contexts(program)
    so = program.cls("_SetOperation")
    sk, _ = render(program, so, method="__str__")
    slot = None
    for part, conds, in_rep in walk_parts(sk):
        if isinstance(part, SlotP) and isinstance(part.ctx, CtxV) and root_attr(recv_path(part.recv)) == "base_query":
            slot = part
            break
    if slot is None:
        raise AnalysisError("anchor vanished: no base_query slot in _SetOperation.__str__ skeleton")

    def conv(v):
        return v.value if isinstance(v, Const) else (v.name if isinstance(v, EnumV) else None)

    n = 0
    for qn, rec in sorted(ctxs.items()):
        bname = qn + "Builder"
        if bname not in {c.qualname for c in program.all_classes()}:
            raise AnalysisError(f"anchor vanished: builder class for {qn}")
        bc = program.cls(bname)
        bsk, _ = render(program, bc)
        forced = {}
        for part, conds, in_rep in walk_parts(bsk):
            if isinstance(part, SlotP) and isinstance(part.ctx, CtxV):
                for k in CONVENTION_FIELDS:
                    forced.setdefault(k, set()).add(part.ctx.fields[k])
        force = {k: conv(next(iter(vs))) for k, vs in forced.items() if len(vs) == 1 and isinstance(next(iter(vs)), (Const, EnumV))}
        policy = {k: force.get(k, rec[k]) for k in CONVENTION_FIELDS}
        default_rec = ctxs.get("Query") or next(iter(ctxs.values()))

        def deliver(v):
            """value of a context-field expression at the operand slot of str(<set operation>)"""
            if isinstance(v, (Const, EnumV)):
                return conv(v)
            if isinstance(v, (Inh, InhOr)):
                return default_rec[v.name]          # str() starts from the default context
            if isinstance(v, Sym) and v.kind == "attr" and "QUERY_CLS.SQL_CONTEXT" in show(v) and v.args[1] in rec:
                return rec[v.args[1]]
            if isinstance(v, Sym) and v.kind == "op" and v.args and v.args[0] == "or":
                r = None
                for x in v.args[1:]:
                    r = deliver(x)
                    if r:
                        return r
                return r
            raise AnalysisError(f"unsupported construct: _SetOperation.__str__ delivers a context field computed as {show(v)[:80]}")
        delivered = {}
        for k in CONVENTION_FIELDS:
            delivered[k] = force[k] if k in force else deliver(slot.ctx.fields[k])
        # the alias delimiter actually written is `alias_quote_char or quote_char` (utils.format_alias_sql)
        for d in (policy, delivered):
            d["alias_quote_char"] = d["alias_quote_char"] or d["quote_char"]
        for k in CONVENTION_FIELDS:
            n += 1
            ok = policy[k] == delivered[k]
            run.ob("C08/R1c a top-level set operation delivers the dialect's convention to its operands", f"{qn}:{k}", ok,
                   detail=f"dialect policy {policy[k]!r}; delivered through _SetOperation.__str__ {delivered[k]!r}", where=f"{slot.src[2]}:{slot.src[1]}" if slot.src else "")
            if not ok:
                run.finding(f"C08/entry-context-drops:_SetOperation.__str__:{k}:{qn}",
                            f"{qn} sets ctx.{k}={policy[k]!r}, but str() of a set operation over {bname} starts from the default context, does not re-derive {k} from the operand's query class "
                            f"and {bname}.get_sql does not force it: the operands are rendered with {k}={delivered[k]!r}",
                            where=f"{slot.src[2]}:{slot.src[1]}" if slot.src else "", rule="R1c")
    run.analysed["entry_context_cells"] = n


def _init_consts(c: ClassInfo) -> dict:
    """attributes assigned to constants in c's own __init__ (dialect-only state at its initial value)"""
    out = {}
    f = c.methods.get("__init__")
    if f is None:
        return out
    for n in ast.walk(f.node):
        tv = None
        if isinstance(n, ast.Assign):
            tv = (n.targets, n.value)
        elif isinstance(n, ast.AnnAssign) and n.value is not None:
            tv = ([n.target], n.value)
        if tv is None:
            continue
        for t in tv[0]:
            if isinstance(t, ast.Attribute) and isinstance(t.value, ast.Name) and t.value.id == f.params[0]:
                v = tv[1]
                if isinstance(v, ast.Constant):
                    out[t.attr] = Const(v.value)
                elif isinstance(v, (ast.List, ast.Tuple)) and not v.elts:
                    from ..symex import ListV
                    out[t.attr] = ListV((), "list")
    return out


def _r2(program: Program, run: Run) -> None:
    qb = program.cls("QueryBuilder")
    # functions reached by a generic SELECT render
    sk, _ = render(program, qb, attrs=SELECT_STATE)
    reached = set()
    for part, conds, in_rep in walk_parts(sk):
        src = getattr(part, "src", ())
        if src:
            reached.add(src[0].rsplit(".", 1)[-1])
    reached |= {"_apply_pagination", "_limit_sql", "_offset_sql", "get_value_sql", "get_sql"}
    n = 0
    for d in program.all_classes():
        if not d.module.short.startswith("dialects."):
            continue
        generic = [k for k in d.mro[1:] if not k.module.short.startswith("dialects.")]
        if not generic:
            continue
        g = generic[0]
        for m, f in d.methods.items():
            if not is_observer(f) or f.is_builder:
                continue
            gf = g.resolve(m)
            if gf is None or m not in reached:
                continue
            if m == "get_sql" and d.is_subclass_of(qb):
                continue  # statement assembly: the clause helpers it calls are compared one by one
            attrs_d = dict(SELECT_STATE) if d.is_subclass_of(qb) else {}
            attrs_g = dict(attrs_d)
            attrs_d.update(_init_consts(d))
            extra = [s_lit("<QS>")] if "querystring" in f.params else []
            try:
                sd, _ = render(program, d, m, attrs=attrs_d, extra_args=list(extra), ctx=CtxV.incoming(False))
                sg, _ = render(program, g, m, attrs=attrs_g, extra_args=list(extra), ctx=CtxV.incoming(False))
            except AnalysisError:
                raise
            n += 1
            a, b = literal_signature(sd), literal_signature(sg)
            same = a == b
            consults = "ctx.dialect" in show(sg, -20)
            run.ob("C08/R2 dialect override leaves generic-expressible rendering unchanged (or generic consults ctx.dialect)",
                   f"{d.qualname}.{m} vs {gf.qualname}", same or consults, detail=f"dialect: {a[:120]!r} generic: {b[:120]!r}", where=f.loc())
            if not same and not consults:
                run.finding(f"C08/class-keyed:{gf.qualname}:{d.qualname}",
                            f"{d.qualname}.{m} renders {a[:90]!r} where the generic {gf.qualname} renders {b[:90]!r}; the generic method never looks at ctx.dialect, "
                            f"so a node of the generic class nested in a {d.qualname.replace('QueryBuilder', '').replace('ValueWrapper', '')} statement keeps the generic form",
                            where=f.loc(), rule="R2")
        # constructor-keyed conventions
        init = d.methods.get("__init__")
        if init is not None and d.is_subclass_of(qb):
            for node in ast.walk(init.node):
                if isinstance(node, ast.Call) and isinstance(node.func, ast.Attribute) and node.func.attr == "__init__":
                    for k in node.keywords:
                        if k.arg == "wrap_set_operation_queries" and isinstance(k.value, ast.Constant):
                            so = program.cls("_SetOperation")
                            ssk, _ = render(program, so)
                            consults = "ctx.dialect" in show(ssk, -20) and "wrap" in show(ssk, -20)
                            keyed_on_base = "base_query.wrap_set_operation_queries" in show(ssk, -20)
                            n += 1
                            run.ob("C08/R2 set-operand wrapping keyed on the context", f"{d.qualname}.wrap_set_operation_queries", not keyed_on_base, where=init.loc())
                            if keyed_on_base:
                                run.finding(f"C08/class-keyed:_SetOperation.wrap_set_operation_queries:{d.qualname}",
                                            f"{d.qualname} selects set-operand wrapping ({ast.unparse(k.value)}) through a constructor flag read from the base query object; "
                                            f"a set operation whose base query is of another class nested in a {d.qualname} statement wraps differently",
                                            where=init.loc(), rule="R2")
    run.analysed["dialect_overrides_compared"] = n
    if n < 4:
        raise AnalysisError(f"instance count below floor: dialect overrides compared {n}")
