"""C05 -- inlined values are single literal tokens that decode to the original value (escaping discipline, DESIGN 2/C05)."""
from __future__ import annotations

import ast
import re as _re

from ..families import is_module_function
from ..model import AnalysisError, Program
from ..report import Run
from ..skel import function_skeletons, quoted_spans, render, skeletons
from ..symex import Const, CtxV, DictV, Hole, Lit, Opaque, SlotP, Str, Sym, show
from ..symex import values_in
from .c06 import paths

# text placed inside string quotes that cannot contain a quote by construction (one reason each)
SAFE_PATTERNS = {
    ".isoformat(": "ISO date/time text contains no quote",
}
JSON_TEXT_CLASSES = {"JSON"}      # classes that assemble JSON document text themselves
EXEMPT_CLASSES = {
    "Interval": "components are integers by constructor contract; the literal shape is C18's obligation",
}


def classify_inner(part) -> str:
    if isinstance(part, Lit):
        return "lit"
    if isinstance(part, SlotP):
        return "slot"
    if isinstance(part, Opaque):
        if part.name == ".replace" and len(part.extra) >= 2:
            a, b = part.extra[0], part.extra[1]
            if isinstance(a, Const) and a.value in ("'",) and isinstance(b, Const) and b.value == a.value * 2:
                return "escaped"
            if "secondary_quote_char" in show(a, -10) and "Mult" in show(b, -10):
                return "escaped"
        inner = [classify_inner(p) for st in part.inner for p in st.parts if not isinstance(p, Lit)]
        if part.name in (".replace", ".upper", ".lower") and inner and all(k in ("escaped", "safe", "slot") for k in inner):
            return "escaped"
        return "raw"
    s = show(part, -30) if not isinstance(part, Hole) else show(part.value, -30)
    if ".replace(" in s and "quote_char" in s and ("Mult" in s or "* 2" in s):
        return "escaped"
    for pat in SAFE_PATTERNS:
        if pat in s:
            return "safe"
    if "json.dumps" in s or ".dumps(" in s:
        return "json"
    return "raw"


ROW_COUNT_SLOTS = {"_limit", "_offset"}


def _into_row_count_slot(fnode: ast.AST, call: ast.Call) -> bool:
    """the call's result is what an assignment stores into self._limit / self._offset (directly or through cast())"""
    for st in ast.walk(fnode):
        if isinstance(st, (ast.Assign, ast.AnnAssign)) and st.value is not None:
            tg = st.targets if isinstance(st, ast.Assign) else [st.target]
            if not any(isinstance(t, ast.Attribute) and t.attr in ROW_COUNT_SLOTS and isinstance(t.value, ast.Name) for t in tg):
                continue
            v = st.value
            while isinstance(v, ast.Call) and isinstance(v.func, ast.Name) and v.func.id == "cast" and len(v.args) == 2:
                v = v.args[1]
            if v is call:
                return True
    return False


def _custom_wrapper_receivers(program: Program, c, name: str) -> list:
    """receiver classes of method <name> defined in c (c and the subclasses inheriting it) whose constructor installs a
    dialect value wrapper (`wrapper_cls=` handed to the base constructor)"""
    out = []
    for k in program.all_classes():
        if not (k is c or k.is_subclass_of(c)) or k.resolve(name) is not c.methods.get(name):
            continue
        for kk in k.mro:
            init = kk.methods.get("__init__")
            if init is not None and any(isinstance(x, ast.Call) and any(kw.arg == "wrapper_cls" and not (isinstance(kw.value, ast.Name) and kw.value.id == "wrapper_cls") for kw in x.keywords)
                                        for x in ast.walk(init.node)):
                out.append(k)
                break
    return out



def _replace_chain(v):
    """[(old, new), ...] in application order when the value is <something>.replace(c1, c2).replace(c3, c4)... with
    constant arguments (None otherwise)"""
    from ..symex import Const as _C, Sym as _S
    chain = []
    while isinstance(v, _S) and v.kind == "call" and v.args and v.args[0] == ".replace" and len(v.args) == 4:
        def conc(x):
            if isinstance(x, _C) and isinstance(x.value, str):
                return x.value
            if isinstance(x, Str) and all(isinstance(p_, Lit) for p_ in x.parts):
                return "".join(p_.text for p_ in x.parts)        # `"\\" + quote_char` with a known quote character
            return None
        a, b = conc(v.args[2]), conc(v.args[3])
        if a is None or b is None:
            return None
        chain.append((a, b))
        v = v.args[1]
    if not chain:
        return None
    return list(reversed(chain))


def _json_reads_back(probe: str, chain, q: str) -> bool:
    text = probe
    for old, new in chain:
        text = text.replace(old, new)
    out, i = [], 0
    while i < len(text):
        ch = text[i]
        if ch == "\\":
            if i + 1 >= len(text) or text[i + 1] not in ("\\", q):
                return False
            out.append(text[i + 1])
            i += 2
        elif ch == q:
            return False            # the string ends here
        else:
            out.append(ch)
            i += 1
    return "".join(out) == probe

def check(program: Program, run: Run) -> None:
    run.explanation = (
        "Escaping discipline at every site that wraps text in the string quote, decided on the render skeletons: every span "
        "between two identical secondary-quote holes, or between literal single quotes in a template, must contain only text "
        "that went through .replace(q, q*2) on the same quote, text of a kind that cannot contain a quote, or a rendered term "
        "(R1); every builder method that turns a Python value into a term is checked for passing the dialect's wrapper class, "
        "because the MySQL backslash rule and the SQLite boolean form live in wrapper classes and the base wrapper never "
        "consults ctx.dialect (R2); value renderers produce exactly one fragment per path (R3). The value space and the decoded "
        "equality are not explored.")
    run.rule("R1 quote-wrap requires escape: inner text of every '...'-span is escaped(q), quote-free by kind, or a rendered slot")
    run.rule("R2 dialect escape coverage: every value position of a dialect builder constructs its wrapper via self._wrapper_cls (or the base wrapper consults ctx.dialect)")
    run.rule("R3 value wrappers emit one literal fragment on every path")
    run.rule("R8 no value-wrapping site is guarded by the truthiness of the value it wraps (falsy values are values)")
    run.rule("R7 every str.format() template is constant text: rendered SQL (which may contain a value's braces) is never used as a format template")
    run.rule("R6 exhaustive table (value kind x wrapper class) on typed symbolic values: each quoted kind is one quoted literal with the quote doubled, a wrapper that doubles backslashes for any kind does so for every kind that can contain one, and a str-mixin Enum member is never formatted as the member")
    run.rule("R5 exact str: text placed in the literal under isinstance(value, str) is a call result (replace/isoformat/str) or Enum members were excluded first")
    run.rule("R4 escape once: no .replace(c, c*2) is applied to text that an identical .replace already went through on the same render path")
    fsk = function_skeletons(program)
    sinks = 0
    seen = set()
    for f, skv in fsk.items():
        c = f.cls
        if any(k.name in EXEMPT_CLASSES for k in c.mro):
            continue
        if c is not None and any(k.name == "ValueWrapper" for k in c.mro):
            continue      # value wrappers are judged exhaustively and per value kind by R6 below
        all_paths = list(paths(skv, limit=4000, opaque_leaf=True, with_conds=True))
        # quoting that happens inside a transformed string (e.g. quoted first, backslash-doubled afterwards)
        todo = [(p, cs) for flat, cs in all_paths for p in flat if isinstance(p, Opaque)]
        seen_op = set()
        while todo:
            op, cs0 = todo.pop()
            if id(op) in seen_op:
                continue
            seen_op.add(id(op))
            for st in op.inner:
                for flat, cs in paths(st, limit=256, opaque_leaf=True, with_conds=True):
                    all_paths.append((flat, cs0 + cs))
                    todo.extend((p, cs0 + cs) for p in flat if isinstance(p, Opaque))
        for flat, pconds in all_paths:
            for i, j, q, kind in quoted_spans(flat):
                if kind == "hole" and "secondary_quote_char" not in q:
                    continue
                if q in ('"', "'\"'") and c is not None and any(k.name in JSON_TEXT_CLASSES for k in c.mro):
                    # a JSON string token inside the document text: delimiter and backslash must be backslash-escaped
                    for p_ in flat[i + 1:j]:
                        if isinstance(p_, Lit):
                            continue
                        jt = show(p_.value if isinstance(p_, Hole) else p_, -20)
                        jok = ".replace(" in jt and "'\\\\'" in jt
                        chain = _replace_chain(p_.value if isinstance(p_, Hole) else p_)
                        if jok and chain is not None:
                            # decided exactly: the replacements are applied, in their order, to probe strings; the result
                            # must read back as the probe under JSON string syntax (backslash first, or the backslash
                            # that escapes the delimiter is doubled again)
                            jok = all(_json_reads_back(pr, chain, '"') for pr in ("\\", '"', 'a\\"b', '\\\\"', "plain", '"\\'))
                        jsrc = getattr(p_, "src", ()) or ()
                        jfn = jsrc[0] if jsrc else f.qualname
                        jchain = [x for x in (jsrc[3] if len(jsrc) > 3 else ()) if not is_module_function(program, x)]
                        if is_module_function(program, jfn) and jchain:
                            jfn = jchain[-1]
                        if (jfn, jt[:60]) in seen:
                            continue
                        seen.add((jfn, jt[:60]))
                        sinks += 1
                        run.ob("C05/R1 JSON string token has delimiter and backslash escaped", f"{jfn}: {jt[:60]}", jok, where=f"{jsrc[2]}:{jsrc[1]}" if jsrc else "")
                        if not jok:
                            run.finding(f"C05/json-string-unescaped:{jfn}", f"{jfn} writes `{jt[:60]}` between JSON string quotes without backslash-escaping the delimiter and the backslash: "
                                        "a key or value containing \" or \\ ends the JSON string early or is read as an escape, so the document no longer decodes to the original value",
                                        where=f"{jsrc[2]}:{jsrc[1]}" if jsrc else "", rule="R1")
                    continue
                if kind == "lit" and q != "'":
                    continue
                inner = flat[i + 1:j]
                for p in inner:
                    k = classify_inner(p)
                    if k in ("lit",):
                        continue
                    vtxt = show(p.value if isinstance(p, Hole) else p, -20)
                    ctxt = [show(cd, -30) for cd in pconds]
                    def _guards(cd: str) -> bool:
                        # not ((<quote> in <X>) ...) where the printed text is <X> or <X> passed through other replacements
                        if not (cd.startswith("not") and ("secondary_quote_char" in cd or "\"'\"" in cd)):
                            return False
                        m = _re.search(r" in ([^()]+(?:\([^()]*\))?)\)", cd)
                        return bool(m) and m.group(1).strip() in vtxt
                    if k == "raw" and any(_guards(cd) for cd in ctxt):
                        k = "guarded"   # `if q in value: value = value.replace(q, q*2)` -- on this path the text contains no quote
                        if isinstance(p, Hole) and not isinstance(p.value, Str) and ".replace(" not in vtxt and any(cd.startswith(f"({vtxt} isinstance Builtin(name='str')") for cd in ctxt) and not any(cd.startswith("not") and f"{vtxt} isinstance" in cd and "Enum" in cd for cd in ctxt):
                            k = "str-subclass"
                    src = getattr(p, "src", ()) or ()
                    fn = src[0] if src else f.qualname
                    chain = [x for x in (src[3] if len(src) > 3 else ()) if not is_module_function(program, x)]
                    if is_module_function(program, fn) and chain:
                        fn = chain[-1]
                    what = show(p.value if isinstance(p, Hole) else p)[:60]
                    site = (fn, what)
                    if site in seen:
                        continue
                    seen.add(site)
                    sinks += 1
                    ok = k in ("escaped", "safe", "slot", "guarded")
                    if k == "str-subclass":
                        sinks += 1
                        run.ob("C05/R5 text reaching the literal is an exact str", f"{fn}: {what}", False, detail="raw attribute under isinstance(.., str) without Enum exclusion", where=f"{src[2]}:{src[1]}" if src else "")
                        run.finding(f"C05/str-subclass-unnormalised:{fn}:{what}",
                                    f"{fn} formats `{what}` into the literal untouched on the path where it needs no escaping: a member of a str-mixin Enum is a str instance, reaches this branch before any Enum unwrapping, "
                                    "and str.format() prints Enum.__format__ (the member's name, not its value); the escaping path hides this because str.replace returns an exact str",
                                    where=f"{src[2]}:{src[1]}" if src else "", rule="R5")
                        continue
                    run.ob("C05/R1 text inside string quotes is escaped or quote-free", f"{fn}: {what}", ok, detail=k, where=f"{src[2]}:{src[1]}" if src else "")
                    if not ok:
                        kindtxt = "JSON text" if k == "json" else "text"
                        mroot = _re.search(r"self\.(\w+)", what)
                        root = "json.dumps" if k == "json" else (mroot.group(1) if mroot else "expr")
                        if f"C05/unescaped-literal:{fn}:{root}" in {f.key for f in run.findings}:
                            continue
                        run.finding(f"C05/unescaped-literal:{fn}:{root}",
                                    f"{fn} puts {kindtxt} `{what}` between string quotes without doubling the quote character: a quote inside the value ends the literal early",
                                    where=f"{src[2]}:{src[1]}" if src else "", rule="R1")
    run.analysed = {"quote_wrapping_sinks": sinks}
    if sinks < 3:
        raise AnalysisError(f"instance count below floor: quote-wrapping sinks {sinks}")

    # ---- R9: a string operation applied to text that rendered children have already printed rewrites the literals inside
    from ..skel import recv_path as _rp, transformed_renderings
    for c_, fn_, op_, inner_ in transformed_renderings(program):
        what = ", ".join(sorted({_rp(sp.recv) for sp in inner_}))[:80]
        run.ob("C05/R9 rendered literals reach the statement untouched", f"{fn_}:{op_}", False, detail=what)
        run.finding(f"C05/rendered-text-transformed:{fn_}:{op_}",
                    f"{fn_} applies `{op_}` to text that already contains the rendering of {what}: a string literal printed by such a child is rewritten with it "
                    "(whitespace collapsed, characters replaced or re-cased), so the literal no longer decodes to the original value",
                    where=f"{inner_[0].src[2]}:{inner_[0].src[1]}" if inner_[0].src else "", rule="R9")
    run.ob("C05/R9 rendered literals reach the statement untouched", "all renderers", True, nontrivial=False)

    # ---- R2
    vw = program.cls("ValueWrapper")
    base_consults = "ctx.dialect" in show(render(program, vw, "get_value_sql")[0], -30)
    qb = program.cls("QueryBuilder")
    npos = 0
    for c in [qb] + [k for k in program.all_classes() if k.is_subclass_of(qb) and k is not qb]:
        for name, f in c.methods.items():
            for n in ast.walk(f.node):
                if not isinstance(n, ast.Call):
                    continue
                callee = n.func
                is_wrap = (isinstance(callee, ast.Attribute) and callee.attr == "wrap_constant") or \
                          (isinstance(callee, ast.Name) and callee.id == "ValueWrapper")
                if not is_wrap or not n.args:
                    continue
                passes = any(k.arg == "wrapper_cls" for k in n.keywords) or len(n.args) > 1
                arg = ast.unparse(n.args[0])
                if name in ("groupby", "orderby"):
                    continue   # order / group keys: strings become Fields before this point, no string literal is produced
                if not _custom_wrapper_receivers(program, c, name):
                    continue   # no receiver of this method has a dialect wrapper: the generic one *is* the dialect's
                if _into_row_count_slot(f.node, n):
                    continue   # LIMIT / OFFSET row counts are numbers (C09 decides their slots)
                if name.startswith("_") and not name.startswith("__"):
                    # a private helper whose every result goes into a row-count slot (e.g. `self._limit = self._row_count(value)`)
                    uses = [(f2, x) for k2 in c.mro for m2, f2 in k2.methods.items() if m2 != name for x in ast.walk(f2.node)
                            if isinstance(x, ast.Call) and isinstance(x.func, ast.Attribute) and x.func.attr == name]
                    if uses and all(_into_row_count_slot(f2.node, x) for f2, x in uses):
                        continue
                npos += 1
                ok = passes or base_consults
                run.ob("C05/R2 value position uses the dialect's wrapper class", f"{f.qualname}({arg})", ok, where=f.loc(n))
                if not ok:
                    run.finding(f"C05/dialect-escape:{f.qualname}:{arg}",
                                f"{f.qualname} wraps `{arg}` with the generic ValueWrapper (no wrapper_cls): under MySQL a backslash in that value is not escaped and under SQLite a bool renders true/false, unlike select()/set()",
                                where=f.loc(n), rule="R2")
    # operators / criteria: Term.wrap_constant without wrapper class
    term = program.cls("Term")
    ops = [f for f in term.methods.values() if any(isinstance(n, ast.Call) and isinstance(n.func, ast.Attribute) and n.func.attr == "wrap_constant"
                                                  and len(n.args) == 1 and not n.keywords for n in ast.walk(f.node))]
    npos += 1
    run.ob("C05/R2 criterion/arithmetic operands use a dialect-aware wrapper", f"Term operators ({len(ops)} methods)", base_consults or not ops)
    if ops and not base_consults:
        run.finding("C05/dialect-escape:Term.wrap_constant:operators",
                    f"{len(ops)} Term operator methods (==, >, like, +, between, ...) wrap their operand with the generic ValueWrapper, and ValueWrapper.get_value_sql never consults ctx.dialect: "
                    f"string operands of criteria are not backslash-escaped under MySQL (WHERE x='a\\')", where=term.methods['wrap_constant'].loc(), rule="R2")
    run.analysed["value_positions"] = npos

    # ---- R3 one fragment per path
    for c in [vw] + [k for k in program.all_classes() if k.is_subclass_of(vw) and k is not vw]:
        v, _ = render(program, c, "get_value_sql")
        bad = 0
        total = 0
        for flat in paths(v, limit=64):
            flat = [p for p in flat if not (isinstance(p, Lit) and not p.text)]
            total += 1
            spans = [sp for sp in quoted_spans(flat) if sp[0] == 0 and sp[1] == len(flat) - 1]
            single = len(flat) == 1
            if not (spans or single):
                bad += 1
        run.ob("C05/R3 value wrapper emits one literal fragment per path", c.qualname, bad == 0, detail=f"{total} paths, {bad} with more than one fragment")
        if bad:
            run.finding(f"C05/multi-fragment:{c.qualname}.get_value_sql", f"{c.qualname}.get_value_sql can emit more than one fragment for a single value", rule="R3")

    # ---- R4 escape once: doubling a delimiter twice makes the literal decode to a different value.  The fully inlined
    # skeleton of each wrapper's get_value_sql (super() and cls-recursion through get_formatted_value included) is
    # searched for a replace whose subject already contains the same replace.
    import dataclasses
    from ..symex import Opaque as _Op

    def walk(x, stack, out, d=0):
        if d > 80 or isinstance(x, (str, int, float, bool, type(None))):
            return
        if isinstance(x, (tuple, list, frozenset)):
            for i in x:
                walk(i, stack, out, d + 1)
            return
        sig = subj = None
        if isinstance(x, _Op) and x.name == ".replace" and len(x.extra) >= 2:
            sig, subj = (show(x.extra[0], -8), show(x.extra[1], -8)), x.inner
        elif isinstance(x, Sym) and x.kind == "call" and x.args and x.args[0] == ".replace" and len(x.args) >= 4 and not any(isinstance(a, Sym) and a.kind == "kw" for a in x.args):
            sig, subj = (show(x.args[2], -8), show(x.args[3], -8)), x.args[1]
        if sig is not None:
            out.append((sig, tuple(stack), getattr(x, "src", ()) or ()))
            walk(subj, stack + [sig], out, d + 1)
            return
        if dataclasses.is_dataclass(x):
            for fld in dataclasses.fields(x):
                if fld.name in ("src", "cond", "ctx", "recv"):
                    continue
                walk(getattr(x, fld.name), stack, out, d + 1)

    nrep = 0
    for c in [vw] + [k for k in program.all_classes() if k.is_subclass_of(vw) and k is not vw]:
        v, _ = render(program, c, "get_value_sql")
        out = []
        walk(v, [], out)
        nrep += len(out)
        dup = sorted({sig for sig, st, _ in out if sig in st})
        run.ob("C05/R4 no delimiter is doubled twice on one render path", c.qualname, not dup, detail=f"{len(out)} escape applications; repeated: {dup[:2]}",
               where=c.resolve("get_value_sql").loc())
        for sig in dup:
            srcs = [sr for sg, st, sr in out if sg == sig and sg in st and sr]
            run.finding(f"C05/double-escape:{c.qualname}:{sig[0]}",
                        f"{c.qualname}.get_value_sql can apply .replace({sig[0]}, {sig[1]}) to text that already went through the same replacement "
                        "(an override re-entered through super()/cls recursion, e.g. an Enum member unwrapped to its value and escaped again): the literal decodes to a different value",
                        where=f"{srcs[0][2]}:{srcs[0][1]}" if srcs else c.resolve("get_value_sql").loc(), rule="R4")
    run.analysed["escape_applications"] = nrep
    if nrep < 3:
        raise AnalysisError(f"instance count below floor: escape applications {nrep}")

    # ---- R6: exhaustive table value kind x wrapper class.  get_value_sql of every wrapper is evaluated with `self.value`
    # bound to a typed symbolic value of each supported kind; isinstance()/hasattr()/`is None` fold on it, so each cell is
    # one straight-line skeleton (Enum members unwrapped by the base formatter, dates through isoformat, UUIDs through str).
    from ..symex import Evaluator
    BS = "'\\\\'"      # how show() prints the one-character string backslash
    KINDS = {"str": {"str"}, "str-mixin Enum": {"str", "Enum"}, "Enum(str value)": {"Enum"}, "dict": {"dict"}, "list": {"list"}, "time": {"time"},
             "date": {"date"}, "datetime": {"datetime", "date"}, "UUID": {"UUID"}, "bool": {"bool", "int"}, "int": {"int"}, "float": {"float"},
             "Decimal": {"Decimal"}, "DatePart": {"DatePart", "Enum"}}
    KINDS_BASE = set(KINDS)
    QUOTED = {"str", "str-mixin Enum", "Enum(str value)", "dict", "list", "time", "date", "datetime", "UUID"}
    NO_SPECIAL = {"time", "date", "datetime", "UUID"}     # ISO text / hex digits: neither quote nor backslash can occur

    # reference: MySQL string-literal escape sequences (manual, "String Literals"); any other \\x reads as x, except that
    # \\% and \\_ keep their backslash outside a pattern context
    MYSQL_ESCAPES = {"0": "\0", "'": "'", '"': '"', "b": "\b", "n": "\n", "r": "\r", "t": "\t", "Z": "\x1a", "\\": "\\"}

    def _decodes_to(written: str, original: str) -> bool:
        """does `written`, inside a literal of a backslash-escaping dialect, read back as `original`?"""
        if written == original:
            return True
        if len(original) == 1 and len(written) == 2 and written[0] == "\\":
            c_ = written[1]
            if c_ in MYSQL_ESCAPES:
                return MYSQL_ESCAPES[c_] == original
            return c_ == original and c_ not in "%_"
        return False

    def _translate_table(t) -> dict:
        """constant mapping of a str.translate() argument (str.maketrans({..}) / a dict literal), else the analysis stops"""
        dv = None
        stack_ = [t]
        while stack_:
            y = stack_.pop()
            if isinstance(y, DictV):
                dv = y
                break
            if isinstance(y, Sym):
                stack_.extend(a for a in y.args if not isinstance(a, str))
        if dv is None:
            raise AnalysisError(f"unsupported construct: str.translate() table of an inlined value is not a constant mapping: {show(t, -8)[:80]}")
        out_ = {}
        for k_, v_ in dv.items:
            if not (isinstance(k_, Const) and isinstance(v_, Const) and isinstance(k_.value, (str, int)) and (v_.value is None or isinstance(v_.value, str))):
                raise AnalysisError(f"unsupported construct: non-constant entry in a str.translate() table: {show(k_, -8)}: {show(v_, -8)}")
            out_[chr(k_.value) if isinstance(k_.value, int) else k_.value] = v_.value or ""
        return out_

    TEXT_TRANSFORMS = {".replace", ".translate", ".maketrans", ".isoformat", ".dumps", ".lower"}

    def transforms_in(x, acc, d=0):
        if d > 80 or isinstance(x, (str, int, float, bool, type(None))):
            return
        if isinstance(x, (tuple, list, frozenset)):
            for i_ in x:
                transforms_in(i_, acc, d + 1)
            return
        if isinstance(x, _Op) and x.name.startswith("."):
            acc.add(x.name)
        if isinstance(x, Sym) and x.kind == "call" and x.args and isinstance(x.args[0], str) and x.args[0].startswith("."):
            acc.add(x.args[0])
        if dataclasses.is_dataclass(x):
            for fld in dataclasses.fields(x):
                if fld.name not in ("src", "cond", "ctx", "recv"):
                    transforms_in(getattr(x, fld.name), acc, d + 1)

    def sigs_in(x, acc, d=0):
        """`from` texts of the .replace(from, to) calls inside a value; doubling/escaping replacements only:
        a replacement whose `to` is not `from*2` (SQL doubling) is recorded as '<from>=>other'"""
        if d > 80 or isinstance(x, (str, int, float, bool, type(None))):
            return
        if isinstance(x, (tuple, list, frozenset)):
            for i_ in x:
                sigs_in(i_, acc, d + 1)
            return
        fr_ = to_ = None
        if isinstance(x, _Op) and x.name == ".replace" and len(x.extra) >= 2:
            fr_, to_ = x.extra[0], x.extra[1]
        elif isinstance(x, Sym) and x.kind == "call" and x.args and x.args[0] == ".replace" and len(x.args) >= 4:
            fr_, to_ = x.args[2], x.args[3]
        if fr_ is not None:
            f_s, t_s = show(fr_, -8), show(to_, -8)
            doubled = (isinstance(fr_, Const) and isinstance(to_, Const) and isinstance(fr_.value, str) and to_.value == fr_.value * 2) or (f_s in t_s and "Mult 2" in t_s)
            acc.add(f_s if doubled else f_s + "=>other")
            if not doubled and isinstance(fr_, Const) and isinstance(to_, Const) and isinstance(fr_.value, str) and isinstance(to_.value, str):
                if not _decodes_to(to_.value, fr_.value):
                    acc.add(f"undecodable!{fr_.value!r}->{to_.value!r}")
        if isinstance(x, Sym) and x.kind == "call" and x.args and x.args[0] == ".translate" and len(x.args) >= 3:
            for k_, v_ in _translate_table(x.args[2]).items():
                if v_ == k_ * 2 and k_ in ("'", "\\"):
                    acc.add(show(Const(k_), -8))
                elif not _decodes_to(v_, k_):
                    acc.add(f"undecodable!{k_!r}->{v_!r}")
                else:
                    acc.add("escape:" + repr(k_))
        if dataclasses.is_dataclass(x):
            for fld in dataclasses.fields(x):
                if fld.name not in ("src", "cond", "ctx", "recv"):
                    sigs_in(getattr(x, fld.name), acc, d + 1)

    wrappers = [vw] + [k for k in program.all_classes() if k.is_subclass_of(vw) and k is not vw]
    # kinds the code itself distinguishes: every type name tested with isinstance() in a wrapper's formatter gets a cell,
    # so a newly supported kind (bytes, Path, ...) is judged by the same rules without this table being edited
    known_tags = set().union(*KINDS.values())
    pkg_classes = {c_.name for c_ in program.all_classes()}
    for c in wrappers:
        for mname in ("get_value_sql", "get_formatted_value"):
            f_ = c.methods.get(mname)
            if f_ is None:
                continue
            for n in ast.walk(f_.node):
                if isinstance(n, ast.Call) and isinstance(n.func, ast.Name) and n.func.id == "isinstance" and len(n.args) == 2:
                    specs = n.args[1].elts if isinstance(n.args[1], ast.Tuple) else [n.args[1]]
                    for sp_ in specs:
                        nm = sp_.id if isinstance(sp_, ast.Name) else (sp_.attr if isinstance(sp_, ast.Attribute) else None)
                        if nm and nm not in known_tags and nm not in pkg_classes:
                            KINDS[nm] = {nm}
                            known_tags.add(nm)
    cells = {}
    for c in wrappers:
        for kname, tags in KINDS.items():
            v, _ = render(program, c, "get_value_sql", attrs={"value": Evaluator.typed("v", tags)})
            cells[(c, kname)] = v
        cells[(c, "None")] = render(program, c, "get_value_sql", attrs={"value": Const(None)})[0]
    n6 = 0
    for c in wrappers:
        wsigs: set = set()
        for (c2, kname), v in cells.items():
            if c2 is c:
                sigs_in(v, wsigs)
        backslash_dialect = BS in wsigs
        for kname in list(KINDS) + ["None"]:
            v = cells[(c, kname)]
            txt = show(v, -12)
            n6 += 1
            cell = f"{c.qualname} x {kname}"
            if "rec:" in txt or " isinstance " in txt or " hasattr " in txt:
                raise AnalysisError(f"unsupported construct: value-kind cell {cell} does not fold: {txt[:120]}")
            ps: set = set()
            sigs_in(v, ps)
            problems = []
            is_quoted_kind = kname in QUOTED or (kname not in KINDS_BASE and any(quoted_spans([p_ for p_ in fl if not (isinstance(p_, Lit) and not p_.text)])
                                                                                  for fl in paths(v, limit=64, opaque_leaf=False)))
            if is_quoted_kind:
                tf: set = set()
                transforms_in(v, tf)
                if tf - TEXT_TRANSFORMS:
                    raise AnalysisError(f"unsupported construct: value-kind cell {cell} applies text transform(s) {sorted(tf - TEXT_TRANSFORMS)} to the inlined "
                                        f"value; whether the literal still decodes to the original is not decided for them")
                allp = paths(v, limit=64, opaque_leaf=False, with_conds=True)
                for fl, pconds in allp:
                    fl = [p_ for p_ in fl if not (isinstance(p_, Lit) and not p_.text)]
                    if not any(sp[0] == 0 and sp[1] == len(fl) - 1 for sp in quoted_spans(fl)):
                        problems.append(("not-quoted", "is not written as one quoted literal"))
                        break
                for fl, pconds in paths(v, limit=64, opaque_leaf=True, with_conds=True):
                    pp: set = set()
                    sigs_in(fl, pp)
                    ctxt = [show(cd, -30) for cd in pconds]
                    # `if <c> in value: value = value.replace(c, c*2)`: on the other path the character does not occur
                    q_guard = any(cd.startswith("not") and " in <v" in cd and ("secondary_quote_char" in cd) for cd in ctxt)
                    b_guard = any(cd.startswith("not") and " in <v" in cd and BS in cd for cd in ctxt)
                    if kname not in NO_SPECIAL and not (any(("secondary_quote_char" in sg or sg == '"\'"') and not sg.endswith("=>other") for sg in pp) or q_guard):
                        problems.append(("quote-unescaped", "reaches the quotes on some path without the quote character being doubled"))
                    if backslash_dialect and kname not in NO_SPECIAL and not (BS in pp or b_guard):
                        problems.append(("backslash-unescaped", "reaches the quotes on some path without backslashes being doubled although this wrapper doubles them for other kinds: a backslash swallows the next character (a trailing one un-terminates the literal)"))
                    for sg in sorted(pp):
                        if sg.startswith("undecodable!"):
                            problems.append(("escape-not-decodable", f"is rewritten {sg[12:]} on some path, which the target dialect does not read back as the original character: the literal decodes to a different value"))
                    if any(sg.startswith("escape:") for sg in pp) and not (BS in pp):
                        problems.append(("backslash-unescaped", "gets backslash escape sequences on some path while a literal backslash in the value is not doubled"))
                    raw = [p_ for p_ in fl if isinstance(p_, Hole) and isinstance(p_.value, Sym) and p_.value.kind == "typed" and "Enum" in p_.value.args[1]]
                    if raw:
                        problems.append(("enum-format", "is formatted as the Enum member itself on some path (Enum.__format__ prints the member's name, not its value)"))
                problems = list(dict.fromkeys(problems))
            if kname in ("int", "float", "Decimal"):
                # a number is written as its own str(): no method of the value, no format specification, no arithmetic in
                # between (normalize() / format(v, "f") / round() round to a context precision or drop the exponent form)
                raw_only = isinstance(v, Str) and all(
                    isinstance(p_, Lit) or (isinstance(p_, Hole) and isinstance(p_.value, Sym) and p_.value.kind == "typed")
                    for fl in paths(v, limit=64, opaque_leaf=True) for p_ in fl)
                if not raw_only:
                    problems.append(("number-transformed", "is not written as its plain str(): the value passes through a conversion before it is printed, "
                                                           "which can round it or change its form (Decimal.normalize() rounds to the context precision of 28 digits)"))
            ok = not problems
            run.ob("C05/R6 value kind x wrapper: one literal, quote doubled, dialect's backslash rule applied", cell, ok,
                   detail=f"{txt[:90]} | replacements {sorted(ps)}", where=c.resolve("get_value_sql").loc())
            for code, msg in problems:
                run.finding(f"C05/{code}:{c.qualname}:{kname}", f"{c.qualname}.get_value_sql: a value of kind {kname} {msg} (rendering: {txt[:100]})",
                            where=c.resolve("get_value_sql").loc(), rule="R6")
    run.analysed["value_kind_cells"] = n6

    # ---- R8: 0, "", False, 0.0 and Decimal(0) are values.  A site that wraps a supplied value in a value wrapper (or calls
    # wrap_constant on it) may be guarded by `is None` / isinstance tests on that value, never by its truthiness: the
    # falsy value would stay unwrapped and the position (column DEFAULT, SET, upsert update) loses its literal
    from .c04 import wrapper_sites
    nwrap = 0
    for f8, call8 in wrapper_sites(program) + [(f_, n_) for f_ in program.all_functions() for n_ in ast.walk(f_.node)
                                               if isinstance(n_, ast.Call) and isinstance(n_.func, ast.Attribute) and n_.func.attr == "wrap_constant" and n_.args]:
        a8 = call8.args[0]
        if not isinstance(a8, (ast.Name, ast.Attribute)):
            continue
        src8 = ast.unparse(a8)
        par8 = {ch: pa for pa in ast.walk(f8.node) for ch in ast.iter_child_nodes(pa)}
        tests8 = []
        x8 = call8
        while x8 in par8:
            pa8 = par8[x8]
            if isinstance(pa8, (ast.If, ast.IfExp)) and x8 is not pa8.test:
                tests8.append(pa8.test)
            x8 = pa8
        nwrap += 1

        def truthy_uses(t):
            if isinstance(t, ast.BoolOp):
                return [u for v_ in t.values for u in truthy_uses(v_)]
            if isinstance(t, ast.UnaryOp) and isinstance(t.op, ast.Not):
                return truthy_uses(t.operand)
            if isinstance(t, (ast.Name, ast.Attribute)) and ast.unparse(t) == src8:
                return [ast.unparse(t)]
            return []
        bad8 = [u for t_ in tests8 for u in truthy_uses(t_)]
        run.ob("C05/R8 a supplied value is wrapped whatever its truth value (guards test None / type only)", f"{f8.qualname}:{ast.unparse(call8)[:50]}", not bad8,
               detail="; ".join(ast.unparse(t_)[:50] for t_ in tests8), where=f8.loc(call8))
        if bad8:
            run.finding(f"C05/falsy-value-unwrapped:{f8.qualname}:{src8}", f"{f8.qualname} wraps `{src8}` only when it is truthy: 0, '', False, 0.0 and Decimal(0) stay unwrapped, "
                        "so the position renders no literal (or a raw Python value) for them", where=f8.loc(call8), rule="R8")
    if nwrap < 10:
        raise AnalysisError(f"instance count below floor: value wrapping sites {nwrap}")

    # ---- R7: rendered text is data.  `<rendered sql>.format(...)` / `(sql + " AS {alias}").format(...)` re-reads it as a
    # template: braces inside an inlined literal (JSON text, '{0}', '{{x}}') are taken for replacement fields -- they are
    # collapsed, substituted, or raise.  Every str.format() template must be constant text.
    tsites = {}

    def tw(x, d=0):
        if d > 80 or isinstance(x, (str, int, float, bool, type(None))):
            return
        if isinstance(x, (tuple, list, frozenset)):
            for i_ in x:
                tw(i_, d + 1)
            return
        if isinstance(x, _Op) and x.name == "format-of-nonconst":
            dyn = []

            def dw(y, dd=0):
                if dd > 40 or isinstance(y, (str, int, float, bool, type(None))) or dyn:
                    return
                if isinstance(y, (Hole, SlotP)):
                    dyn.append(y)
                    return
                if isinstance(y, (tuple, list)):
                    for j_ in y:
                        dw(j_, dd + 1)
                elif dataclasses.is_dataclass(y):
                    for fl_ in dataclasses.fields(y):
                        if fl_.name not in ("src", "cond", "ctx"):
                            dw(getattr(y, fl_.name), dd + 1)
            dw(x.inner)
            if dyn or not x.inner or not x.inner[0].parts:
                fn = x.src[0] if x.src else "?"
                tsites.setdefault(fn, (x.src, show(x.inner[0], -6)[:80] if x.inner else "?"))
        if dataclasses.is_dataclass(x):
            for fld in dataclasses.fields(x):
                if fld.name not in ("src", "cond", "ctx", "recv"):
                    tw(getattr(x, fld.name), d + 1)
    for f_, v_ in fsk.items():
        tw(v_)
    run.ob("C05/R7 every str.format() template is constant text (rendered text is never re-read as a template)", f"{len(fsk)} renderers", not tsites,
           detail="; ".join(sorted(tsites))[:200])
    for fn, (src_, txt_) in sorted(tsites.items()):
        run.finding(f"C05/template-from-rendered-text:{fn}", f"{fn} calls .format() on text that contains already rendered SQL (`{txt_}`): braces inside an inlined value are read as replacement "
                    "fields, so the literal decodes to a different value or rendering raises", where=f"{src_[2]}:{src_[1]}" if src_ else "", rule="R7")
    if n6 < 40:
        raise AnalysisError(f"instance count below floor: value-kind cells {n6}")

    # ---- the mechanism keeps no state between renderings (shared rule, see families.inherit_history_dependence)
    from ..families import inherit_history_dependence
    run.rule("history: no function of this property's mechanism writes object / class / parameterizer state while rendering or memoises on a copied object (inherited from C02 and C01)")
    inherit_history_dependence(program, run, "C05", r"^(ValueWrapper|MySQLValueWrapper|SQLLiteValueWrapper|JSON)\.|^utils\.format_quotes", "the literal printed for a value depends on what was inlined before (possibly under another dialect's escape rule)")
