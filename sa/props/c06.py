"""C06 -- operator grouping of the expression tree survives rendering (DESIGN 2/C06).

Exhaustive (parent renderer, operand slot, parent operator) x (child kind) table, computed by rendering every
composite Term class symbolically with concrete operator members and concrete child objects, and compared
with the standard SQL precedence/associativity table.
"""
from __future__ import annotations

from ..model import AnalysisError, ClassInfo, Program
from ..report import Run
from ..skel import recv_path, render, root_attr, term_classes
from ..symex import (Alt, Const, CtxV, EnumV, Hole, Lit, Obj, Phi, SlotP, Str, Sym, show, walk_parts)
from .c12 import peel

# reference precedence (higher binds tighter), standard SQL, shared by the six dialects for these operators
LV_ATOM, LV_NEG, LV_MUL, LV_ADD, LV_CMP, LV_NOT, LV_AND, LV_OR = 7, 6, 5, 4, 3, 2, 1, 0
LV_SHIFT = 3.5       # << >> : below + - and above the comparisons in SQLite, MySQL and PostgreSQL alike
LEVEL_NAME = {7: "atom", 6: "unary-minus", 5: "mul/div", 4: "add/sub", 3.5: "shift", 3: "comparison", 2: "NOT", 1: "AND", 0: "OR/XOR"}
# binary arithmetic operators by their SQL text (the members of the Arithmetic enum are read from the code on every run)
ARITH_LEVEL = {"*": LV_MUL, "/": LV_MUL, "%": LV_MUL, "+": LV_ADD, "-": LV_ADD, "<<": LV_SHIFT, ">>": LV_SHIFT}


def arithmetic_members(program: Program):
    """[(member name, level)] for every member of the Arithmetic enum whose SQL text has a known level, and the
    members that have none (a new operator needs a level before its cells can be decided)"""
    import ast as _ast
    c = program.cls("Arithmetic")
    known, unknown = [], []
    for n, e in c.class_attrs.items():
        if n.startswith("_") or not isinstance(e, _ast.Constant) or not isinstance(e.value, str):
            continue
        (known if e.value in ARITH_LEVEL else unknown).append((n, ARITH_LEVEL.get(e.value), e.value))
    if len(known) < 4:
        raise AnalysisError(f"anchor vanished: Arithmetic members with a known level: {known}")
    return known, unknown


def enum_member(program: Program, cls: str, name: str) -> EnumV:
    c = program.cls(cls)
    e = c.class_attrs.get(name)
    if e is None:
        raise AnalysisError(f"anchor vanished: enum member {cls}.{name}")
    return EnumV(c.name, name, e.value)


class Kind:
    def __init__(self, name, level, op, make, may_minus=False, infix=False):
        self.name, self.level, self.op, self.make, self.may_minus, self.infix = name, level, op, make, may_minus, infix


def child_kinds(program: Program) -> list[Kind]:
    ae, bc, cc = program.cls("ArithmeticExpression"), program.cls("BasicCriterion"), program.cls("ComplexCriterion")
    A = lambda n: enum_member(program, "Arithmetic", n)  # noqa: E731
    B = lambda n: enum_member(program, "Boolean", n)  # noqa: E731
    kinds = [
        Kind("atom", LV_ATOM, None, lambda: Obj(program.cls("Field"), {}, "child")),
        Kind("negative-literal", LV_ATOM, None, lambda: Obj(program.cls("ValueWrapper"), {}, "child"), may_minus=True),
        Kind("unary-minus", LV_NEG, None, lambda: Obj(program.cls("Negative"), {}, "child"), may_minus=True),
    ]
    for n, lv, _txt in arithmetic_members(program)[0]:
        kinds.append(Kind(n, lv, n, (lambda n=n: Obj(ae, {"operator": A(n)}, "child")), infix=True))
    kinds.append(Kind("comparison", LV_CMP, "cmp", lambda: Obj(bc, {"comparator": enum_member(program, "Equality", "eq")}, "child"), infix=True))
    kinds.append(Kind("postfix-criterion", LV_CMP, "postfix", lambda: Obj(program.cls("NullCriterion"), {}, "child"), infix=True))
    kinds.append(Kind("not", LV_NOT, "not", lambda: Obj(program.cls("Not"), {}, "child")))
    for n, lv in (("and_", LV_AND), ("or_", LV_OR), ("xor_", LV_OR)):
        kinds.append(Kind(n.rstrip("_"), lv, n.rstrip("_"), (lambda n=n: Obj(cc, {"comparator": B(n)}, "child")), infix=True))
    return kinds


def needs_parens(p_level, p_op, side, k: Kind) -> str | None:
    """reference rule: reason if omitting parentheses regroups, else None"""
    cl = k.level
    if cl > p_level:
        return None
    if cl < p_level:
        return f"child binds looser ({LEVEL_NAME[cl]}) than parent ({LEVEL_NAME[p_level]})"
    # equal levels
    if p_level == LV_CMP:
        return "comparison operators are non-associative"
    if side == "prefix":
        return None
    if p_level == LV_SHIFT:
        return "a<<(b<<c) is not a<<b<<c: shifts associate to the left" if side == "right" else None
    if p_level == LV_ADD:
        if side == "right" and p_op == "sub":
            return "a-(b+c) is not a-b+c"
        return None
    if p_level == LV_MUL:
        if side == "right" and not (p_op == "mul" and k.op == "mul"):
            return "a*(b/c) is (a*b)/c without parentheses; differs in integer arithmetic" if p_op == "mul" else "a/(b*c) is not a/b*c"
        return None
    if p_level in (LV_AND, LV_OR):
        return None if p_op == k.op else "different boolean connectives of the same level"
    return None


# operand slots that cannot hold an arbitrary expression (one reason each)
EXEMPT_SLOTS = {
    "AtTimezone.field": "constructor coerces the operand to a Field (atom)",
    "Values.field": "constructor coerces the operand to a Field (atom)",
    "ContainsCriterion.container": "IN takes a parenthesised list (Tuple) or a subquery (wrapped via subquery=True); both are self-delimiting",
}
QUALIFIER_ATTRS = ("schema", "_schema")


def _is_operand(p) -> bool:
    """a rendered child: a slot, or a hole printing text that was produced by rendering children (e.g. items unpacked
    from a list of rendered arguments)"""
    if isinstance(p, SlotP):
        return True
    if not isinstance(p, Hole):
        return False
    import dataclasses
    seen = 0

    def rec(x, d=0):
        nonlocal seen
        seen += 1
        if d > 40 or seen > 4000 or isinstance(x, (str, int, float, bool, type(None))):
            return False
        if isinstance(x, SlotP):
            return True
        if isinstance(x, (tuple, list, frozenset)):
            return any(rec(i, d + 1) for i in x)
        if dataclasses.is_dataclass(x):
            return any(rec(getattr(x, f.name), d + 1) for f in dataclasses.fields(x) if f.name not in ("src", "cond", "ctx"))
        return False
    return rec(p.value)


# operator-shaped renderers whose level and wrap rule were confirmed by reading (keyed by the class that owns the rendering)
KNOWN_KEYWORD_CRITERIA = {
    "All": "ALL <subquery/term>: prefix keyword over a parenthesised operand, comparison level",
    "AtTimezone": "<term> AT TIME ZONE '<zone>': postfix keyword, comparison level",
    "BetweenCriterion": "<term> BETWEEN a AND b: comparison level",
    "ContainsCriterion": "<term> IN (<...>): comparison level, container parenthesised",
    "NullCriterion": "<term> IS NULL: postfix keyword, comparison level",
    "PeriodCriterion": "<term> FROM a TO b / BETWEEN a AND b (temporal): comparison level",
}


def render_owner(c: ClassInfo, sk) -> str:
    """most-derived class of c's MRO that contributes a function to c's rendering"""
    owners = set()
    for part, _, _ in walk_parts(sk):
        src = getattr(part, "src", ()) or ()
        if not src:
            continue
        for q in (src[0],) + tuple(src[3] if len(src) > 3 else ()):
            if "." in q:
                owners.add(q.rsplit(".", 1)[0])
    for k in c.mro:
        if k.qualname in owners:
            return k.qualname
    return c.resolve("get_sql").cls.qualname


def _keyword_over_statement(program: Program, c: ClassInfo, sk) -> bool:
    """every path of the rendering is `<keyword text> <operand>` where the only operand is an attribute declared (annotation
    / constructor) to hold statements only (Selectable subclasses, which parenthesise themselves under ctx.subquery) and is
    rendered with subquery=True: the whole is delimited on the right by the operand's own bracket and starts with a keyword"""
    from .c07 import _child_classes
    sel = program.cls("Selectable")
    n = 0
    for flat in paths(sk):
        flat = [p for p in flat if not (isinstance(p, Lit) and not p.text)]
        ops = [p for p in flat if _is_operand(p)]
        if not flat:
            continue
        if len(ops) != 1 or ops[0] is not flat[-1] or not isinstance(ops[0], SlotP) or not isinstance(flat[0], Lit):
            return False
        sp = ops[0]
        if not (isinstance(sp.ctx, CtxV) and sp.ctx.fields.get("subquery") == Const(True)):
            return False
        attr = recv_path(sp.recv).split("[")[0].split(".")[0]
        kinds = _child_classes(program, c, attr)
        keyword = "".join(p.text for p in flat if isinstance(p, Lit)).strip().upper()
        if keyword in SUBQUERY_PREDICATES:
            n += 1          # the grammar of these keywords takes a parenthesised subquery and nothing else
            continue
        if not kinds or not all(k is sel or k.is_subclass_of(sel) for k in kinds):
            return False
        n += 1
    return n > 0


# keywords whose only operand, by the SQL grammar, is a parenthesised query expression (reference knowledge, like the
# precedence table): a class printing one of them in front of an operand it renders with subquery=True is self-delimiting
SUBQUERY_PREDICATES = {"EXISTS", "NOT EXISTS", "ANY", "ALL", "SOME", "UNIQUE"}


def _self_bracketing_postfix(program: Program, c: ClassInfo, kinds) -> bool:
    """a postfix operator (`<operand> KEYWORD <name>`) whose single operand slot is bracketed for every child that is not a
    primary (compound expressions, criteria, NOT, unary minus, negative literals): it binds tighter than every infix
    operator by construction, so neither its operand nor its use as an operand can regroup.  Decided by rendering the
    class with one concrete child of every kind, as the cell table does."""
    sk0, _ = render(program, c)
    slots = []
    for p, _c, _r in walk_parts(peel(sk0)):
        if isinstance(p, SlotP) and p.method == "get_sql":
            a = recv_path(p.recv).split("[")[0]
            if a not in slots:
                slots.append(a)
    if len(slots) != 1 or "." in slots[0]:
        return False
    slot = slots[0]
    for k in kinds:
        child = k.make()
        child.name = slot
        if k.name == "negative-literal":
            from ..symex import Evaluator
            child.attrs["value"] = Evaluator.typed("v", {"int"})       # the literal that may start with '-' is a number
        try:
            sk, _ = render(program, c, attrs={"alias": Const(None), slot: child}, ctx=CtxV.incoming().with_(with_alias=Const(False), subcriterion=Const(False)))
        except AnalysisError:
            return False
        sc = slot_context(peel(sk), slot)
        if sc is None:
            return False
        primary = k.level == LV_ATOM and not k.may_minus
        if not primary and not sc[0]:
            return False
    return True


def _renders_a_bare_name(program: Program, c: ClassInfo, sp) -> bool:
    """the slot calls a name renderer of a child (`self._window.get_name_sql(ctx)`): the method, on every class the
    attribute is declared to hold, prints holes and literals only -- an identifier, not an expression operand"""
    from .c07 import _child_classes
    memo = program.__dict__.setdefault("_c06_bare_name", {})
    attr = recv_path(sp.recv).split("[")[0].split(".")[0]
    key = (c.qualname, attr, sp.method)
    if key in memo:
        return memo[key]
    res = False
    kinds = [k for k in _child_classes(program, c, attr) if k.resolve(sp.method) is not None]
    if sp.method == "get_sql":
        # a child whose own get_sql prints a name and nothing else (a named window referenced by `OVER "w"`): only when the
        # attribute is declared to hold such classes exclusively, subclasses included
        kinds = kinds + [s_ for k in kinds for s_ in k.all_subclasses()]
        if any(k.is_subclass_of(program.cls("Term")) for k in kinds):
            kinds = []
    if kinds:
        res = True
        for k in kinds:
            try:
                sk, _ = render(program, k, sp.method)
            except AnalysisError:
                res = False
                break
            if not isinstance(sk, Str) or any(isinstance(part, SlotP) for part, _c, _r in walk_parts(sk)):
                res = False
                break
    memo[key] = res
    return res


# shape classification of a Term class's own rendering
def shape_of(program: Program, c: ClassInfo):
    sk, _ = render(program, c, attrs={"alias": Const(None)}, ctx=CtxV.incoming().with_(with_alias=Const(False)))
    sk = peel(sk)
    shapes = set()
    for flat in paths(sk):
        flat = [p for p in flat if not (isinstance(p, Lit) and not p.text)]
        flat = [Lit("<qualifier>") if isinstance(p, SlotP) and recv_path(p.recv).split("[")[0] in QUALIFIER_ATTRS else p for p in flat]
        flat = [Lit("<name>") if isinstance(p, SlotP) and _renders_a_bare_name(program, c, p) else p for p in flat]
        if not flat:
            shapes.add("empty")
            continue
        first, last = flat[0], flat[-1]
        fs, ls = _is_operand(first), _is_operand(last)
        if fs and ls and len(flat) > 1:
            shapes.add("infix")
        elif fs and len(flat) == 1:
            shapes.add("passthrough")
        elif fs:
            shapes.add("postfix")
        elif ls:
            shapes.add("prefix")
        else:
            shapes.add("atom")
    shape_of.last_shapes = shapes
    for s in ("infix", "prefix", "postfix"):
        if s in shapes:
            return s, sk
    return "atom", sk


# classes with a render path that prints a child verbatim (no brackets, no text of their own), reviewed one by one
TRANSPARENT_OK = {
    "ValueWrapper": "wraps constants; a wrapped node only arises when a caller constructs ValueWrapper(<node>) by hand (wrap_constant passes nodes through unwrapped)",
    "Array": "the verbatim path prints the single placeholder of a parameterised array",
}


def paths(v, limit: int = 64, opaque_leaf: bool = False, with_conds: bool = False):
    """flat part sequences of every alternative path of a skeleton (bounded); with_conds=True returns
    (flat, conditions) pairs where conditions are the (possibly negated) branch tests taken on that path"""
    from ..symex import Rep, JoinP, One, RepI, CondI, Opaque, RaiseV, negate

    def cross(acc, nxt):
        if len(nxt) == 1:
            b, cb = nxt[0]
            return [(a + b, ca + cb) for a, ca in acc]
        out = []
        for a, ca in acc:
            for b, cb in nxt:
                out.append((a + b, ca + cb))
                if len(out) >= limit:
                    return out
        return out

    def rec(x):
        if isinstance(x, Str):
            acc = [([], ())]
            for p in x.parts:
                acc = cross(acc, rec(p))
            return acc
        if isinstance(x, (Alt, Phi)):
            ra = [(f, (x.cond,) + c) for f, c in rec(x.a)]
            rb = [(f, (negate(x.cond),) + c) for f, c in rec(x.b)]
            return (ra + rb)[:limit]
        if isinstance(x, Rep):
            return rec(x.body)
        if isinstance(x, (Lit, Hole, SlotP)):
            return [([x], ())]
        if isinstance(x, Opaque):
            if opaque_leaf:
                return [([x], ())]
            acc = [([], ())]
            for i in x.inner:
                acc = cross(acc, rec(i))
            return acc or [([Lit("?")], ())]
        if isinstance(x, JoinP):
            acc = [([], ())]
            for i in x.items:
                acc = cross(acc, rec(i))
            return acc
        if isinstance(x, One):
            return rec(x.value)
        if isinstance(x, (RepI,)):
            acc = [([], ())]
            for i in x.body:
                acc = cross(acc, rec(i))
            return acc
        if isinstance(x, CondI):
            acc = [([], ())]
            for i in x.items:
                acc = cross(acc, rec(i))
            return acc + [([], ())]
        if isinstance(x, Const) and isinstance(x.value, str):
            return [([Lit(x.value)], ())]
        if isinstance(x, RaiseV):
            return []          # this alternative raises: it renders nothing
        return [([Lit("?")], ())]
    out = rec(v)
    return out if with_conds else [f for f, _ in out]


# parents: (class, operator attribute, members)
def parent_table(program: Program):
    A = lambda n: enum_member(program, "Arithmetic", n)  # noqa: E731
    B = lambda n: enum_member(program, "Boolean", n)  # noqa: E731
    return {
        "ArithmeticExpression": ("operator", [(n, A(n), lv) for n, lv, _txt in arithmetic_members(program)[0]]),
        "ComplexCriterion": ("comparator", [("and", B("and_"), LV_AND), ("or", B("or_"), LV_OR), ("xor", B("xor_"), LV_OR)]),
        "BasicCriterion": ("comparator", [("cmp", enum_member(program, "Equality", "eq"), LV_CMP)]),
        "NestedCriterion": ("comparator", [("cmp", enum_member(program, "Equality", "eq"), LV_CMP)]),
        "Negative": (None, [("neg", None, LV_NEG)]),
        "Not": (None, [("not", None, LV_NOT)]),
    }


def reads_subcriterion(program: Program, c: ClassInfo) -> bool:
    sk, _ = render(program, c)
    return "ctx.subcriterion" in show(sk, -30).replace("subcriterion=ctx.subcriterion", "")


def slot_context(sk, slot_attr: str):
    """(wrapped_by_literal_parens, ctx.subcriterion value, text before, text after) for the slot over self.<slot_attr>"""
    res = None
    for flat in paths(sk):
        flat = [p for p in flat if not (isinstance(p, Lit) and not p.text)]
        for i, p in enumerate(flat):
            if isinstance(p, SlotP) and recv_path(p.recv).split("[")[0] == slot_attr:
                before = flat[i - 1] if i > 0 else None
                after = flat[i + 1] if i + 1 < len(flat) else None
                bt = before.text if isinstance(before, Lit) else ("{}" if before is not None else "")
                at = after.text if isinstance(after, Lit) else ("{}" if after is not None else "")
                # delimited: its own parentheses, or an argument position of a call (`MOD(<l>,<r>)`): the comma and the
                # call's brackets separate complete expressions whatever operators they contain
                wrapped = bt.rstrip().endswith(("(", ",")) and at.lstrip().startswith((")", ","))
                sub = p.ctx.fields["subcriterion"] if isinstance(p.ctx, CtxV) else None
                if res is None:
                    res = (wrapped, sub, bt, at)
                else:
                    # wrapped only if wrapped on every alternative
                    res = (res[0] and wrapped, res[1] if res[1] == sub else None, res[2] if not wrapped else bt, res[3] if not wrapped else at)
    return res


def check(program: Program, run: Run) -> None:
    run.explanation = (
        "Grouping is decided locally per (parent renderer, operand slot, child): every composite Term class is rendered "
        "symbolically with each concrete operator member and each kind of child object; the decision functions "
        "(left_needs_parens / right_needs_parens / needs_brackets) fold to constants, and the slot is 'wrapped' iff it sits "
        "between literal parentheses or receives subcriterion=True and the child's renderer reads that flag. The resulting "
        "table is compared cell by cell with the standard SQL precedence/associativity table (re-association allowed only in "
        "pure +/- chains under +, pure * chains and single-connective AND/OR chains). Because composites concatenate child "
        "text, local correctness of all cells implies correctness at any depth; a bad cell is a depth-two counter-example. "
        "Adjacent-operator fusion into `--` is checked on the same table. Exhaustive over the product; nothing is executed.")
    run.rule("regroup: reference rule says parentheses are needed and the parent neither wraps the slot nor passes an effective subcriterion flag")
    run.rule("fuse: parent operator text ending in '-' directly followed by a child that may start with '-'")
    run.rule("joined-operator: operands concatenated by str.join / a loop with an operator as separator (AND, OR, +, ...) form an n-ary operator application: each operand is wrapped literally or receives subcriterion=True")
    run.rule("classification: every Term class has a known operator level (atom / prefix / infix / postfix); an unclassified infix/prefix renderer is a violation")
    run.exhaustive = True
    terms = term_classes(program)
    sel = program.cls("Selectable")
    kinds = child_kinds(program)
    ptab = parent_table(program)
    # ---- step 0: every binary arithmetic operator the enum offers has a level in the reference table
    known_ops, unknown_ops = arithmetic_members(program)
    run.analysed = dict(getattr(run, "analysed", {}) or {})
    run.analysed["arithmetic_operators"] = [n for n, _l, _t in known_ops]
    for n, _lv, txt in unknown_ops:
        run.ob("C06 every arithmetic operator has a precedence level", f"Arithmetic.{n}", False, detail=repr(txt))
        run.finding(f"C06/unclassified-operator:Arithmetic.{n}", f"the Arithmetic enum offers `{txt}` ({n}), an operator without a level in the reference precedence table: "
                    "its cells (as parent and as child of every other operator) cannot be decided", where=program.cls("Arithmetic").module.relpath, rule="classification")
    # ---- step 1: classification of every Term class
    class_kind = {}
    postfix_parents = []
    for c in terms:
        if c.is_subclass_of(sel):
            class_kind[c.qualname] = "statement (parenthesised by ctx.subquery, C10)"
            continue
        shp, sk = shape_of(program, c)
        f = c.resolve("get_sql")
        dc = f.cls.qualname
        if dc in ptab:
            class_kind[c.qualname] = f"{shp}:{dc}"
            known = True
        elif shp in ("atom", "passthrough", "empty"):
            class_kind[c.qualname] = "atom"
            known = True
            if "passthrough" in getattr(shape_of, "last_shapes", ()):
                owner = render_owner(c, sk)
                tok = owner in TRANSPARENT_OK or any(k.qualname in TRANSPARENT_OK for k in c.mro)
                run.ob("C06 a class that parents treat as an atom never prints its operand bare", c.qualname, tok, detail=f"verbatim child path in {owner}", where=f.loc())
                if not tok:
                    run.finding(f"C06/transparent-wrapper:{owner}", f"{owner} has a render path that prints its operand without any brackets or text of its own, while every parent renderer treats a {c.qualname} as an atom "
                                "(no `operator` attribute, not a criterion class): an operator inside it regroups with the surrounding expression", where=f.loc(), rule="classification")
        elif shp in ("postfix", "infix") and render_owner(c, sk) in KNOWN_KEYWORD_CRITERIA:
            class_kind[c.qualname] = f"keyword-criterion({shp}, level comparison)"
            known = True
            if dc not in [p for p, _ in postfix_parents]:
                postfix_parents.append((dc, c))
        elif shp == "prefix" and _keyword_over_statement(program, c, sk):
            class_kind[c.qualname] = "atom (keyword over an operand that is a statement and is rendered with subquery=True: self-delimiting like a function call)"
            known = True
        elif shp == "postfix" and _self_bracketing_postfix(program, c, kinds):
            class_kind[c.qualname] = "atom (postfix operator that brackets every operand that is not a primary: binds tighter than any infix operator by construction)"
            known = True
        elif shp in ("postfix", "infix", "prefix"):
            dc = render_owner(c, sk)
            class_kind[c.qualname] = f"UNCLASSIFIED {shp} operator rendered by {dc}"
            known = False
        else:
            class_kind[c.qualname] = f"UNCLASSIFIED {shp}"
            known = False
        run.ob("C06 every Term class has an operator level", c.qualname, known, detail=class_kind[c.qualname], where=f.loc(), nontrivial=False)
        if not known:
            run.finding(f"C06/unclassified-operator:{dc}", f"{dc} renders as a {shp} operator without a precedence level or wrap rule: its operands and its use as an operand are not parenthesised", where=f.loc(), rule="classification")
    run.extra["class_kinds"] = class_kind
    sub_readers = {c.qualname for c in terms if not c.is_subclass_of(sel) and reads_subcriterion(program, c)}
    run.extra["classes_reading_subcriterion"] = sorted(sub_readers)
    # a class *honours* the flag only if, given subcriterion=True, every render path is bracketed -- whatever the other
    # flags it receives say (a parent hands its own with_alias down to its operands, so both values reach the child)
    honours = set()
    for qn in sorted(sub_readers):
        c = program.cls(qn)
        allw = True
        for wa in (False, True):
            sk, _ = render(program, c, attrs={"alias": Const(None)}, ctx=CtxV.incoming().with_(with_alias=Const(wa), subcriterion=Const(True)))
            for flat in paths(sk):
                flat = [p for p in flat if not (isinstance(p, Lit) and not p.text)]
                w = bool(flat) and isinstance(flat[0], Lit) and flat[0].text.startswith("(") and isinstance(flat[-1], Lit) and flat[-1].text.endswith(")")
                if not w:
                    allw = False
                    run.ob("C06 a class reading ctx.subcriterion brackets itself on every path when the flag is set", f"{qn}:with_alias={wa}", False,
                           detail="path: " + "".join(p.text if isinstance(p, Lit) else "{}" for p in flat)[:100], where=c.resolve("get_sql").loc())
                    run.finding(f"C06/subcriterion-not-honoured:{c.resolve('get_sql').cls.qualname}:with_alias={wa}",
                                f"{qn}.get_sql receives subcriterion=True (its parent decided brackets are needed) but has a render path without the brackets when with_alias={wa}: "
                                "the nested group loses its parentheses in positions rendered with that flag (e.g. the select list)", where=c.resolve("get_sql").loc(), rule="regroup")
                    break
        if allw:
            honours.add(qn)
            run.ob("C06 a class reading ctx.subcriterion brackets itself on every path when the flag is set", qn, True, where=c.resolve("get_sql").loc())
    run.extra["classes_honouring_subcriterion"] = sorted(honours)

    # ---- step 2+3: the table
    cells = 0
    table = {}
    field = lambda name: Obj(program.cls("Field"), {}, name)  # noqa: E731

    def do_parent(pname: str, pcls: ClassInfo, opattr, members, slots):
        nonlocal cells
        for pop, member, plevel in members:
            for slot in slots:
                side = "prefix" if pname in ("Negative", "Not") else ("left" if slot in ("left", "term") else "right")
                if pname in [p for p, _ in postfix_parents] and slot != "term":
                    side = "right"
                for k in kinds:
                    attrs = {"alias": Const(None)}
                    if opattr:
                        attrs[opattr] = member
                    for s2 in slots:
                        attrs[s2] = field(s2)
                    child = k.make()
                    child.name = slot
                    attrs[slot] = child
                    if pname == "NestedCriterion":
                        attrs["nested_comparator"] = enum_member(program, "Boolean", "and_")
                    sk, _ = render(program, pcls, attrs=attrs, ctx=CtxV.incoming().with_(with_alias=Const(False), subcriterion=Const(False)))
                    sc = slot_context(peel(sk), slot)
                    if sc is None:
                        raise AnalysisError(f"anchor vanished: slot {pname}.{slot} not found in skeleton")
                    wrapped, sub, bt, at = sc
                    eff_sub = sub == Const(True) and child.cls.qualname in honours
                    is_wrapped = wrapped or eff_sub
                    reason = needs_parens(plevel, pop, side, k)
                    cells += 1
                    cell = f"{pname}.{slot}[{pop}]:{k.name}"
                    table[cell] = {"wrapped": is_wrapped, "needed": bool(reason)}
                    ok = not reason or is_wrapped
                    run.ob("C06 parentheses present wherever omission regroups", cell, ok,
                           detail=f"needed: {reason or 'no'}; wrapped: {is_wrapped} (literal={wrapped}, subcriterion={show(sub)})")
                    if not ok:
                        note = " (same value, different tree)" if pname == "Negative" and k.level == LV_MUL else ""
                        run.finding(f"C06/regroup:{cell}", f"{pname} renders its {slot} operand of kind {k.name} without parentheses under operator {pop}: {reason}{note}",
                                    where=pcls.resolve('get_sql').loc(), rule="regroup")
                    # fusion
                    if bt.endswith("-") and not is_wrapped and k.may_minus and ok:
                        run.ob("C06 adjacent operators do not fuse", cell, False, detail=f"'{bt[-1]}' + child that may start with '-'")
                        run.finding(f"C06/fuse:{cell}", f"{pname} writes '-' directly before its {slot} operand; a {k.name} operand starts with '-' and the two fuse into the comment opener '--'",
                                    where=pcls.resolve('get_sql').loc(), rule="fuse")

    for pname, (opattr, members) in ptab.items():
        pcls = program.cls(pname)
        sk, _ = render(program, pcls)
        slots = []
        for p, _, _ in walk_parts(peel(sk)):
            if isinstance(p, SlotP) and p.method == "get_sql":
                a = recv_path(p.recv).split("[")[0]
                if a not in slots:
                    slots.append(a)
        if not slots:
            raise AnalysisError(f"anchor vanished: {pname} has no operand slots")
        do_parent(pname, pcls, opattr, members, slots)
    for dc, c in postfix_parents:
        sk, _ = render(program, c)
        slots = []
        for p, _, _ in walk_parts(peel(sk)):
            if isinstance(p, SlotP) and p.method == "get_sql":
                a = recv_path(p.recv).split("[")[0]
                if a not in slots and "." not in a and "(" not in a and f"{dc}.{a}" not in EXEMPT_SLOTS and a not in QUALIFIER_ATTRS:
                    slots.append(a)
        if not slots:
            continue
        # operands that are syntactically delimited by the class's own literals on both sides with brackets are safe
        do_parent(dc, c, None, [("postfix", None, LV_CMP)], slots)
    run.analysed = {"term_classes": len(terms), "parent_slots_x_operators_x_child_kinds": cells, "child_kinds": [k.name for k in kinds],
                    "parents": list(ptab) + [p for p, _ in postfix_parents]}
    run.extra["table"] = table
    if cells < 250:
        raise AnalysisError(f"instance count below floor: cells {cells}")


    # ---- n-ary operators spelled as a join: `" AND ".join(c.get_sql(ctx) for c in self._filters)` builds the same tree
    # as a ComplexCriterion chain but bypasses its bracket decision
    import dataclasses
    import re as _re
    from ..skel import skeletons
    from ..symex import JoinP, Rep
    OPS = _re.compile(r"^\s*(AND|OR|XOR|\+|-|\*|/|%|\|\||=|<>|<|>)\s*$", _re.I)

    def lit(st):
        return "".join(x.text for x in st.parts if isinstance(x, Lit)) if isinstance(st, Str) else ""

    def find_slots(y, out, dd=0):
        if dd > 40 or isinstance(y, (str, int, float, bool, type(None))):
            return
        if isinstance(y, SlotP):
            out.append(y)
            return
        if isinstance(y, (tuple, list)):
            for i in y:
                find_slots(i, out, dd + 1)
            return
        if dataclasses.is_dataclass(y):
            for fl in dataclasses.fields(y):
                if fl.name not in ("src", "cond", "ctx", "recv"):
                    find_slots(getattr(y, fl.name), out, dd + 1)
    seen_j = set()
    njoins = 0

    def scan(x, cls, d=0):
        nonlocal njoins
        if d > 60 or isinstance(x, (str, int, float, bool, type(None))):
            return
        if isinstance(x, (tuple, list)):
            for i in x:
                scan(i, cls, d + 1)
            return
        if isinstance(x, (Rep, JoinP)):
            njoins += 1
            sep = lit(x.sep)
            if OPS.match(sep or ""):
                slots = []
                find_slots(x.body if isinstance(x, Rep) else x.items, slots)
                for sl in slots:
                    fn = sl.src[0] if sl.src else cls.qualname
                    key = (fn, recv_path(sl.recv), sep.strip())
                    if key in seen_j:
                        continue
                    seen_j.add(key)
                    sub = sl.ctx.fields["subcriterion"] if isinstance(sl.ctx, CtxV) else None
                    ok = sub == Const(True)
                    run.ob("C06 operands joined by an operator separator are bracketed", f"{fn}:{key[1]} {key[2]}", ok, detail=f"subcriterion={show(sub)}",
                           where=f"{sl.src[2]}:{sl.src[1]}" if sl.src else "")
                    if not ok:
                        run.finding(f"C06/joined-operator:{fn}:{root_attr(key[1])}:{key[2].upper()}",
                                    f"{fn} concatenates the renderings of `{key[1]}` with the operator `{key[2]}` as separator and passes subcriterion={show(sub)}: an operand that is an OR/XOR group (or any looser-binding expression) "
                                    "is written without parentheses and regroups under the separator", where=f"{sl.src[2]}:{sl.src[1]}" if sl.src else "", rule="joined-operator")
        if dataclasses.is_dataclass(x):
            for fl in dataclasses.fields(x):
                if fl.name not in ("src", "cond", "ctx", "recv"):
                    scan(getattr(x, fl.name), cls, d + 1)
    for c2, (sk2, _ev) in skeletons(program).items():
        scan(sk2, c2)
    run.analysed["joined_renderings_scanned"] = njoins
    if njoins < 40:
        raise AnalysisError(f"instance count below floor: joined renderings {njoins}")
