"""C12 -- aliases are emitted exactly once, where they define a name, for every term kind (DESIGN 2/C12)."""
from __future__ import annotations

import ast

from ..model import AnalysisError, Program
from ..report import Run
from ..skel import (BUILDER_CLASSES, cond_mentions, count_marker, field_class, recv_path, render, root_attr, kind_states,
                    term_classes)
from ..symex import Alt, Const, CtxV, Hole, Inh, Lit, Phi, SlotP, Str, Sym, show, walk_parts

MARK = "@ALIAS@"
# operand receivers that cannot carry an alias (one reason each)
EXEMPT_OPERANDS = {
    "schema": "Schema objects have no alias",
    "_schema": "Schema objects have no alias",
    "as_type": "SQL type descriptors have no alias",
}
DEFINING = {"_selects": "select list", "_from": "FROM item", "_returns": "RETURNING item", "_distinct_on": "DISTINCT ON item"}


# terms for which an alias is not SQL at all (one reason each)
EXEMPT_CLASSES = {"Star": "`* AS x` is not SQL; a star cannot define a name"}


def peel(v):
    """drop outermost alternatives that render nothing or raise (incomplete builder, CASE without WHEN)"""
    from ..symex import Phi, RaiseV, EMPTY
    for _ in range(8):
        if isinstance(v, Phi):
            if isinstance(v.a, RaiseV):
                v = v.b
                continue
            if isinstance(v.b, RaiseV):
                v = v.a
                continue
        if isinstance(v, Str) and len(v.parts) == 1 and isinstance(v.parts[0], Alt):
            a = v.parts[0]
            if not a.a.parts:
                v = a.b
                continue
            if not a.b.parts:
                v = a.a
                continue
        break
    return v


def discipline(program, c):
    on, _ = render(program, c, attrs={"alias": Const(MARK)}, ctx=CtxV.incoming().with_(with_alias=Const(True)))
    off, _ = render(program, c, attrs={"alias": Const(MARK)}, ctx=CtxV.incoming().with_(with_alias=Const(False)))
    on, off = peel(on), peel(off)
    lo_on, hi_on = count_marker(on, MARK)
    lo_off, hi_off = count_marker(off, MARK)
    if hi_on == 0 and hi_off == 0:
        kind = "never"
    elif hi_on > 1:
        kind = "duplicated"
    elif hi_off > 0 and lo_off == hi_off == 1 and lo_on == 1:
        kind = "unconditional"
    elif lo_on == 1 and hi_on == 1 and hi_off == 0:
        kind = "gated"
    else:
        kind = "branch-dependent"
    return kind, (lo_on, hi_on, lo_off, hi_off), on


def ends_with_alias(v) -> bool:
    """the alias marker is the last emitted text on every path where it occurs (modulo a closing quote hole)"""
    if not isinstance(v, Str) or not v.parts:
        return True
    tail = list(v.parts)
    while tail and isinstance(tail[-1], Hole):
        tail.pop()
    if not tail:
        return True
    last = tail[-1]
    if isinstance(last, Lit):
        return last.text.endswith(MARK) or MARK not in "".join(p.text for p in v.parts if isinstance(p, Lit))
    if isinstance(last, Alt):
        return ends_with_alias(last.a) and ends_with_alias(last.b) and all(
            count_marker(Str((p,)), MARK)[1] == 0 for p in tail[:-1])
    return count_marker(v, MARK)[1] == 0


def _attr_owner(c, attr: str) -> str:
    """most basic class of c's hierarchy that assigns self.<attr> (the class the operand belongs to)"""
    import ast as _a
    for k in reversed(c.mro):
        for f in k.methods.values():
            if not f.params or f.is_static:
                continue
            sn = f.params[0]
            for n in _a.walk(f.node):
                if isinstance(n, _a.Attribute) and n.attr == attr and isinstance(n.ctx, _a.Store) and isinstance(n.value, _a.Name) and n.value.id == sn:
                    return k.qualname
    return c.qualname


def _rebuilt_from_name(program: Program, run: Run) -> None:
    import ast
    from ..inline import inlined
    from ..skel import BUILDER_CLASSES
    term = program.cls("Term")
    n = 0
    seen = set()
    for bn in BUILDER_CLASSES:
        c = program.cls(bn)
        names = []
        for k in c.mro:
            for nm, f in k.methods.items():
                if f.is_builder and nm not in names:
                    names.append(nm)
        for nm in names:
            f0 = c.resolve(nm)
            f = inlined(program, f0, c)
            params = set(f.params[1:]) | set(f.kwonly) | ({f.vararg} if f.vararg else set())
            # names standing for (an element of) a parameter: loop variables over it, plain copies
            carriers = set(params)
            proj: dict[str, str] = {}        # local -> the carrier whose `.name` it holds
            for _ in range(3):
                for node in ast.walk(f.node):
                    if isinstance(node, (ast.For, ast.comprehension)) and isinstance(node.target, ast.Name):
                        it = node.iter
                        if isinstance(it, ast.Name) and it.id in carriers:
                            carriers.add(node.target.id)
                        elif isinstance(it, ast.Tuple) and any(isinstance(x, ast.Name) and x.id in carriers for x in it.elts) or (
                                isinstance(it, ast.Tuple) and any(isinstance(x, ast.Starred) and isinstance(x.value, ast.Name) and x.value.id in carriers for x in it.elts)):
                            carriers.add(node.target.id)
                    if isinstance(node, ast.Assign) and len(node.targets) == 1 and isinstance(node.targets[0], ast.Name):
                        v = node.value
                        if isinstance(v, ast.Name) and v.id in carriers:
                            carriers.add(node.targets[0].id)
                        if isinstance(v, ast.Attribute) and v.attr == "name" and isinstance(v.value, ast.Name) and v.value.id in carriers:
                            proj[node.targets[0].id] = v.value.id
            for node in ast.walk(f.node):
                if not (isinstance(node, ast.Call) and isinstance(node.func, ast.Name)):
                    continue
                r = program.resolve_global(f.module, node.func.id)
                if not (r and r[0] == "class" and (r[1] is term or r[1].is_subclass_of(term))):
                    continue
                n += 1
                base = None
                for a in list(node.args) + [k.value for k in node.keywords if k.arg in ("name",)]:
                    if isinstance(a, ast.Attribute) and a.attr == "name" and isinstance(a.value, ast.Name) and a.value.id in carriers:
                        base = a.value.id
                    elif isinstance(a, ast.Name) and a.id in proj:
                        base = proj[a.id]
                if base is None:
                    continue
                keeps = any(k.arg == "alias" and any(isinstance(x, ast.Attribute) and x.attr == "alias" for x in ast.walk(k.value)) for k in node.keywords)
                run.ob("C12/R7 a term handed to a builder call is kept with its alias", f"{c.qualname}.{nm}:{node.func.id}({base}.name)", keeps, where=f.loc(node))
                key = f"C12/alias-dropped-on-rebuild:{f0.cls.qualname}.{nm}:{node.func.id}"
                if not keeps and key not in seen:
                    seen.add(key)
                    run.finding(key, f"{f0.cls.qualname}.{nm} rebuilds the term it was given as `{ast.unparse(node)[:60]}` from its name alone: an alias set on that term "
                                     f"(`{base}.as_('x')`) is gone before the statement is rendered, so the defining position prints no alias", where=f.loc(node), rule="R7")
    run.analysed["term_constructions_in_builder_calls"] = n
    if n < 10:
        raise AnalysisError(f"instance count below floor: term constructions inside builder calls {n}")


def check(program: Program, run: Run) -> None:
    run.explanation = (
        "Per-class render skeletons (symbolic evaluation of every Term subclass's effective get_sql, helpers inlined "
        "along the MRO, children kept as slots with their abstract SqlContext): the alias marker must occur exactly once "
        "at the end when with_alias is on and never when it is off (R1); every operand slot of every composite term must "
        "pass with_alias=False (R2); defining positions of all six builder classes pass with_alias=True (R3); GROUP BY / "
        "ORDER BY alias references are guarded by membership in the select list's aliases and fall back to alias-free "
        "rendering (R4). Nothing is executed.")
    run.rule("R1 alias discipline per Term class: gated (on: exactly once, last; off: never)")
    run.rule("R2 operand slots: ctx.with_alias is Const False at every nested get_sql of a composite term")
    run.rule("R3 defining slots (_selects, _from, Join.item, _returns, _distinct_on): ctx.with_alias is Const True")
    run.rule("R6 the alias set consulted by GROUP BY / ORDER BY is a re-iterable, per-object value: no one-shot iterator tested in a loop, no memo inherited by copies")
    run.rule("R5 (inherited from C08/R1c) the dialect's GROUP BY / ORDER BY alias policy reaches every entry path, top-level set operations included")
    run.rule("R4 alias references only under membership in the select list's aliases; fallback renders with alias off")
    run.assumptions += ["class-hierarchy resolution; user subclasses of Term are outside the repository"]
    terms = term_classes(program)
    sel = program.cls("Selectable")
    run.analysed = {"term_classes": len(terms), "modules": len(program.modules)}
    if len(terms) < 80:
        raise AnalysisError(f"instance count below floor: term classes {len(terms)}")

    # ---- R1 / R2
    seen_r1: dict = {}
    seen_r2: dict = {}
    bad_kind: dict = {}
    bad_slot: dict = {}
    nslots = 0
    for c in terms:
        f = c.resolve("get_sql")
        is_stmt = c.is_subclass_of(sel)
        kind, counts, on = discipline(program, c)
        if is_stmt:
            # statements used as FROM/JOIN items: the tail wrap is C10/R2's obligation; the general discipline is an observation
            run.info(f"C12/info:statement-alias:{c.qualname}", f"{c.qualname} (statement) alias discipline: {kind} {counts}")
            # ... but a SELECT must write its alias exactly when the position asks for it (with_alias), whatever the
            # other embedding flags say: an aliased query used as an IN / comparison / set-operation operand is
            # rendered with subquery=True and with_alias=False
            if c.qualname in BUILDER_CLASSES:
                sel_attrs = {**kind_states(program)["SELECT"], "alias": Const(MARK)}
                for flag in (True, False):
                    offv, _ = render(program, c, attrs=sel_attrs, ctx=CtxV.incoming().with_(with_alias=Const(False), subquery=Const(flag)))
                    lo_, hi_ = count_marker(peel(offv), MARK)
                    run.ob("C12/R1 a SELECT statement writes its alias only when with_alias is on", f"{c.qualname}:subquery={flag}", hi_ == 0, detail=f"alias occurrences {lo_}..{hi_}",
                           where=f.loc())
                    if hi_ > 0:
                        run.finding(f"C12/statement-alias-ungated:{c.qualname}", f"{c.qualname} (SELECT) writes its alias although with_alias is off (subquery={flag}): an aliased query used as an operand "
                                    "(IN, comparison, set-operation member) prints `(SELECT ...) alias` in the middle of an expression", where=f.loc(), rule="R1")
                        break
            continue
        if c.name in EXEMPT_CLASSES:
            run.info(f"C12/info:exempt:{c.qualname}", f"{c.qualname} exempt from R1: {EXEMPT_CLASSES[c.name]} (discipline: {kind})")
            continue
        ok = kind == "gated" and ends_with_alias(on)
        run.ob("C12/R1 alias discipline", c.qualname, ok, detail=f"{kind} on(min,max)={counts[:2]} off(min,max)={counts[2:]}", where=f.loc())
        if not ok:
            k = kind if kind != "gated" else "not-last"
            bad_kind[c] = k
        # R2
        sk, _ = render(program, c)
        for part, conds, in_rep in walk_parts(sk):
            if not isinstance(part, SlotP) or part.method != "get_sql":
                continue
            rp = recv_path(part.recv)
            ra = root_attr(rp)
            if ra in EXEMPT_OPERANDS or "create_param" in rp:
                continue
            nslots += 1
            if not isinstance(part.ctx, CtxV):
                continue  # no-context calls are C04/C08's ctx-bypass
            from .c06 import _renders_a_bare_name
            if _renders_a_bare_name(program, c, part):
                continue  # a child that prints a name and nothing else (a named window): it has no alias to print
            fc = field_class(part.ctx.fields["with_alias"])
            good = fc == "const" and part.ctx.fields["with_alias"] == Const(False)
            run.ob("C12/R2 operand slot turns alias printing off", f"{c.qualname}:{rp}", good,
                   detail=f"with_alias={show(part.ctx.fields['with_alias'])}", where=f"{part.src[2]}:{part.src[1]}" if part.src else "")
            if not good:
                srccls = None    # keyed by the class that owns the operand attribute (stable when the rendering code moves to a base class or helper)
                ra2 = ra + ("[]" if "[]" in rp else "")
                if rp.startswith("all("):
                    ra2 = rp[4:].rstrip(")") + "[]"    # Criterion.all(self._filters): the same operands as a loop over _filters
                bad_slot[(c, ra2)] = (part.src[0] if part.src else f.qualname, part)
    # a finding is keyed by the most basic term class that uses the same get_sql definition and shows the same discipline
    # (stable when get_sql moves into a mixin or becomes a base-class template method with hooks)
    for c, k in bad_kind.items():
        gf = c.resolve("get_sql")
        root = next((a for a in reversed(c.mro) if bad_kind.get(a) == k and a.resolve("get_sql") is gf), c)
        seen_r1.setdefault((root.qualname, k), []).append(c.qualname)
    # an operand finding is keyed by the most basic class that renders the same operand badly *through the same source
    # function*: subclasses inheriting the renderer share the key, siblings that merely share a pulled-up helper and
    # subclasses that override the renderer keep their own
    for (c, ra2), (srcfn, part) in bad_slot.items():
        root = next((a for a in reversed(c.mro) if (a, ra2) in bad_slot and bad_slot[(a, ra2)][0] == srcfn), c)
        seen_r2.setdefault((root.qualname, ra2), (part, c))
    for (dc, k), classes in sorted(seen_r1.items()):
        what = {"never": "never emits its alias: an aliased instance in a defining position silently loses the name",
                "unconditional": "emits its alias even when with_alias is off: the alias is printed inside expressions",
                "branch-dependent": "emits its alias on some render branches only",
                "duplicated": "can emit its alias more than once",
                "not-last": "emits text after its alias"}[k]
        run.finding(f"C12/alias-discipline:{dc}:{k}", f"{dc}.get_sql {what} (affects {', '.join(sorted(set(classes))[:6])}{'...' if len(set(classes)) > 6 else ''})",
                    where=(program.cls(dc).resolve("get_sql").loc() if program.cls(dc).resolve("get_sql") is not None else ""), rule="R1")
    for (dc, rp), (part, c) in sorted(seen_r2.items()):
        run.finding(f"C12/operand-alias:{dc}.{rp}",
                    f"{dc} renders its operand `{rp}` with the incoming with_alias flag ({show(part.ctx.fields['with_alias'])}): an aliased operand prints its alias mid-expression",
                    where=f"{part.src[2]}:{part.src[1]}" if part.src else "", rule="R2")
    run.analysed["operand_slots"] = nslots

    # ---- R3 defining positions
    join_classes = [program.cls(n) for n in ("Join", "JoinOn", "JoinUsing")]
    # what the statements hand to their joins: a join class that passes the flag on unchanged is judged under these values
    delivered = set()
    for bn in BUILDER_CLASSES:
        skb, _ = render(program, program.cls(bn))
        for part, conds, in_rep in walk_parts(skb):
            if isinstance(part, SlotP) and root_attr(recv_path(part.recv)) == "_joins" and isinstance(part.ctx, CtxV):
                delivered.add(part.ctx.fields["with_alias"])
    if not delivered:
        raise AnalysisError("anchor vanished: no statement renders its _joins")

    def effective(v):
        return set(delivered) if isinstance(v, Inh) and v.name == "with_alias" else {v}
    for jc in join_classes:
        sk, _ = render(program, jc)
        for part, conds, in_rep in walk_parts(sk):
            if isinstance(part, SlotP) and root_attr(recv_path(part.recv)) == "item" and isinstance(part.ctx, CtxV):
                good = all(v == Const(True) for v in effective(part.ctx.fields["with_alias"]))
                run.ob("C12/R3 defining slot turns alias printing on", f"{jc.qualname}:item", good, where=f"{part.src[2]}:{part.src[1]}")
                if not good:
                    run.finding(f"C12/defining-alias:{jc.qualname}.item", f"{jc.qualname} renders the joined item without with_alias=True: its alias is never defined", rule="R3")
            elif isinstance(part, SlotP) and part.method == "get_sql" and isinstance(part.ctx, CtxV):
                # the join condition (ON criterion / USING fields) is an expression position, not a defining one
                rp = recv_path(part.recv)
                v = part.ctx.fields["with_alias"]
                good = all(v_ != Const(True) for v_ in effective(v))
                run.ob("C12/R3 join condition is not rendered as a defining position", f"{jc.qualname}:{rp}", good, detail=f"with_alias={show(v)}",
                       where=f"{part.src[2]}:{part.src[1]}" if part.src else "")
                if not good:
                    run.finding(f"C12/operand-alias:{jc.qualname}.{root_attr(rp)}",
                                f"{jc.qualname} renders its condition `{rp}` with with_alias=True (the context made for the joined item): an aliased term inside ON/USING prints its alias mid-expression",
                                where=f"{part.src[2]}:{part.src[1]}" if part.src else "", rule="R3")
    for bn in BUILDER_CLASSES:
        bc = program.cls(bn)
        sk, _ = render(program, bc)
        found = {k: 0 for k in DEFINING}
        last_lit = ""
        for part, conds, in_rep in walk_parts(sk):
            if isinstance(part, Lit):
                if part.text.strip():
                    last_lit = part.text
                continue
            if not isinstance(part, SlotP) or not isinstance(part.ctx, CtxV):
                continue
            rp = recv_path(part.recv)
            ra = root_attr(rp)
            if ra not in DEFINING:
                continue
            if ra == "_selects" and "GROUP BY" in last_lit.upper() or (ra == "_selects" and not rp.startswith("_selects[]")):
                continue  # reference position (GROUP BY re-render), judged by R4
            good = part.ctx.fields["with_alias"] == Const(True)
            found[ra] += 1
            run.ob("C12/R3 defining slot turns alias printing on", f"{bn}:{rp}", good,
                   detail=f"with_alias={show(part.ctx.fields['with_alias'])} after {last_lit.strip()[-20:]!r}", where=f"{part.src[2]}:{part.src[1]}")
            if not good:
                run.finding(f"C12/defining-alias:{part.src[0]}:{ra}", f"{part.src[0]} renders the {DEFINING[ra]} without with_alias=True", where=f"{part.src[2]}:{part.src[1]}", rule="R3")
        need = ["_selects", "_from"] + (["_returns", "_distinct_on"] if bn == "PostgreSQLQueryBuilder" else [])
        for k in need:
            if not found[k]:
                raise AnalysisError(f"anchor vanished: no defining slot over {k} found in {bn}.get_sql skeleton")

    # ---- R7: a builder call that is handed a term keeps the term: rebuilding it from its name (`Field(term.name, ...)`)
    # throws the alias the caller gave it away before any renderer sees it
    _rebuilt_from_name(program, run)

    # ---- R8: an item handed to select() / returning() ... is dropped only by the documented subsumption under `*`; a
    # de-duplication guard that compares a projection of the item (name, table) without its alias drops a *named* output
    from ..families import early_drop_guards
    STAR_STATE = ("_select_star", "_select_star_tables", "_return_star")
    ng = 0
    for f8, st8, guards8, later8, read8 in early_drop_guards(program):
        accs = [a for k_, a in later8 if k_ == "acc"]
        if not accs:
            continue
        ng += 1
        star_only = all(any(isinstance(n, ast.Attribute) and n.attr in STAR_STATE for n in ast.walk(g)) for g in guards8)
        ok8 = star_only or not read8 or "alias" in read8
        run.ob("C12/R8 an item is dropped from a defining clause only under `*` or when an item of the same alias is there", f"{f8.qualname}:{st8.lineno}", ok8,
               detail="; ".join(ast.unparse(g)[:60] for g in guards8), where=f8.loc(st8))
        if not ok8:
            run.finding(f"C12/item-dropped-ignoring-alias:{f8.qualname}:{accs[0]}",
                        f"{f8.qualname} returns before adding its argument to {accs[0]} when `{ast.unparse(guards8[-1])[:80]}` holds: the test looks at {sorted(read8)} of the new item but not at its alias, "
                        "so a second item over the same column loses the alias the caller gave it (the named output is never defined)", where=f8.loc(st8), rule="R8")
    run.analysed["early_returns_before_accumulation"] = ng

    # ---- R4 references (judged inside the statement skeleton, i.e. with the context get_sql really passes)
    refs = [("QueryBuilder", "_group_sql", "_groupbys"), ("QueryBuilder", "_orderby_sql", "_orderbys"), ("_SetOperation", "_orderby_sql", "_orderbys")]
    for cn, m, attr in refs:
        c = program.cls(cn)
        sk, _ = render(program, c)
        alias_holes = 0
        fq = f"{cn}.{m}"
        for part, conds, in_rep in walk_parts(sk):
            src = getattr(part, "src", ())
            if not src or fq not in src[3]:
                continue
            if isinstance(part, Hole) and show(part.value).endswith(".alias") and (attr in show(part.value) or "_selects" in show(part.value)):
                alias_holes += 1
                def _alias_source(e) -> bool:
                    t = show(e)
                    if "_selects" in t:
                        return True
                    # a property of a builder whose getter reads the select list's aliases
                    if isinstance(e, Sym) and e.kind == "attr":
                        for k in program.all_classes():
                            g = k.methods.get(e.args[1])
                            if g is not None and g.is_property:
                                src_ = ast.unparse(g.node)
                                if "_selects" in src_ and ".alias" in src_:
                                    return True
                    return False
                def _implies_member(x, pos=True, d=0) -> bool:
                    """does the path condition x (taken with polarity pos) imply `<alias> in <aliases of the select list>`?
                    (`not (not alias or alias not in selected)` does, by De Morgan)"""
                    if d > 12:
                        return False
                    if isinstance(x, Phi):
                        # a conditional value is truthy (falsy) through one of its arms: every arm that can be must imply it
                        arms = [a for a in (x.a, x.b) if not (isinstance(a, Const) and bool(a.value) != pos)]
                        return bool(arms) and all(_implies_member(a, pos, d + 1) for a in arms)
                    if not (isinstance(x, Sym) and x.kind == "op"):
                        return False
                    op = x.args[0]
                    if op in ("in", "not in") and len(x.args) == 3 and _alias_source(x.args[2]):
                        return pos == (op == "in")
                    if op == "not":
                        return _implies_member(x.args[1], not pos, d + 1)
                    if op in ("and", "or"):
                        conjunctive = (op == "and") == pos
                        rs = [_implies_member(a, pos, d + 1) for a in x.args[1:]]
                        return any(rs) if conjunctive else bool(rs) and all(rs)
                    return False
                guarded = any(_implies_member(x) for x in conds)
                run.ob("C12/R4 alias reference guarded by membership in the select list's aliases", fq, guarded,
                       detail="; ".join(show(x) for x in conds)[:200])
                if not guarded:
                    run.finding(f"C12/reference-unguarded:{fq}", f"{fq} writes an alias reference that is not guarded by membership in the select list's aliases", rule="R4")
            if isinstance(part, SlotP) and isinstance(part.ctx, CtxV) and part.method == "get_sql":
                rp = recv_path(part.recv)
                good = part.ctx.fields["with_alias"] == Const(False)
                run.ob("C12/R4 fallback expression rendered with alias printing off", f"{fq}:{rp}", good,
                       detail=f"with_alias={show(part.ctx.fields['with_alias'])}")
                if not good:
                    run.finding(f"C12/reference-alias:{fq}:{rp}",
                                f"{fq} renders `{rp}` with the incoming with_alias flag: inside an aliased subquery the GROUP BY/ORDER BY expression prints its alias",
                                where=f"{part.src[2]}:{part.src[1]}", rule="R4")
        if not alias_holes:
            raise AnalysisError(f"anchor vanished: no alias reference found in {fq}")

    # ---- R5: whether GROUP BY / ORDER BY may name a select alias is a per-dialect context field; a statement entered
    # through str() of a set operation starts from the default context (C08/R1c decides which fields arrive)
    from ..report import Run as _Run
    from . import c08
    sub = _Run("C08", run.tier)
    c08.check(program, sub)
    n5 = 0
    for o in sub.obligations:
        if o.rule.startswith("C08/R1c") and o.subject.rsplit(":", 1)[-1] in ("groupby_alias", "orderby_alias"):
            n5 += 1
            run.ob("C12/R5 (inherited from C08/R1c) alias-reference policy of the dialect reaches operands of a top-level set operation", o.subject, o.ok, o.detail, o.where)
    for fd in sub.findings:
        if not fd.info and fd.key.startswith("C08/entry-context-drops:") and ("groupby_alias" in fd.key or "orderby_alias" in fd.key):
            run.finding("C12/alias-reference-policy:" + fd.key.split(":", 1)[1], "GROUP BY/ORDER BY names a select alias in a dialect that forbids it: " + fd.what, where=fd.where, rule="R5 (inherited from C08/R1c)")
    if n5 < 12:
        raise AnalysisError(f"instance count below floor: alias policy cells {n5}")

    # ---- R6: `alias in (s.alias for s in self._selects)` inside the loop over the ORDER BY terms consumes the generator up
    # to the first hit; a cached alias set is inherited by every builder copied from a rendered one
    from ..families import memo_methods, one_shot_reuse_sites
    sel_cls = program.cls("Selectable")
    for f6, var, desc, node, why in one_shot_reuse_sites(program):
        if f6.cls is not None and (f6.cls.is_subclass_of(sel_cls) or f6.cls is sel_cls) and f6.name.endswith("_sql"):
            run.finding(f"C12/iterator-reused:{f6.qualname}:{var}", f"{f6.qualname} binds `{var}` to {desc}, which {why}; the membership test that decides between alias reference and full expression answers wrongly for later terms",
                        where=f6.loc(node), rule="R6")
    for f6, deco in memo_methods(program):
        if f6.cls is not None and (f6.cls.is_subclass_of(sel_cls) or f6.cls is sel_cls):
            run.finding(f"C12/memo-inherited:{f6.qualname}", f"{f6.qualname} is a {deco}: a builder derived from a rendered one answers with its ancestor's value (e.g. the ancestor's set of select aliases)", where=f6.loc(), rule="R6")
    run.ob("C12/R6 alias set is re-iterable and per object", "Selectable renderers", True, nontrivial=False)
