"""C01 -- builder calls never alter the receiver or earlier-derived objects.

Ownership rule over every @builder method x every concrete receiver class (DESIGN 2/C01).
"""
from __future__ import annotations

import ast
from dataclasses import replace

from ..effects import Effects, org_str
from ..families import is_observer
from ..model import AnalysisError, ClassInfo, FuncInfo, Program
from ..report import Run

FRESH_COPY_CALLS = {"copy", "list", "set", "dict", "sorted", "tuple", "frozenset", "deepcopy"}


# --------------------------------------------------------------------------- copy protocol
class CopyInfo:
    def __init__(self):
        self.recopied: set[str] = set()
        self.full_dict = False
        self.calls_super = False
        self.defined_in: ClassInfo | None = None
        self.problems: list[str] = []
        self.returns_new = False


def _fresh_container_expr(e: ast.expr, selfname: str, attr: str) -> bool:
    """value is a new container built from self.<attr> (or from nothing)"""
    if isinstance(e, (ast.List, ast.Set, ast.Dict, ast.ListComp, ast.SetComp, ast.DictComp, ast.Tuple)):
        return True
    if isinstance(e, ast.Call):
        if isinstance(e.func, ast.Name) and e.func.id in FRESH_COPY_CALLS:
            return True
        if isinstance(e.func, ast.Attribute) and e.func.attr in ("copy", "deepcopy"):
            return True
    if isinstance(e, ast.Subscript) and isinstance(e.slice, ast.Slice):
        return True
    if isinstance(e, ast.BinOp) and isinstance(e.op, ast.Add):
        return _fresh_container_expr(e.left, selfname, attr) or _fresh_container_expr(e.right, selfname, attr)
    return False


def copy_info(program: Program, c: ClassInfo, _memo: dict) -> CopyInfo:
    if c in _memo:
        return _memo[c]
    info = CopyInfo()
    _memo[c] = info
    f = c.resolve("__copy__")
    if f is None:
        info.full_dict = True   # default copy.copy: shallow, every attribute shared
        info.returns_new = True
        return info
    return _copy_of(program, c, f, _memo)


def _copy_of(program: Program, recv: ClassInfo, f: FuncInfo, _memo: dict) -> CopyInfo:
    info = CopyInfo()
    info.defined_in = f.cls
    selfname = f.params[0]
    newvar = None
    for node in ast.walk(f.node):
        if isinstance(node, ast.Assign) and len(node.targets) == 1 and isinstance(node.targets[0], ast.Name):
            v = node.value
            if isinstance(v, ast.Call) and isinstance(v.func, ast.Attribute):
                if v.func.attr == "__new__":
                    newvar = node.targets[0].id
                elif (v.func.attr == "__copy__" and isinstance(v.func.value, ast.Call)
                      and isinstance(v.func.value.func, ast.Name) and v.func.value.func.id == "super"):
                    newvar = node.targets[0].id
                    info.calls_super = True
                    parent = recv.resolve_after(f.cls, "__copy__")
                    if parent is None:
                        info.full_dict = True  # object has no __copy__: would raise -> flagged
                        info.problems.append("super().__copy__() has no target")
                    else:
                        pi = _copy_of(program, recv, parent, _memo)
                        info.recopied |= pi.recopied
                        info.full_dict = pi.full_dict
                        info.problems += pi.problems
    if newvar is None:
        info.problems.append("no new object is created (neither __new__ nor super().__copy__())")
        return info
    for node in ast.walk(f.node):
        if isinstance(node, ast.Call) and isinstance(node.func, ast.Attribute) and node.func.attr == "update":
            tgt = node.func.value
            if (isinstance(tgt, ast.Attribute) and tgt.attr == "__dict__" and isinstance(tgt.value, ast.Name)
                    and tgt.value.id == newvar and node.args and isinstance(node.args[0], ast.Attribute)
                    and node.args[0].attr == "__dict__" and isinstance(node.args[0].value, ast.Name)
                    and node.args[0].value.id == selfname):
                info.full_dict = True
        if isinstance(node, ast.Assign):
            for t in node.targets:
                if (isinstance(t, ast.Attribute) and isinstance(t.value, ast.Name) and t.value.id == newvar):
                    if _fresh_container_expr(node.value, selfname, t.attr):
                        info.recopied.add(t.attr)
                    else:
                        info.recopied.discard(t.attr)
        if isinstance(node, ast.Return) and isinstance(node.value, ast.Name) and node.value.id == newvar:
            info.returns_new = True
    return info


# --------------------------------------------------------------------------- guards
def _alias_none_guard(guards: tuple) -> bool:
    for g in guards:
        try:
            t = ast.parse(g, mode="eval").body
        except SyntaxError:
            continue
        conj = t.values if isinstance(t, ast.BoolOp) and isinstance(t.op, ast.And) else [t]
        for c in conj:
            if (isinstance(c, ast.Compare) and len(c.ops) == 1 and isinstance(c.ops[0], ast.Is)
                    and isinstance(c.left, ast.Attribute) and c.left.attr == "alias"
                    and isinstance(c.comparators[0], ast.Constant) and c.comparators[0].value is None):
                return True
            if (isinstance(c, ast.UnaryOp) and isinstance(c.op, ast.Not)
                    and isinstance(c.operand, ast.Attribute) and c.operand.attr == "alias"):
                return True
    return False


# --------------------------------------------------------------------------- decorator shape
def check_decorator(program: Program, run: Run) -> None:
    f = program.func("utils.builder")
    wrapped = f.params[0]
    inner = [n for n in f.node.body if isinstance(n, ast.FunctionDef)]
    rets = [n.value.id for n in ast.walk(f.node) if isinstance(n, ast.Return) and isinstance(n.value, ast.Name)]
    inner = [n for n in inner if n.name in rets]
    if not inner:
        raise AnalysisError("anchor vanished: utils.builder no longer returns an inner wrapper function")
    w = inner[0]
    recv = w.args.args[0].arg
    copyvar = None
    guarded_default_true = False
    for n in ast.walk(w):
        if isinstance(n, ast.Assign) and isinstance(n.targets[0], ast.Name):
            v = n.value
            cands = [v] if not isinstance(v, ast.IfExp) else [v.body, v.orelse]
            for c in cands:
                if (isinstance(c, ast.Call) and ((isinstance(c.func, ast.Attribute) and c.func.attr == "copy")
                                                 or (isinstance(c.func, ast.Name) and c.func.id == "copy"))
                        and c.args and isinstance(c.args[0], ast.Name) and c.args[0].id == recv):
                    copyvar = n.targets[0].id
                    if isinstance(v, ast.IfExp):
                        t = v.test
                        # getattr(self, "immutable", True): copy taken unless the flag is explicitly falsy
                        if (c is v.body and isinstance(t, ast.Call) and isinstance(t.func, ast.Name) and t.func.id == "getattr"
                                and len(t.args) == 3 and isinstance(t.args[2], ast.Constant) and t.args[2].value is True
                                and isinstance(t.args[1], ast.Constant) and t.args[1].value == "immutable"):
                            guarded_default_true = True
                    else:
                        guarded_default_true = True
    where = f.loc(w)
    run.ob("C01/R4 decorator copies receiver (copy.copy, immutable default True)", "utils.builder",
           bool(copyvar and guarded_default_true), where=where)
    if not (copyvar and guarded_default_true):
        run.finding("C01/decorator:utils.builder:no-copy",
                    "builder wrapper does not shallow-copy the receiver under the default-True immutable test",
                    where=where, rule="R4")
        return
    calls = [n for n in ast.walk(w) if isinstance(n, ast.Call) and isinstance(n.func, ast.Name) and n.func.id == wrapped]
    on_copy = bool(calls) and all(c.args and isinstance(c.args[0], ast.Name) and c.args[0].id == copyvar for c in calls)
    run.ob("C01/R4 wrapped function applied to the copy only", "utils.builder", on_copy, where=where)
    if not on_copy:
        run.finding("C01/decorator:utils.builder:applied-to-receiver",
                    "builder wrapper calls the method on something other than the copy", where=where, rule="R4")
    # returns the copy when the result is None
    ok_ret = False
    for n in ast.walk(w):
        if isinstance(n, ast.If):
            t = n.test
            if (isinstance(t, ast.Compare) and isinstance(t.ops[0], ast.Is) and isinstance(t.comparators[0], ast.Constant)
                    and t.comparators[0].value is None):
                for r in n.body:
                    if isinstance(r, ast.Return) and isinstance(r.value, ast.Name) and r.value.id == copyvar:
                        ok_ret = True
    bad_ret = any(isinstance(n, ast.Return) and isinstance(n.value, ast.Name) and n.value.id == recv for n in ast.walk(w))
    run.ob("C01/R4 wrapper returns the copy when the method returns None", "utils.builder", ok_ret and not bad_ret, where=where)
    if not ok_ret or bad_ret:
        run.finding("C01/decorator:utils.builder:return",
                    "builder wrapper does not return the copy for a None result (or returns the receiver)",
                    where=where, rule="R4")


def check_immutable_switch(program: Program, run: Run) -> None:
    """R4b: the wrapper copies unless `getattr(self, "immutable", True)` is falsy.  The switch must only be turned off by
    the caller (a constructor argument whose default is True); a class attribute or an unconditional assignment that
    sets it to a falsy constant makes every @builder method of that class rewrite its receiver."""
    n = 0
    for c in program.all_classes():
        has_builders = any(f.is_builder for k in c.mro for f in k.methods.values())
        if not has_builders:
            continue
        n += 1
        bad = None
        for k in c.mro:
            v = k.class_attrs.get("immutable")
            if isinstance(v, ast.Constant) and not v.value:
                bad = (k, f"class attribute `immutable = {v.value!r}` on {k.qualname}", getattr(v, "lineno", None))
                break
            for f in k.methods.values():
                if not f.params:
                    continue
                for node in ast.walk(f.node):
                    if isinstance(node, ast.Assign) and isinstance(node.value, ast.Constant) and not node.value.value:
                        for t in node.targets:
                            if isinstance(t, ast.Attribute) and t.attr == "immutable" and isinstance(t.value, ast.Name) and t.value.id == f.params[0]:
                                bad = (k, f"`{ast.unparse(node)}` in {f.qualname}", node.lineno)
                init = k.methods.get("__init__")
                if f is init:
                    for a, d in zip(reversed(f.node.args.args), reversed(f.node.args.defaults)):
                        if a.arg == "immutable" and isinstance(d, ast.Constant) and not d.value:
                            bad = (k, f"constructor default `immutable={d.value!r}` in {f.qualname}", f.node.lineno)
            if bad:
                break
        run.ob("C01/R4b the immutable switch defaults to copying for every class with @builder methods", c.qualname, bad is None, detail=bad[1] if bad else "")
        if bad and not any(fd.key == f"C01/immutable-off:{bad[0].qualname}" for fd in run.findings):
            run.finding(f"C01/immutable-off:{bad[0].qualname}", f"{bad[1]}: the @builder wrapper then applies every builder method (replace_table included) to the receiver itself, "
                        "so the receiver and every object sharing it are rewritten in place", where=f"{bad[0].module.relpath}:{bad[2]}" if bad[2] else "", rule="R4b")
    if n < 10:
        raise AnalysisError(f"instance count below floor: classes with builder methods {n}")


# --------------------------------------------------------------------------- main rule
def builders_of(c: ClassInfo) -> list[FuncInfo]:
    names = []
    for k in c.mro:
        for n, f in k.methods.items():
            if n not in names:
                names.append(n)
    out = []
    for n in names:
        f = c.resolve(n)
        if f is not None and f.is_builder:
            out.append(f)
    return out


def check(program: Program, run: Run) -> None:
    run.explanation = (
        "Static ownership analysis: for every @builder method of every concrete class the interprocedural effect "
        "closure (through self.helper() calls, objects that capture the copy such as Joiner, and callee summaries) "
        "is computed from the syntax tree; every in-place write must hit a container that the class's effective "
        "__copy__ re-copies or that was created in the same activation; writes through elements of shared containers "
        "and writes to arguments other than the guarded alias tag are violations. Nothing is executed.")
    run.rule("R1 shared-mutate: MUTATE self.a requires a in recopied(__copy__ of receiver class) or a rebound fresh in the activation")
    run.rule("R2 deep-mutate: any write through self.a[...].b / self.a.b of a shared object is a violation")
    run.rule("R3 arg-write: WRITE param.x allowed only for x == alias under an 'alias is None' guard")
    run.rule("R4b the immutable switch the decorator consults is only turned off by the caller: no class attribute / assignment / constructor default sets it to a falsy constant")
    run.rule("R4 decorator shape: copy.copy under immutable default True; method applied to the copy; copy returned for None")
    run.rule("R6 a method that is not builder-decorated yet returns the receiver or an object capturing it does not write the receiver")
    run.rule("R5 copy protocol: root __copy__ starts from full __dict__; overrides call super().__copy__()")
    run.assumptions += [
        "class-hierarchy call resolution: no monkey-patching, no user subclasses overriding helpers",
        "copy.copy semantics of CPython: default shallow copy shares every attribute value",
    ]
    eng = Effects(program)
    check_decorator(program, run)
    check_immutable_switch(program, run)

    classes = [c for c in program.all_classes() if builders_of(c)]
    nb_defs = sum(1 for f in program.all_functions() if f.is_builder)
    run.analysed = {"modules": len(program.modules), "classes": len(program.all_classes()),
                    "builder_definitions": nb_defs, "classes_with_builders": len(classes)}
    if len(program.modules) < 16 or nb_defs < 70 or len(classes) < 25:
        raise AnalysisError(f"instance count below floor: modules={len(program.modules)} builders={nb_defs} classes={len(classes)}")

    memo: dict = {}
    entries = []
    for c in classes:
        for f in builders_of(c):
            entries.append((f, c))
    eng.fixpoint(entries)

    # R5 copy protocol
    copy_defs = program.definitions_of("__copy__")
    for f in copy_defs:
        info = _copy_of(program, f.cls, f, memo)
        root = not info.calls_super
        ok = info.returns_new and not info.problems and (info.full_dict if root else True)
        run.ob("C01/R5 copy protocol", f.qualname, ok,
               detail=f"recopied={sorted(info.recopied)} full_dict={info.full_dict} calls_super={info.calls_super} problems={info.problems}",
               where=f.loc())
        if not ok:
            run.finding(f"C01/copy-protocol:{f.qualname}",
                        "__copy__ does not start from the full __dict__ / does not return the new object" if root
                        else "__copy__ override is malformed", where=f.loc(), rule="R5")
        # an override in a subclass must chain to the parent's __copy__
        parent = None
        for k in f.cls.mro[1:]:
            if "__copy__" in k.methods:
                parent = k.methods["__copy__"]
                break
        if parent is not None:
            run.ob("C01/R5 override chains to super().__copy__()", f.qualname, info.calls_super, where=f.loc())
            if not info.calls_super:
                run.finding(f"C01/copy-protocol:{f.qualname}:no-super",
                            f"{f.qualname} does not call super().__copy__(): containers re-copied by {parent.qualname} are shared again",
                            where=f.loc(), rule="R5")

    # R1-R3
    table: dict[str, dict] = {}
    viol: dict[str, dict] = {}   # key -> {recvs:set, all:set, ...}
    total_methods = 0
    for c in classes:
        ci = copy_info(program, c, memo)
        bl = builders_of(c)
        for f in bl:
            total_methods += 1
            s = eng.summary(f, c)
            effs = [(e, None) for e in s.effects]
            # continuations: objects that capture the copy
            for (kc, captured, cloc) in s.constructed:
                names = []
                for k in kc.mro:
                    for n in k.methods:
                        if n not in names and n != "__init__":
                            names.append(n)
                for n in names:
                    g = kc.resolve(n)
                    if is_observer(g):
                        continue  # observers of the capturing object are C02's obligation
                    eng.fixpoint([(g, kc)])
                    gs = eng.summary(g, kc)
                    for e in gs.effects:
                        kind, root, path = e.org
                        if kind != "self" or not path or path[0] not in captured:
                            continue
                        for base in captured[path[0]]:
                            if base[0] in ("fresh", "new", "unknown"):
                                continue
                            effs.append((e, (base[0], base[1], base[2] + path[1:], f"{kc.qualname}.{n}")))
            defname = f"{f.cls.qualname}.{f.name}"
            for e, mapped in effs:
                if mapped is None:
                    kind, root, path = e.org
                    cont = ""
                else:
                    kind, root, path, cont = mapped
                    cont = f" (continuation {cont})"
                subject = f"{c.qualname}::{defname}:{e.kind} {org_str((kind, root, path))}"
                key = what = None
                if kind == "self":
                    if not path:
                        continue
                    attr = path[0]
                    row = table.setdefault(c.qualname, {}).setdefault(attr, {"recopied": attr in ci.recopied, "mutated_by": set(), "rebound_by": set()})
                    if len(path) == 1 and e.kind == "rebind":
                        row["rebound_by"].add(f.name)
                        run.ob("C01/R1 rebinding write stays on the copy", subject, True, where=e.loc)
                        continue
                    if len(path) == 1 and e.kind == "mutate":
                        row["mutated_by"].add(f.name)
                        ok = attr in ci.recopied
                        run.ob("C01/R1 in-place write hits a re-copied container", subject, ok,
                               detail=f"{e.stmt}{cont}", where=e.loc)
                        if not ok:
                            key = f"C01/shared-mutate:{defname}:{attr}"
                            what = (f"{defname} mutates self.{attr} in place ({e.how}) but the effective __copy__ of "
                                    f"{c.qualname} does not re-copy it: receiver and result share the container{cont}")
                    else:
                        run.ob("C01/R2 no write through a shared element/object", subject, False,
                               detail=f"{e.stmt}{cont}", where=e.loc)
                        p = org_str(("self", None, path))[5:]
                        key = f"C01/deep-mutate:{defname}:{p}"
                        what = (f"{defname} writes through a shared object: {e.kind} self.{p} ({e.how}); a shallow container "
                                f"copy shares its elements{cont}")
                elif kind == "param":
                    ok = (e.kind == "rebind" and path == ("alias",) and _alias_none_guard(e.guards))
                    run.ob("C01/R3 argument write is the guarded alias tag", subject, ok,
                           detail=f"{e.stmt} guards={list(e.guards)[-2:]}{cont}", where=e.loc)
                    if not ok:
                        p = org_str(("param", root, path))
                        key = f"C01/arg-write:{defname}:{p}"
                        what = f"{defname} writes to its argument: {e.kind} {p} ({e.stmt}){cont}"
                elif kind == "global":
                    run.ob("C01/R3 no module/class-level state written", subject, False, detail=e.stmt, where=e.loc)
                    key = f"C01/global-write:{defname}:{root}"
                    what = f"{defname} writes module/class-level state {root} ({e.stmt})"
                if key:
                    v = viol.setdefault(key, {"what": what, "where": e.loc, "recvs": set(), "def": f,
                                              "path": [f"{a} @ {b}" for a, b in e.via] + [f"{e.func} @ {e.loc}: {e.stmt}"]})
                    v["recvs"].add(c.qualname)
    run.analysed["builder_methods_x_receivers"] = total_methods
    run.analysed["summaries"] = len(eng.memo)
    for key, v in sorted(viol.items()):
        f = v["def"]
        allrecv = {c.qualname for c in classes if f in builders_of(c)}
        if v["recvs"] >= allrecv:
            run.finding(key, v["what"], where=v["where"], rule=key.split(":")[0], path=v["path"],
                        excerpt=f.module.excerpt(int(v["where"].rsplit(":", 1)[1]), 2))
        else:
            for r in sorted(v["recvs"]):
                run.finding(f"{key}@{r}", v["what"], where=v["where"], rule=key.split(":")[0], path=v["path"],
                            excerpt=f.module.excerpt(int(v["where"].rsplit(":", 1)[1]), 2))
    # R6: a method that is not builder-decorated but hands the raw receiver on (returns it, or builds a
    # continuation object capturing it) is a builder method in the property's sense; it may not write the receiver.
    SELF = ("self", None, ())
    fluent_seen = 0
    raw: dict[str, dict] = {}
    for c in classes:
        names = []
        for k in c.mro:
            for n in k.methods:
                if n not in names:
                    names.append(n)
        for n in names:
            g = c.resolve(n)
            if g is None or g.is_builder or n.startswith("__") or is_observer(g):
                continue
            eng.fixpoint([(g, c)])
            gs = eng.summary(g, c)
            hands_on = SELF in gs.returns or any(SELF in orgs for (_k, cap, _l) in gs.constructed for orgs in cap.values())
            if not hands_on:
                continue
            fluent_seen += 1
            effs = list(gs.effects)
            for (kc, captured, _cloc) in gs.constructed:          # continuations applied to the raw receiver
                for attr, orgs in captured.items():
                    if SELF not in orgs:
                        continue
                    for m in [m for k in kc.mro for m in k.methods if m != "__init__"]:
                        h = kc.resolve(m)
                        if h is None or is_observer(h):
                            continue
                        eng.fixpoint([(h, kc)])
                        for e in eng.summary(h, kc).effects:
                            if e.org[0] == "self" and e.org[2][:1] == (attr,) and len(e.org[2]) > 1:
                                effs.append(replace(e, org=("self", None, e.org[2][1:])))
            writes = [e for e in effs if e.org[0] == "self" and e.org[2] and "*" not in e.org[2]
                      and not (e.kind == "rebind" and e.org[2][-1] == "alias" and _alias_none_guard(e.guards))]
            run.ob("C01/R6 non-builder method handing the receiver on does not write it", f"{c.qualname}::{g.cls.qualname}.{n}",
                   not writes, detail="; ".join(f"{e.kind} {org_str(e.org)}" for e in writes[:3]), where=g.loc())
            for e in writes:
                key = f"C01/receiver-write-outside-builder:{e.func}:{'.'.join(e.org[2])}"
                v = raw.setdefault(key, {"e": e, "entries": set()})
                v["entries"].add(f"{g.cls.qualname}.{n}")
    run.analysed["non_builder_methods_handing_receiver_on"] = fluent_seen
    if fluent_seen < 500:
        raise AnalysisError(f"instance count below floor: non-builder methods handing the receiver on = {fluent_seen}")
    for key, v in sorted(raw.items()):
        e = v["e"]
        run.finding(key, f"{e.func} writes the receiver ({e.kind} {org_str(e.org)}: {e.stmt}) and is reached from "
                         f"{sorted(v['entries'])}, which return the receiver or an object capturing it without the builder "
                         f"decorator's copy: the caller's query is altered by the call", where=e.loc, rule="R6",
                    path=[f"{a} @ {b}" for a, b in e.via] + [f"{e.func} @ {e.loc}: {e.stmt}"])
    run.extra["copy_table"] = {
        cls: {a: {"recopied": r["recopied"], "mutated_by": sorted(r["mutated_by"]), "rebound_by": sorted(r["rebound_by"])}
              for a, r in rows.items() if r["mutated_by"]}
        for cls, rows in table.items()
    }
    # observation: Joiner methods are not builders (outside the quantifier)
    j = program.find_cls("Joiner")
    if j is not None:
        nb = [n for n, g in j.methods.items() if not g.is_builder and n != "__init__"]
        run.info("C01/info:Joiner-not-builder", f"Joiner.{{{','.join(nb)}}} are not builder-decorated: a Joiner kept by the caller and used twice returns the same query object (outside the property's quantifier)")
