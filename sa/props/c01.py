"""C01 -- builder calls never alter the receiver or earlier-derived objects.

Ownership rule over every @builder method x every concrete receiver class (DESIGN 2/C01).
"""
from __future__ import annotations

import ast
from dataclasses import replace

from ..effects import Effects, org_str
from ..families import is_observer
from ..inline import inlined
from ..model import AnalysisError, ClassInfo, FuncInfo, Program
from ..report import Run

FRESH_COPY_CALLS = {"copy", "list", "set", "dict", "sorted", "tuple", "frozenset", "deepcopy"}


# --------------------------------------------------------------------------- copy protocol
class CopyInfo:
    def __init__(self):
        self.recopied: set[str] = set()
        self.full_dict = False
        self.calls_super = False
        self.defined_in: ClassInfo | None = None
        self.problems: list[str] = []
        self.returns_new = False
        self.dynamic_kinds: set[str] = set()   # generic loop over the instance dict: every attribute holding one of these kinds is re-copied
        self.unsupported: str = ""             # a shape of __copy__ the rules do not understand (no verdict)

    def covers(self, program: Program, recv: ClassInfo, attr: str) -> bool:
        if attr in self.recopied:
            return True
        if self.dynamic_kinds:
            kinds = {k for k in program.attr_kinds(recv).get(attr, set()) if k != "none" and not k.startswith("class:")}
            return bool(kinds) and kinds <= self.dynamic_kinds
        return False


def _fresh_container_expr(e: ast.expr, selfname: str, attr: str) -> bool:
    """value is a new container built from self.<attr> (or from nothing)"""
    if isinstance(e, (ast.List, ast.Set, ast.Dict, ast.ListComp, ast.SetComp, ast.DictComp, ast.Tuple)):
        return True
    if isinstance(e, ast.Call):
        if isinstance(e.func, ast.Name) and e.func.id in FRESH_COPY_CALLS:
            return True
        if isinstance(e.func, ast.Attribute) and e.func.attr in ("copy", "deepcopy"):
            return True
    if isinstance(e, ast.Subscript) and isinstance(e.slice, ast.Slice):
        return True
    if isinstance(e, ast.BinOp) and isinstance(e.op, ast.Add):
        return _fresh_container_expr(e.left, selfname, attr) or _fresh_container_expr(e.right, selfname, attr)
    return False


def copy_info(program: Program, c: ClassInfo, _memo: dict) -> CopyInfo:
    if c in _memo:
        return _memo[c]
    info = CopyInfo()
    _memo[c] = info
    f = c.resolve("__copy__")
    if f is None:
        info.full_dict = True   # default copy.copy: shallow, every attribute shared
        info.returns_new = True
        return info
    return _copy_of(program, c, f, _memo)


def _copy_of(program: Program, recv: ClassInfo, f: FuncInfo, _memo: dict) -> CopyInfo:
    info = CopyInfo()
    info.defined_in = f.cls
    f = inlined(program, f, recv, exprs=False)      # a re-copy loop kept in a helper is read at its call site (hooks in expressions are evaluated symbolically below)
    selfname = f.params[0]
    newvar = None
    for node in ast.walk(f.node):
        if isinstance(node, ast.Assign) and len(node.targets) == 1 and isinstance(node.targets[0], ast.Name):
            v = node.value
            if isinstance(v, ast.Call) and isinstance(v.func, ast.Attribute):
                if v.func.attr == "__new__":
                    newvar = node.targets[0].id
                elif (v.func.attr == "__copy__" and isinstance(v.func.value, ast.Call)
                      and isinstance(v.func.value.func, ast.Name) and v.func.value.func.id == "super"):
                    newvar = node.targets[0].id
                    info.calls_super = True
                    parent = recv.resolve_after(f.cls, "__copy__")
                    if parent is None:
                        info.full_dict = True  # object has no __copy__: would raise -> flagged
                        info.problems.append("super().__copy__() has no target")
                    else:
                        pi = _copy_of(program, recv, parent, _memo)
                        info.recopied |= pi.recopied
                        info.dynamic_kinds |= pi.dynamic_kinds
                        info.unsupported = info.unsupported or pi.unsupported
                        info.full_dict = pi.full_dict
                        info.problems += pi.problems
    if newvar is None:
        info.problems.append("no new object is created (neither __new__ nor super().__copy__())")
        return info
    # the new object under other names: `newone = clone(self)` after inlining reads `tmp = ...__new__(...); newone = tmp`
    newvars = {newvar}
    grew = True
    while grew:
        grew = False
        for node in ast.walk(f.node):
            if (isinstance(node, ast.Assign) and len(node.targets) == 1 and isinstance(node.targets[0], ast.Name)
                    and isinstance(node.value, ast.Name) and node.value.id in newvars and node.targets[0].id not in newvars):
                newvars.add(node.targets[0].id)
                grew = True
    new_dict_alias = {n.targets[0].id for n in ast.walk(f.node)
                      if isinstance(n, ast.Assign) and len(n.targets) == 1 and isinstance(n.targets[0], ast.Name)
                      and isinstance(n.value, ast.Attribute) and n.value.attr == "__dict__" and isinstance(n.value.value, ast.Name) and n.value.value.id in newvars}
    for node in ast.walk(f.node):
        if isinstance(node, ast.Call) and isinstance(node.func, ast.Attribute) and node.func.attr == "update":
            tgt = node.func.value
            tgt_is_new_dict = (isinstance(tgt, ast.Attribute) and tgt.attr == "__dict__" and isinstance(tgt.value, ast.Name) and tgt.value.id in newvars) or (
                isinstance(tgt, ast.Name) and tgt.id in new_dict_alias)
            if (tgt_is_new_dict and node.args and isinstance(node.args[0], ast.Attribute)
                    and node.args[0].attr == "__dict__" and isinstance(node.args[0].value, ast.Name)
                    and node.args[0].value.id == selfname):
                info.full_dict = True
            # `new.__dict__.update(self.__dict__ | {name: copy(getattr(self, name)) for name in NAMES})`
            a0 = node.args[0] if node.args else None
            if (tgt_is_new_dict and isinstance(a0, ast.BinOp) and isinstance(a0.op, ast.BitOr) and isinstance(a0.left, ast.Attribute) and a0.left.attr == "__dict__"
                    and isinstance(a0.left.value, ast.Name) and a0.left.value.id == selfname and isinstance(a0.right, ast.DictComp) and len(a0.right.generators) == 1):
                dc = a0.right
                g = dc.generators[0]
                if (isinstance(g.target, ast.Name) and isinstance(dc.key, ast.Name) and dc.key.id == g.target.id and not g.ifs
                        and _fresh_container_expr(dc.value, selfname, g.target.id)):
                    names_ = _eval_names(program, recv, f, g.iter)
                    if names_ is None and isinstance(g.iter, ast.Name):
                        r_ = program.resolve_global(f.module, g.iter.id)
                        if r_ and r_[0] == "const" and isinstance(r_[2], (ast.Tuple, ast.List)) and all(isinstance(x, ast.Constant) and isinstance(x.value, str) for x in r_[2].elts):
                            names_ = {x.value for x in r_[2].elts}
                    if names_ is not None:
                        info.full_dict = True
                        info.recopied |= names_
                    else:
                        info.unsupported = f"names re-copied by the dict merge in {f.qualname} are not resolvable: {ast.unparse(g.iter)[:60]}"
        if isinstance(node, ast.Assign):
            for t in node.targets:
                if (isinstance(t, ast.Attribute) and isinstance(t.value, ast.Name) and t.value.id in newvars):
                    if _fresh_container_expr(node.value, selfname, t.attr):
                        info.recopied.add(t.attr)
                    else:
                        info.recopied.discard(t.attr)
        if isinstance(node, ast.Return) and isinstance(node.value, ast.Name) and node.value.id in newvars:
            info.returns_new = True
    _generic_copy_loops(program, recv, f, info, selfname, newvars)
    return info


def _isinstance_kinds(test: ast.expr, var: str) -> set[str] | None:
    """kinds named by `isinstance(var, (list, set, ...))`; None when the test is something else"""
    if (isinstance(test, ast.Call) and isinstance(test.func, ast.Name) and test.func.id == "isinstance" and len(test.args) == 2
            and isinstance(test.args[0], ast.Name) and test.args[0].id == var):
        spec = test.args[1]
        names = [e for e in (spec.elts if isinstance(spec, ast.Tuple) else [spec])]
        if all(isinstance(n, ast.Name) and n.id in ("list", "set", "dict") for n in names):
            return {n.id for n in names}
    return None


def _dict_items_of(e: ast.expr, names: set[str]) -> bool:
    """`<obj>.__dict__.items()` / `vars(<obj>).items()` for obj in names"""
    if not (isinstance(e, ast.Call) and isinstance(e.func, ast.Attribute) and e.func.attr == "items" and not e.args):
        return False
    b = e.func.value
    if isinstance(b, ast.Attribute) and b.attr == "__dict__" and isinstance(b.value, ast.Name) and b.value.id in names:
        return True
    if isinstance(b, ast.Call) and isinstance(b.func, ast.Name) and b.func.id == "vars" and len(b.args) == 1 and isinstance(b.args[0], ast.Name) and b.args[0].id in names:
        return True
    return isinstance(b, ast.Name) and b.id in names


def _names_comprehension(e: ast.expr, objs: set[str]) -> set[str] | None:
    """`tuple(name for name, value in self.__dict__.items() if isinstance(value, (list, set)))` -> kinds"""
    if isinstance(e, ast.Call) and isinstance(e.func, ast.Name) and e.func.id in ("tuple", "list", "frozenset", "set", "sorted") and len(e.args) == 1:
        e = e.args[0]
    if not isinstance(e, (ast.GeneratorExp, ast.ListComp, ast.SetComp)) or len(e.generators) != 1:
        return None
    g = e.generators[0]
    if not (isinstance(g.target, ast.Tuple) and len(g.target.elts) == 2 and all(isinstance(x, ast.Name) for x in g.target.elts)):
        return None
    nm, val = g.target.elts[0].id, g.target.elts[1].id
    if not (isinstance(e.elt, ast.Name) and e.elt.id == nm and _dict_items_of(g.iter, objs) and len(g.ifs) == 1):
        return None
    return _isinstance_kinds(g.ifs[0], val)


def _generic_copy_loops(program: Program, recv: ClassInfo, f: FuncInfo, info: CopyInfo, selfname: str, newvars: set) -> None:
    """`for name in <names>: state[name] = copy(state[name])` -- a generic re-copy loop.  <names> is resolved to a set of
    attribute names (literal tuple; a tuple stored by a constructor: the container attributes assigned *before* it) or to
    the kinds an instance-dict scan filters on.  Any other loop in __copy__ is not understood: no verdict."""
    objs = {selfname} | newvars
    dict_alias = set()
    for node in ast.walk(f.node):
        if isinstance(node, ast.Assign) and len(node.targets) == 1 and isinstance(node.targets[0], ast.Name):
            v = node.value
            if isinstance(v, ast.Attribute) and v.attr == "__dict__" and isinstance(v.value, ast.Name) and v.value.id in objs:
                dict_alias.add(node.targets[0].id)
            if isinstance(v, ast.Call) and isinstance(v.func, ast.Name) and v.func.id == "vars" and v.args and isinstance(v.args[0], ast.Name) and v.args[0].id in objs:
                dict_alias.add(node.targets[0].id)

    def store_of(body: list, name: str) -> bool:
        """the loop body re-copies attribute <name> of the new object"""
        for st in body:
            if isinstance(st, ast.Assign) and len(st.targets) == 1 and isinstance(st.targets[0], ast.Subscript):
                t = st.targets[0]
                key = t.slice
                base_ok = (isinstance(t.value, ast.Name) and t.value.id in dict_alias) or (
                    isinstance(t.value, ast.Attribute) and t.value.attr == "__dict__" and isinstance(t.value.value, ast.Name) and t.value.value.id in newvars)
                if base_ok and isinstance(key, ast.Name) and key.id == name and _fresh_container_expr(st.value, selfname, name):
                    return True
            if (isinstance(st, ast.Expr) and isinstance(st.value, ast.Call) and isinstance(st.value.func, ast.Name) and st.value.func.id == "setattr"
                    and len(st.value.args) == 3 and isinstance(st.value.args[0], ast.Name) and st.value.args[0].id in newvars
                    and isinstance(st.value.args[1], ast.Name) and st.value.args[1].id == name and _fresh_container_expr(st.value.args[2], selfname, name)):
                return True
        return False

    for loop in [n for n in ast.walk(f.node) if isinstance(n, (ast.For, ast.While))]:
        if isinstance(loop, ast.While) or loop.orelse:
            info.unsupported = f"loop of unrecognised shape in {f.qualname}"
            return
        it = loop.iter
        # (c) scan of the instance dict at copy time: for name, value in self.__dict__.items(): if isinstance(value, (list, set)): state[name] = copy(value)
        if isinstance(loop.target, ast.Tuple) and len(loop.target.elts) == 2 and all(isinstance(x, ast.Name) for x in loop.target.elts) and _dict_items_of(it, objs | dict_alias):
            nm, val = loop.target.elts[0].id, loop.target.elts[1].id
            if len(loop.body) == 1 and isinstance(loop.body[0], ast.If) and not loop.body[0].orelse:
                kinds = _isinstance_kinds(loop.body[0].test, val)
                if kinds and store_of(loop.body[0].body, nm):
                    info.dynamic_kinds |= kinds
                    continue
            info.unsupported = f"instance-dict loop of unrecognised shape in {f.qualname}"
            return
        if not isinstance(loop.target, ast.Name) or not store_of(loop.body, loop.target.id):
            info.unsupported = f"loop of unrecognised shape in {f.qualname}"
            return
        kinds = _names_comprehension(it, objs | dict_alias)
        if kinds:
            info.dynamic_kinds |= kinds
            continue
        names_ = _eval_names(program, recv, f, it)
        if names_ is not None:
            info.recopied |= names_
            continue
        if isinstance(it, ast.Name):
            r_ = program.resolve_global(f.module, it.id)
            if r_ and r_[0] == "const" and isinstance(r_[2], (ast.Tuple, ast.List)):
                it = r_[2]
        if isinstance(it, (ast.Tuple, ast.List)) and all(isinstance(x, ast.Constant) and isinstance(x.value, str) for x in it.elts):
            info.recopied |= {x.value for x in it.elts}
            continue
        if isinstance(it, ast.Attribute) and ((isinstance(it.value, ast.Name) and it.value.id in objs) or
                                              (isinstance(it.value, ast.Call) and isinstance(it.value.func, ast.Name) and it.value.func.id == "type")):
            names = _stored_names(program, recv, it.attr)
            if names is not None:
                info.recopied |= names
                continue
        info.unsupported = f"names iterated by the re-copy loop of {f.qualname} are not resolvable: {ast.unparse(it)[:60]}"
        return


def _eval_names(program: Program, recv: ClassInfo, f: FuncInfo, expr: ast.expr) -> set[str] | None:
    """the iterated names decided by the symbolic evaluator for this receiver class: a constant tuple however it is spelled
    (module constant, class attribute extended per subclass, classmethod hook calling super(), `(*base, "x")` ...)"""
    from ..symex import Const, Evaluator, Frame, ListV, One
    try:
        ev = Evaluator(program)
        o = ev.self_obj(recv)
        orig = getattr(f, "inlined_from", f)
        fr = Frame(orig, recv, o, orig.module)
        fr.env[orig.params[0]] = o
        # locals bound once at the top of the method to the receiver's class (`cls = type(self)`) are read through
        import copy as _copy
        binds = {}
        for st in orig.node.body:
            if (isinstance(st, ast.Assign) and len(st.targets) == 1 and isinstance(st.targets[0], ast.Name)
                    and sum(1 for n in ast.walk(orig.node) if isinstance(n, ast.Name) and n.id == st.targets[0].id and isinstance(n.ctx, ast.Store)) == 1):
                v_ = st.value
                if (isinstance(v_, ast.Call) and isinstance(v_.func, ast.Name) and v_.func.id == "type" and len(v_.args) == 1 and isinstance(v_.args[0], ast.Name)
                        and v_.args[0].id == orig.params[0]) or (isinstance(v_, ast.Attribute) and v_.attr == "__class__" and isinstance(v_.value, ast.Name) and v_.value.id == orig.params[0]):
                    binds[st.targets[0].id] = v_
        if binds and any(isinstance(n, ast.Name) and n.id in binds for n in ast.walk(expr)):
            class _S(ast.NodeTransformer):
                def visit_Name(self, n):
                    return ast.copy_location(_copy.deepcopy(binds[n.id]), n) if n.id in binds and isinstance(n.ctx, ast.Load) else n
            expr = ast.fix_missing_locations(_S().visit(_copy.deepcopy(expr)))
        v = ev.consume_lazy(ev.eval(expr, fr))
    except AnalysisError:
        return None
    if isinstance(v, ListV) and v.items and all(isinstance(i, One) and i.cond is None and isinstance(i.value, Const) and isinstance(i.value.value, str) for i in v.items):
        return {i.value.value for i in v.items}
    return None


def _stored_names(program: Program, recv: ClassInfo, attr: str) -> set[str] | None:
    """attribute names held by `self.<attr>` / a class attribute of that name"""
    e = recv.class_attr(attr)
    if e is not None:
        if isinstance(e, (ast.Tuple, ast.List)) and all(isinstance(x, ast.Constant) and isinstance(x.value, str) for x in e.elts):
            return {x.value for x in e.elts}
        return None
    sites = []
    for k in recv.mro:
        for fn in k.methods.values():
            if fn.is_static or not fn.params:
                continue
            for node in ast.walk(fn.node):
                if isinstance(node, ast.Assign) and any(isinstance(t, ast.Attribute) and t.attr == attr and isinstance(t.value, ast.Name) and t.value.id == fn.params[0] for t in node.targets):
                    sites.append((k, fn, node))
    if len(sites) != 1 or sites[0][1].name != "__init__":
        return None
    k, fn, node = sites[0]
    if isinstance(node.value, (ast.Tuple, ast.List)) and all(isinstance(x, ast.Constant) and isinstance(x.value, str) for x in node.value.elts):
        return {x.value for x in node.value.elts}
    kinds = _names_comprehension(node.value, {fn.params[0]})
    if not kinds:
        return None
    # the scan sees what the constructors have assigned so far: this constructor's stores before the statement, and
    # the whole constructors of the bases if super().__init__() was called before it (a subclass constructor that
    # assigns its containers after super().__init__() comes too late)
    from ..model import expr_kind
    out: set[str] = set()

    def stores(fnode, upto):
        sn = fnode.args.args[0].arg
        for n in ast.walk(fnode):
            if getattr(n, "lineno", 0) >= upto:
                continue
            tgt = val = None
            if isinstance(n, ast.Assign):
                for t in n.targets:
                    if isinstance(t, ast.Attribute) and isinstance(t.value, ast.Name) and t.value.id == sn and expr_kind(n.value) in kinds:
                        out.add(t.attr)
            elif isinstance(n, ast.AnnAssign) and n.value is not None and isinstance(n.target, ast.Attribute) and isinstance(n.target.value, ast.Name) and n.target.value.id == sn and expr_kind(n.value) in kinds:
                out.add(n.target.attr)

    stores(fn.node, node.lineno)
    super_before = any(isinstance(n, ast.Call) and isinstance(n.func, ast.Attribute) and n.func.attr == "__init__" and isinstance(n.func.value, ast.Call)
                       and isinstance(n.func.value.func, ast.Name) and n.func.value.func.id == "super" and n.lineno < node.lineno for n in ast.walk(fn.node))
    if super_before:
        seen_k = False
        for kk in recv.mro:
            if kk is k:
                seen_k = True
                continue
            if seen_k and "__init__" in kk.methods:
                stores(kk.methods["__init__"].node, 10 ** 9)
    return out


# --------------------------------------------------------------------------- guards
def _alias_none_guard(guards: tuple, program: Program | None = None, func: str = "") -> bool:
    """one of the enclosing tests requires `<x>.alias is None` / `not <x>.alias`; a test that calls a predicate helper
    (`if self._rejoins_unaliased_table(join.item, ...)`) is read through the helper's returned expression"""
    def nnf(t, neg=False):
        """negation pushed inwards (De Morgan; `not (x is not None)` is `x is None`), so a guard clause
        `if not A or x.alias is not None: return` reads as `A and x.alias is None` for what follows it"""
        if isinstance(t, ast.UnaryOp) and isinstance(t.op, ast.Not):
            return nnf(t.operand, not neg)
        if isinstance(t, ast.BoolOp):
            op = t.op
            if neg:
                op = ast.Or() if isinstance(op, ast.And) else ast.And()
            return ast.BoolOp(op=op, values=[nnf(v, neg) for v in t.values])
        if neg and isinstance(t, ast.Compare) and len(t.ops) == 1 and isinstance(t.ops[0], (ast.Is, ast.IsNot, ast.Eq, ast.NotEq)):
            flip = {ast.Is: ast.IsNot, ast.IsNot: ast.Is, ast.Eq: ast.NotEq, ast.NotEq: ast.Eq}[type(t.ops[0])]
            return ast.Compare(left=t.left, ops=[flip()], comparators=t.comparators)
        return ast.UnaryOp(op=ast.Not(), operand=t) if neg else t

    def conj_of(t):
        if isinstance(t, ast.BoolOp) and isinstance(t.op, ast.And):
            return [c for v in t.values for c in conj_of(v)]
        return [t]

    def holds(t, depth=0) -> bool:
        for c in conj_of(nnf(t)):
            if (isinstance(c, ast.Compare) and len(c.ops) == 1 and isinstance(c.ops[0], ast.Is)
                    and isinstance(c.left, ast.Attribute) and c.left.attr == "alias"
                    and isinstance(c.comparators[0], ast.Constant) and c.comparators[0].value is None):
                return True
            if (isinstance(c, ast.UnaryOp) and isinstance(c.op, ast.Not)
                    and isinstance(c.operand, ast.Attribute) and c.operand.attr == "alias"):
                return True
            if isinstance(c, ast.Call) and program is not None and depth < 3:
                e = _predicate_expr(program, func, c)
                if e is not None and holds(e, depth + 1):
                    return True
        return False

    for g in guards:
        try:
            t = ast.parse(g, mode="eval").body
        except SyntaxError:
            continue
        if holds(t):
            return True
    return False


def _predicate_expr(program: Program, func: str, call: ast.Call):
    """the expression a predicate helper returns (`self._p(...)`, `Class._p(...)`, `_p(...)` called from <func>)"""
    from ..inline import _as_expr
    host = None
    cn = func.rsplit(".", 1)[0] if "." in func else ""
    hc = program.find_cls(cn) if cn else None
    fn = call.func
    if isinstance(fn, ast.Attribute) and isinstance(fn.value, ast.Name):
        k = hc if fn.value.id in ("self", "cls") else program.find_cls(fn.value.id)
        if k is not None:
            host = k.resolve(fn.attr)
    elif isinstance(fn, ast.Name):
        mods = [hc.module] if hc is not None else list(program.modules.values())
        for m in mods:
            r = program.resolve_global(m, fn.id)
            if r and r[0] == "func":
                host = r[1]
                break
    if host is None:
        return None
    return _as_expr(list(host.node.body))


# --------------------------------------------------------------------------- decorator shape
def check_decorator(program: Program, run: Run) -> None:
    f = inlined(program, program.func("utils.builder"))
    wrapped = f.params[0]
    inner = [n for n in f.node.body if isinstance(n, ast.FunctionDef)]
    rets = [n.value.id for n in ast.walk(f.node) if isinstance(n, ast.Return) and isinstance(n.value, ast.Name)]
    inner = [n for n in inner if n.name in rets]
    if not inner:
        raise AnalysisError("anchor vanished: utils.builder no longer returns an inner wrapper function")
    w = inner[0]
    recv = w.args.args[0].arg
    copyvar = None
    guarded_default_true = False

    def _names_copy(fn) -> bool:
        """the callee is copy.copy: `copy.copy`, `copy` imported from the copy module under any name, or a closure
        variable of the decorator bound once to one of these"""
        if isinstance(fn, ast.Attribute):
            return fn.attr == "copy"
        if not isinstance(fn, ast.Name):
            return False
        nm = fn.id
        for _ in range(3):
            b = [st for st in ast.walk(f.node) if isinstance(st, ast.Assign) and len(st.targets) == 1 and isinstance(st.targets[0], ast.Name) and st.targets[0].id == nm]
            if len(b) == 1 and isinstance(b[0].value, ast.Attribute):
                return b[0].value.attr == "copy"
            if len(b) == 1 and isinstance(b[0].value, ast.Name):
                nm = b[0].value.id
                continue
            break
        if nm == "copy":
            return True
        imp = f.module.imports.get(nm)
        return bool(imp and imp[0] == "copy" and imp[1] == "copy")

    for n in ast.walk(w):
        if isinstance(n, ast.Assign) and isinstance(n.targets[0], ast.Name):
            v = n.value
            cands = [v] if not isinstance(v, ast.IfExp) else [v.body, v.orelse]
            for c in cands:
                if (isinstance(c, ast.Call) and _names_copy(c.func)
                        and c.args and isinstance(c.args[0], ast.Name) and c.args[0].id == recv):
                    copyvar = n.targets[0].id
                    if isinstance(v, ast.IfExp):
                        t = v.test
                        # getattr(self, "immutable", True): copy taken unless the flag is explicitly falsy
                        if (c is v.body and isinstance(t, ast.Call) and isinstance(t.func, ast.Name) and t.func.id == "getattr"
                                and len(t.args) == 3 and isinstance(t.args[2], ast.Constant) and t.args[2].value is True
                                and isinstance(t.args[1], ast.Constant) and t.args[1].value == "immutable"):
                            guarded_default_true = True
                    else:
                        guarded_default_true = True
    def _is_copy_of_recv(c):
        return (isinstance(c, ast.Call) and _names_copy(c.func)
                and c.args and isinstance(c.args[0], ast.Name) and c.args[0].id == recv)

    def _is_flag_test(t):
        return (isinstance(t, ast.Call) and isinstance(t.func, ast.Name) and t.func.id == "getattr" and len(t.args) == 3
                and isinstance(t.args[2], ast.Constant) and t.args[2].value is True and isinstance(t.args[1], ast.Constant) and t.args[1].value == "immutable")
    if not (copyvar and guarded_default_true):
        # statement form: if getattr(self, "immutable", True): x = copy.copy(self) else: x = self
        for n in ast.walk(w):
            if isinstance(n, ast.If) and _is_flag_test(n.test) and len(n.body) == 1 and isinstance(n.body[0], ast.Assign) and len(n.body[0].targets) == 1 \
                    and isinstance(n.body[0].targets[0], ast.Name) and _is_copy_of_recv(n.body[0].value):
                tgt = n.body[0].targets[0].id
                if (len(n.orelse) == 1 and isinstance(n.orelse[0], ast.Assign) and isinstance(n.orelse[0].targets[0], ast.Name) and n.orelse[0].targets[0].id == tgt
                        and isinstance(n.orelse[0].value, ast.Name) and n.orelse[0].value.id == recv):
                    copyvar, guarded_default_true = tgt, True
    where = f.loc(w)
    run.ob("C01/R4 decorator copies receiver (copy.copy, immutable default True)", "utils.builder",
           bool(copyvar and guarded_default_true), where=where)
    if not (copyvar and guarded_default_true):
        run.finding("C01/decorator:utils.builder:no-copy",
                    "builder wrapper does not shallow-copy the receiver under the default-True immutable test",
                    where=where, rule="R4")
        return
    calls = [n for n in ast.walk(w) if isinstance(n, ast.Call) and isinstance(n.func, ast.Name) and n.func.id == wrapped]
    on_copy = bool(calls) and all(c.args and isinstance(c.args[0], ast.Name) and c.args[0].id == copyvar for c in calls)
    run.ob("C01/R4 wrapped function applied to the copy only", "utils.builder", on_copy, where=where)
    if not on_copy:
        run.finding("C01/decorator:utils.builder:applied-to-receiver",
                    "builder wrapper calls the method on something other than the copy", where=where, rule="R4")
    # returns the copy when the result is None
    ok_ret = False
    for n in ast.walk(w):
        if isinstance(n, ast.If):
            t = n.test
            if (isinstance(t, ast.Compare) and isinstance(t.ops[0], ast.Is) and isinstance(t.comparators[0], ast.Constant)
                    and t.comparators[0].value is None):
                for r in n.body:
                    if isinstance(r, ast.Return) and isinstance(r.value, ast.Name) and r.value.id == copyvar:
                        ok_ret = True
        # expression form: return <copy> if result is None else result
        if isinstance(n, ast.Return) and isinstance(n.value, ast.IfExp):
            t = n.value.test
            if (isinstance(t, ast.Compare) and isinstance(t.ops[0], ast.Is) and isinstance(t.comparators[0], ast.Constant) and t.comparators[0].value is None
                    and isinstance(n.value.body, ast.Name) and n.value.body.id == copyvar):
                ok_ret = True
            if (isinstance(t, ast.Compare) and isinstance(t.ops[0], ast.IsNot) and isinstance(t.comparators[0], ast.Constant) and t.comparators[0].value is None
                    and isinstance(n.value.orelse, ast.Name) and n.value.orelse.id == copyvar):
                ok_ret = True
    bad_ret = any(isinstance(n, ast.Return) and isinstance(n.value, ast.Name) and n.value.id == recv for n in ast.walk(w))
    run.ob("C01/R4 wrapper returns the copy when the method returns None", "utils.builder", ok_ret and not bad_ret, where=where)
    if not ok_ret or bad_ret:
        run.finding("C01/decorator:utils.builder:return",
                    "builder wrapper does not return the copy for a None result (or returns the receiver)",
                    where=where, rule="R4")


def check_immutable_switch(program: Program, run: Run) -> None:
    """R4b: the wrapper copies unless `getattr(self, "immutable", True)` is falsy.  The switch must only be turned off by
    the caller (a constructor argument whose default is True); a class attribute or an unconditional assignment that
    sets it to a falsy constant makes every @builder method of that class rewrite its receiver."""
    n = 0
    for c in program.all_classes():
        has_builders = any(f.is_builder for k in c.mro for f in k.methods.values())
        if not has_builders:
            continue
        n += 1
        bad = None
        for k in c.mro:
            v = k.class_attrs.get("immutable")
            if isinstance(v, ast.Constant) and not v.value:
                bad = (k, f"class attribute `immutable = {v.value!r}` on {k.qualname}", getattr(v, "lineno", None))
                break
            for f in k.methods.values():
                if not f.params:
                    continue
                for node in ast.walk(f.node):
                    if isinstance(node, ast.Assign) and isinstance(node.value, ast.Constant) and not node.value.value:
                        for t in node.targets:
                            if isinstance(t, ast.Attribute) and t.attr == "immutable" and isinstance(t.value, ast.Name) and t.value.id == f.params[0]:
                                bad = (k, f"`{ast.unparse(node)}` in {f.qualname}", node.lineno)
                init = k.methods.get("__init__")
                if f is init:
                    for a, d in zip(reversed(f.node.args.args), reversed(f.node.args.defaults)):
                        if a.arg == "immutable" and isinstance(d, ast.Constant) and not d.value:
                            bad = (k, f"constructor default `immutable={d.value!r}` in {f.qualname}", f.node.lineno)
            if bad:
                break
        run.ob("C01/R4b the immutable switch defaults to copying for every class with @builder methods", c.qualname, bad is None, detail=bad[1] if bad else "")
        if bad and not any(fd.key == f"C01/immutable-off:{bad[0].qualname}" for fd in run.findings):
            run.finding(f"C01/immutable-off:{bad[0].qualname}", f"{bad[1]}: the @builder wrapper then applies every builder method (replace_table included) to the receiver itself, "
                        "so the receiver and every object sharing it are rewritten in place", where=f"{bad[0].module.relpath}:{bad[2]}" if bad[2] else "", rule="R4b")
    if n < 10:
        raise AnalysisError(f"instance count below floor: classes with builder methods {n}")


# --------------------------------------------------------------------------- main rule
def builders_of(c: ClassInfo) -> list[FuncInfo]:
    names = []
    for k in c.mro:
        for n, f in k.methods.items():
            if n not in names:
                names.append(n)
    out = []
    for n in names:
        f = c.resolve(n)
        if f is not None and f.is_builder:
            out.append(f)
    return out


def _may_hand_self_on(g: FuncInfo) -> bool:
    """the receiver is used as a value (returned, passed to a call, stored) or the method returns what another method of
    the receiver returns"""
    if not g.params or g.is_static:
        return False
    sn = g.params[0]
    bases = {id(n.value) for n in ast.walk(g.node) if isinstance(n, ast.Attribute)}
    for n in ast.walk(g.node):
        if isinstance(n, ast.Name) and n.id == sn and isinstance(n.ctx, ast.Load) and id(n) not in bases:
            return True
        if isinstance(n, ast.Return) and n.value is not None:
            for c_ in ast.walk(n.value):
                if isinstance(c_, ast.Call) and isinstance(c_.func, ast.Attribute) and isinstance(c_.func.value, ast.Name) and c_.func.value.id == sn:
                    return True
    return False


def check(program: Program, run: Run) -> None:
    run.explanation = (
        "Static ownership analysis: for every @builder method of every concrete class the interprocedural effect "
        "closure (through self.helper() calls, objects that capture the copy such as Joiner, and callee summaries) "
        "is computed from the syntax tree; every in-place write must hit a container that the class's effective "
        "__copy__ re-copies or that was created in the same activation; writes through elements of shared containers "
        "and writes to arguments other than the guarded alias tag are violations. Nothing is executed.")
    run.rule("R1 shared-mutate: MUTATE self.a requires a in recopied(__copy__ of receiver class) or a rebound fresh in the activation")
    run.rule("R2 deep-mutate: any write through self.a[...].b / self.a.b of a shared object is a violation")
    run.rule("R3 arg-write: WRITE param.x allowed only for x == alias under an 'alias is None' guard")
    run.rule("R4b the immutable switch the decorator consults is only turned off by the caller: no class attribute / assignment / constructor default sets it to a falsy constant")
    run.rule("R4 decorator shape: copy.copy under immutable default True; method applied to the copy; copy returned for None")
    run.rule("R6 a method that is not builder-decorated yet returns the receiver or an object capturing it does not write the receiver")
    run.rule("R7 a method that returns derived objects does not return the receiver itself on another path")
    run.rule("R5 copy protocol: root __copy__ starts from full __dict__; overrides call super().__copy__()")
    run.assumptions += [
        "class-hierarchy call resolution: no monkey-patching, no user subclasses overriding helpers",
        "copy.copy semantics of CPython: default shallow copy shares every attribute value",
    ]
    eng = Effects(program)
    check_decorator(program, run)
    check_immutable_switch(program, run)

    classes = [c for c in program.all_classes() if builders_of(c)]
    nb_defs = sum(1 for f in program.all_functions() if f.is_builder)
    run.analysed = {"modules": len(program.modules), "classes": len(program.all_classes()),
                    "builder_definitions": nb_defs, "classes_with_builders": len(classes)}
    if len(program.modules) < 16 or nb_defs < 70 or len(classes) < 25:
        raise AnalysisError(f"instance count below floor: modules={len(program.modules)} builders={nb_defs} classes={len(classes)}")

    memo: dict = {}
    entries = []
    for c in classes:
        for f in builders_of(c):
            entries.append((f, c))
    eng.fixpoint(entries)

    # R5 copy protocol
    copy_defs = program.definitions_of("__copy__")
    for f in copy_defs:
        info = _copy_of(program, f.cls, f, memo)
        root = not info.calls_super
        ok = info.returns_new and not info.problems and (info.full_dict if root else True)
        run.ob("C01/R5 copy protocol", f.qualname, ok,
               detail=f"recopied={sorted(info.recopied)} full_dict={info.full_dict} calls_super={info.calls_super} problems={info.problems}",
               where=f.loc())
        if not ok:
            run.finding(f"C01/copy-protocol:{f.qualname}",
                        "__copy__ does not start from the full __dict__ / does not return the new object" if root
                        else "__copy__ override is malformed", where=f.loc(), rule="R5")
        # an override in a subclass must chain to the parent's __copy__
        parent = None
        for k in f.cls.mro[1:]:
            if "__copy__" in k.methods:
                parent = k.methods["__copy__"]
                break
        if parent is not None:
            run.ob("C01/R5 override chains to super().__copy__()", f.qualname, info.calls_super, where=f.loc())
            if not info.calls_super:
                run.finding(f"C01/copy-protocol:{f.qualname}:no-super",
                            f"{f.qualname} does not call super().__copy__(): containers re-copied by {parent.qualname} are shared again",
                            where=f.loc(), rule="R5")

    # R1-R3
    table: dict[str, dict] = {}
    viol: dict[str, dict] = {}   # key -> {recvs:set, all:set, ...}
    total_methods = 0
    for c in classes:
        ci = copy_info(program, c, memo)
        if ci.unsupported:
            raise AnalysisError(f"unsupported construct: {ci.unsupported} (copy protocol of {c.qualname} not decided)")
        bl = builders_of(c)
        for f in bl:
            total_methods += 1
            s = eng.summary(f, c)
            effs = [(e, None) for e in s.effects]
            # continuations: objects that capture the copy
            for (kc, captured, cloc) in s.constructed:
                names = []
                for k in kc.mro:
                    for n in k.methods:
                        if n not in names and n != "__init__":
                            names.append(n)
                for n in names:
                    g = kc.resolve(n)
                    if is_observer(g):
                        continue  # observers of the capturing object are C02's obligation
                    eng.fixpoint([(g, kc)])
                    gs = eng.summary(g, kc)
                    for e in gs.effects:
                        kind, root, path = e.org
                        if kind != "self" or not path or path[0] not in captured:
                            continue
                        for base in captured[path[0]]:
                            if base[0] in ("fresh", "new", "unknown"):
                                continue
                            effs.append((e, (base[0], base[1], base[2] + path[1:], f"{kc.qualname}.{n}")))
            defname = f"{f.cls.qualname}.{f.name}"
            for e, mapped in effs:
                if mapped is None:
                    kind, root, path = e.org
                    cont = ""
                else:
                    kind, root, path, cont = mapped
                    cont = f" (continuation {cont})"
                subject = f"{c.qualname}::{defname}:{e.kind} {org_str((kind, root, path))}"
                key = what = None
                if kind == "self":
                    if not path:
                        continue
                    attr = path[0]
                    row = table.setdefault(c.qualname, {}).setdefault(attr, {"recopied": ci.covers(program, c, attr), "mutated_by": set(), "rebound_by": set()})
                    if len(path) == 1 and e.kind == "rebind" and attr != "*":
                        row["rebound_by"].add(f.name)
                        run.ob("C01/R1 rebinding write stays on the copy", subject, True, where=e.loc)
                        continue
                    if len(path) == 1 and e.kind == "mutate" and attr != "*":
                        row["mutated_by"].add(f.name)
                        ok = ci.covers(program, c, attr)
                        run.ob("C01/R1 in-place write hits a re-copied container", subject, ok,
                               detail=f"{e.stmt}{cont}", where=e.loc)
                        if not ok:
                            key = f"C01/shared-mutate:{defname}:{attr}"
                            what = (f"{defname} mutates self.{attr} in place ({e.how}) but the effective __copy__ of "
                                    f"{c.qualname} does not re-copy it: receiver and result share the container{cont}")
                    else:
                        run.ob("C01/R2 no write through a shared element/object", subject, False,
                               detail=f"{e.stmt}{cont}", where=e.loc)
                        p = org_str(("self", None, path))[5:]
                        key = f"C01/deep-mutate:{defname}:{p}"
                        what = (f"{defname} writes through a shared object: {e.kind} self.{p} ({e.how}); a shallow container "
                                f"copy shares its elements{cont}")
                elif kind == "param":
                    ok = (e.kind == "rebind" and path == ("alias",) and _alias_none_guard(e.guards, program, e.func))
                    run.ob("C01/R3 argument write is the guarded alias tag", subject, ok,
                           detail=f"{e.stmt} guards={list(e.guards)[-2:]}{cont}", where=e.loc)
                    if not ok:
                        p = org_str(("param", root, path))
                        key = f"C01/arg-write:{defname}:{p}"
                        what = f"{defname} writes to its argument: {e.kind} {p} ({e.stmt}){cont}"
                elif kind == "global":
                    run.ob("C01/R3 no module/class-level state written", subject, False, detail=e.stmt, where=e.loc)
                    key = f"C01/global-write:{defname}:{root}"
                    what = f"{defname} writes module/class-level state {root} ({e.stmt})"
                if key:
                    v = viol.setdefault(key, {"what": what, "where": e.loc, "recvs": set(), "def": f,
                                              "path": [f"{a} @ {b}" for a, b in e.via] + [f"{e.func} @ {e.loc}: {e.stmt}"]})
                    v["recvs"].add(c.qualname)
    run.analysed["builder_methods_x_receivers"] = total_methods
    run.analysed["summaries"] = len(eng.memo)
    for key, v in sorted(viol.items()):
        f = v["def"]
        allrecv = {c.qualname for c in classes if f in builders_of(c)}
        if v["recvs"] >= allrecv:
            run.finding(key, v["what"], where=v["where"], rule=key.split(":")[0], path=v["path"],
                        excerpt=f.module.excerpt(int(v["where"].rsplit(":", 1)[1]), 2))
        else:
            for r in sorted(v["recvs"]):
                run.finding(f"{key}@{r}", v["what"], where=v["where"], rule=key.split(":")[0], path=v["path"],
                            excerpt=f.module.excerpt(int(v["where"].rsplit(":", 1)[1]), 2))
    # R6: a method that is not builder-decorated but hands the raw receiver on (returns it, or builds a
    # continuation object capturing it) is a builder method in the property's sense; it may not write the receiver.
    SELF = ("self", None, ())
    fluent_seen = 0
    mixed_seen: set[str] = set()
    raw: dict[str, dict] = {}
    for c in classes:
        names = []
        for k in c.mro:
            for n in k.methods:
                if n not in names:
                    names.append(n)
        for n in names:
            g = c.resolve(n)
            if g is None or g.is_builder or n.startswith("__") or is_observer(g):
                continue
            if not _may_hand_self_on(g):
                continue     # cheap syntactic pre-filter: the receiver never leaves the method (only its attributes are used)
            eng.fixpoint([(g, c)])
            gs = eng.summary(g, c)
            hands_on = SELF in gs.returns or any(SELF in orgs for (_k, cap, _l) in gs.constructed for orgs in cap.values())
            if not hands_on:
                continue
            fluent_seen += 1
            if SELF in gs.returns:
                # R7: the receiver itself is handed back on one path and a derived object on another: callers that
                # treat the result as a new object (aliasing it, continuing it) alter the receiver on the first path
                mixed = bool(gs.returns - {SELF})
                run.ob("C01/R7 a method returning derived objects never returns the receiver itself", f"{c.qualname}::{g.cls.qualname}.{n}", not mixed,
                       detail=f"returns {sorted(org_str(o) for o in gs.returns)}", where=g.loc())
                if mixed and g.qualname not in mixed_seen:
                    mixed_seen.add(g.qualname)
                    run.finding(f"C01/returns-receiver:{g.qualname}", f"{g.qualname} returns a new object on one path and the receiver itself on another "
                                f"(returns {sorted(org_str(o) for o in gs.returns)}): on that path the caller's 'result' is the caller's own query, so what is done to the result is done to the receiver",
                                where=g.loc(), rule="R7")
            effs = list(gs.effects)
            for (kc, captured, _cloc) in gs.constructed:          # continuations applied to the raw receiver
                for attr, orgs in captured.items():
                    if SELF not in orgs:
                        continue
                    for m in [m for k in kc.mro for m in k.methods if m != "__init__"]:
                        h = kc.resolve(m)
                        if h is None or is_observer(h):
                            continue
                        eng.fixpoint([(h, kc)])
                        for e in eng.summary(h, kc).effects:
                            if e.org[0] == "self" and e.org[2][:1] == (attr,) and len(e.org[2]) > 1:
                                effs.append(replace(e, org=("self", None, e.org[2][1:])))
            writes = [e for e in effs if e.org[0] == "self" and e.org[2] and "*" not in e.org[2]
                      and not (e.kind == "rebind" and e.org[2][-1] == "alias" and _alias_none_guard(e.guards, program, e.func))]
            run.ob("C01/R6 non-builder method handing the receiver on does not write it", f"{c.qualname}::{g.cls.qualname}.{n}",
                   not writes, detail="; ".join(f"{e.kind} {org_str(e.org)}" for e in writes[:3]), where=g.loc())
            for e in writes:
                key = f"C01/receiver-write-outside-builder:{e.func}:{'.'.join(e.org[2])}"
                v = raw.setdefault(key, {"e": e, "entries": set()})
                v["entries"].add(f"{g.cls.qualname}.{n}")
    run.analysed["non_builder_methods_handing_receiver_on"] = fluent_seen
    if fluent_seen < 500:
        raise AnalysisError(f"instance count below floor: non-builder methods handing the receiver on = {fluent_seen}")
    for key, v in sorted(raw.items()):
        e = v["e"]
        run.finding(key, f"{e.func} writes the receiver ({e.kind} {org_str(e.org)}: {e.stmt}) and is reached from "
                         f"{sorted(v['entries'])}, which return the receiver or an object capturing it without the builder "
                         f"decorator's copy: the caller's query is altered by the call", where=e.loc, rule="R6",
                    path=[f"{a} @ {b}" for a, b in e.via] + [f"{e.func} @ {e.loc}: {e.stmt}"])
    run.extra["copy_table"] = {
        cls: {a: {"recopied": r["recopied"], "mutated_by": sorted(r["mutated_by"]), "rebound_by": sorted(r["rebound_by"])}
              for a, r in rows.items() if r["mutated_by"]}
        for cls, rows in table.items()
    }
    # observation: Joiner methods are not builders (outside the quantifier)
    j = program.find_cls("Joiner")
    if j is not None:
        nb = [n for n, g in j.methods.items() if not g.is_builder and n != "__init__"]
        run.info("C01/info:Joiner-not-builder", f"Joiner.{{{','.join(nb)}}} are not builder-decorated: a Joiner kept by the caller and used twice returns the same query object (outside the property's quantifier)")
