"""C15 -- copy, deepcopy and pickle round-trips preserve and decouple objects (DESIGN 2/C15)."""
from __future__ import annotations

import ast

from ..inline import inlined
from ..model import AnalysisError, FuncInfo, Program
from ..report import Run

# instance-level probes made by copy.deepcopy / pickle that `object` does not answer in every
# supported interpreter (3.9-3.13): copy.py (__deepcopy__), copyreg/pickle (__setstate__,
# __getstate__ before 3.11)
REQUIRED_FENCE = ("__deepcopy__", "__setstate__", "__getstate__")
PROTOCOL_METHODS = ("__reduce__", "__reduce_ex__", "__getstate__", "__setstate__", "__deepcopy__",
                    "__getnewargs__", "__getnewargs_ex__")


class _NoEval(Exception):
    pass


def _eval_test(t: ast.expr, var: str, value: str):
    """evaluate a guard test over one string-valued variable; tiny pure subset"""
    if isinstance(t, ast.BoolOp):
        vals = [_eval_test(v, var, value) for v in t.values]
        return all(vals) if isinstance(t.op, ast.And) else any(vals)
    if isinstance(t, ast.UnaryOp) and isinstance(t.op, ast.Not):
        return not _eval_test(t.operand, var, value)
    if isinstance(t, ast.Compare) and len(t.ops) == 1:
        left, op, right = t.left, t.ops[0], t.comparators[0]

        def val(e):
            if isinstance(e, ast.Name) and e.id == var:
                return value
            if isinstance(e, ast.Constant):
                return e.value
            if isinstance(e, (ast.List, ast.Tuple, ast.Set)):
                return [val(x) for x in e.elts]
            raise _NoEval()
        a, b = val(left), val(right)
        if isinstance(op, ast.In):
            return a in b
        if isinstance(op, ast.NotIn):
            return a not in b
        if isinstance(op, ast.Eq):
            return a == b
        if isinstance(op, ast.NotEq):
            return a != b
        raise _NoEval()
    if (isinstance(t, ast.Call) and isinstance(t.func, ast.Attribute) and isinstance(t.func.value, ast.Name)
            and t.func.value.id == var and t.func.attr in ("startswith", "endswith") and len(t.args) == 1):
        a = t.args[0]
        if isinstance(a, ast.Constant):
            pats = a.value
        elif isinstance(a, ast.Tuple) and all(isinstance(x, ast.Constant) for x in a.elts):
            pats = tuple(x.value for x in a.elts)
        else:
            raise _NoEval()
        return getattr(value, t.func.attr)(pats)
    raise _NoEval()


def fence_of(fn: ast.FunctionDef, name_param: str, stop_at_call_of: str | None, consts=None) -> set[str]:
    """names of REQUIRED_FENCE for which the body raises AttributeError before doing anything else;
    `consts(name)` resolves a module-level constant (a tuple of probe names kept outside the function)"""
    fenced = set()
    for req in REQUIRED_FENCE:
        for st in fn.body:
            if isinstance(st, ast.Expr) and isinstance(st.value, ast.Constant):
                continue  # docstring
            if isinstance(st, ast.If):
                try:
                    test = st.test
                    if consts is not None:
                        class _R(ast.NodeTransformer):
                            def visit_Name(self, n):
                                if n.id != name_param and isinstance(n.ctx, ast.Load):
                                    e = consts(n.id)
                                    if e is not None:
                                        return e
                                return n
                        import copy as _copy
                        test = _R().visit(_copy.deepcopy(test))
                    hit = _eval_test(test, name_param, req)
                except _NoEval:
                    break
                if hit:
                    raises = any(isinstance(x, ast.Raise) and x.exc is not None and "AttributeError" in ast.unparse(x.exc) for x in st.body)
                    if raises:
                        fenced.add(req)
                    break
                continue  # guard does not fire for this name: look at the next statement
            if isinstance(st, ast.Raise) and st.exc is not None and "AttributeError" in ast.unparse(st.exc):
                fenced.add(req)   # the inverted spelling: `if name not in PROBES: return func(self, name)` and then the raise
            break  # any other statement before a firing fence: not fenced
    return fenced


def _const_resolver(program: Program, module):
    def res(name: str):
        r = program.resolve_global(module, name)
        if r and r[0] == "const" and isinstance(r[2], (ast.Tuple, ast.List, ast.Set)) and all(isinstance(x, ast.Constant) for x in r[2].elts):
            return r[2]
        return None
    return res


def decorator_fence(program: Program, deco: str, module) -> set[str] | None:
    r = program.resolve_global(module, deco)
    if not r or r[0] != "func":
        return None
    f: FuncInfo = inlined(program, r[1])
    wrapped = f.params[0] if f.params else None
    inner = [n for n in f.node.body if isinstance(n, ast.FunctionDef)]
    rets = [n.value.id for n in ast.walk(f.node) if isinstance(n, ast.Return) and isinstance(n.value, ast.Name)]
    inner = [n for n in inner if n.name in rets]
    if not inner or len(inner[0].args.args) < 2:
        return None
    w = inner[0]
    # the wrapper must call the wrapped function (otherwise the hook is simply disabled, which is also safe)
    return fence_of(w, w.args.args[1].arg, wrapped, consts=_const_resolver(program, f.module))


def _unpicklable_value(program: Program, c, f, v, depth: int = 0):
    """description if the expression evaluates to an object pickle / deepcopy refuse: a dict view, an iterator, a generator
    -- directly, inside a list / tuple display or `+` concatenation, or as what a helper of the package returns"""
    if depth > 3:
        return None
    if isinstance(v, ast.Call) and isinstance(v.func, ast.Attribute) and v.func.attr in ("values", "keys", "items") and not v.args:
        return f"a dict view (`{ast.unparse(v)[:40]}`)"
    if isinstance(v, ast.Call) and isinstance(v.func, ast.Name) and v.func.id in ("iter", "map", "filter", "zip", "reversed", "enumerate"):
        return f"a {v.func.id}() iterator"
    if isinstance(v, ast.GeneratorExp):
        return "a generator"
    if isinstance(v, (ast.List, ast.Tuple, ast.Set)):
        for e in v.elts:
            r = _unpicklable_value(program, c, f, e, depth + 1)
            if r:
                return r
        return None
    if isinstance(v, ast.BinOp) and isinstance(v.op, ast.Add):
        return _unpicklable_value(program, c, f, v.left, depth + 1) or _unpicklable_value(program, c, f, v.right, depth + 1)
    if isinstance(v, ast.IfExp):
        return _unpicklable_value(program, c, f, v.body, depth + 1) or _unpicklable_value(program, c, f, v.orelse, depth + 1)
    if isinstance(v, ast.Call):
        g = None
        fn = v.func
        if isinstance(fn, ast.Attribute) and isinstance(fn.value, ast.Name) and (fn.value.id == (f.params[0] if f.params else None) or program.find_cls(fn.value.id) is not None):
            k = c if fn.value.id == (f.params[0] if f.params else None) else program.find_cls(fn.value.id)
            g = k.resolve(fn.attr) if k is not None else None
        elif isinstance(fn, ast.Name):
            r = program.resolve_global(f.module, fn.id)
            g = r[1] if r and r[0] == "func" else None
        if g is not None and not g.is_builder:
            if any(isinstance(n, (ast.Yield, ast.YieldFrom)) for n in ast.walk(g.node)):
                return f"a generator (what {g.qualname} returns)"
            for n in ast.walk(g.node):
                if isinstance(n, ast.Return) and n.value is not None:
                    r = _unpicklable_value(program, g.cls or c, g, n.value, depth + 1)
                    if r:
                        return f"{r}, returned by {g.qualname}"
    return None


def check(program: Program, run: Run) -> None:
    run.explanation = (
        "Structural protocol check: every dynamic-lookup hook (__getattr__) in the live class table must raise "
        "AttributeError for the instance-level probes of copy.deepcopy/pickle (__deepcopy__, __setstate__, __getstate__) "
        "before doing anything else (directly or through a decorator such as ignore_copy, whose wrapper is analysed); "
        "the shallow-copy obligations are C01's ownership rule re-evaluated here; no instance attribute may hold a "
        "lambda/nested function/generator/local class, and no pickle-protocol override may appear unreviewed. Nothing is executed.")
    run.rule("R1 every __getattr__ is fenced for __deepcopy__/__setstate__/__getstate__ before any other statement")
    run.rule("R2 shallow-copy protocol decouples containers later builders mutate (C01 R1/R2/R5 re-evaluated)")
    run.rule("R4 instance state is never compared by identity with a module-level marker object that deepcopy/pickle would duplicate")
    run.rule("R3 picklability by construction: no lambda/generator/nested function/local class stored on instances; no __slots__; no unreviewed __reduce__/__getstate__/__setstate__/__deepcopy__ definitions")
    run.assumptions += ["CPython 3.9-3.13 copy/pickle protocol probe names", "user-supplied callables (placeholder_factory) are outside the claim"]
    hooks = program.definitions_of("__getattr__")
    run.analysed = {"modules": len(program.modules), "classes": len(program.all_classes()), "getattr_hooks": len(hooks),
                    "getitem_hooks": len(program.definitions_of("__getitem__"))}
    if len(program.modules) < 16 or len(program.all_classes()) < 120:
        raise AnalysisError(f"instance count below floor: {run.analysed}")
    if len(hooks) < 3:
        raise AnalysisError(f"anchor vanished: only {len(hooks)} __getattr__ hooks found (>=3 confirmed by hand)")
    for f in hooks:
        name_param = f.params[1] if len(f.params) > 1 else None
        fenced = set(fence_of(inlined(program, f).node, name_param, None, consts=_const_resolver(program, f.module))) if name_param else set()
        via = "own body"
        for d in f.decorators:
            df = decorator_fence(program, d, f.module)
            if df:
                fenced |= df
                via = f"@{d}"
        missing = [r for r in REQUIRED_FENCE if r not in fenced]
        run.ob("C15/R1 dynamic hook fenced against copy/pickle probes", f.qualname, not missing,
               detail=f"fenced={sorted(fenced)} via {via}", where=f.loc())
        for m in missing:
            run.finding(f"C15/unfenced-hook:{f.qualname}:{m}",
                        f"{f.qualname} answers the protocol probe {m} with a manufactured/delegated value (or recurses on an empty __dict__): "
                        f"deepcopy/pickle of such objects breaks", where=f.loc(), rule="R1",
                        excerpt=f.module.excerpt(f.node.lineno - len(f.node.decorator_list), 4))

    # R2 -- inherit C01's ownership findings
    from . import c01
    sub = Run("C01", run.tier)
    c01.check(program, sub)
    n_in = 0
    for fd in sub.findings:
        if fd.info or fd.key.startswith("C01/arg-write") or fd.key.startswith("C01/decorator"):
            continue
        n_in += 1
        run.finding("C15/shared-after-copy:" + fd.key.split("/", 1)[1],
                    "copy.copy duplicate stays coupled to the original: " + fd.what, where=fd.where, rule="R2 (inherited from C01)", path=fd.path)
    shared_obs = [o for o in sub.obligations if o.rule.startswith(("C01/R1 in-place", "C01/R2", "C01/R5"))]
    for o in shared_obs:
        run.ob("C15/R2 " + o.rule[4:], o.subject, o.ok, o.detail, o.where)

    # R4: instance state compared by identity with a module-level marker object (`_MISSING = object()` ... `self.x is
    # _MISSING`): copy.copy keeps the marker, deepcopy and pickle rebuild it as a *new* object, so in the duplicate the
    # test gives the other answer
    nmark = 0
    markers = {}
    for m in program.modules.values():
        for name, e in m.constants.items():
            if isinstance(e, ast.Call) and isinstance(e.func, ast.Name) and not e.args and not e.keywords:
                r = program.resolve_global(m, e.func.id)
                if e.func.id == "object" or (r and r[0] == "class" and not r[1].has_extern_base("Enum")
                                             and not any(k_ in r[1].methods for k_ in ("__deepcopy__", "__copy__", "__reduce__", "__reduce_ex__"))):
                    markers[(m.name, name)] = m
    for f in program.all_functions():
        if f.cls is None or not f.params or f.is_static:
            continue
        sn = f.params[0]
        for n in ast.walk(f.node):
            if not (isinstance(n, ast.Compare) and len(n.ops) == 1 and isinstance(n.ops[0], (ast.Is, ast.IsNot))):
                continue
            a, b = n.left, n.comparators[0]
            for x, y in ((a, b), (b, a)):
                if isinstance(x, ast.Attribute) and isinstance(x.value, ast.Name) and x.value.id == sn and isinstance(y, ast.Name):
                    r = program.resolve_global(f.module, y.id)
                    if r and r[0] == "const" and (r[1].name, y.id) in markers:
                        nmark += 1
                        run.ob("C15/R4 instance state is not compared by identity with a module-level marker object", f"{f.qualname}:{ast.unparse(n)}", False, where=f.loc(n))
                        run.finding(f"C15/marker-identity:{f.cls.qualname}.{x.attr}:{y.id}",
                                    f"{f.qualname} tests `{ast.unparse(n)}`, and `{y.id}` is a module-level `{ast.unparse(r[2])}`: copy.deepcopy and a pickle round-trip rebuild the marker as a new object, "
                                    f"so the duplicate answers the test differently from its original (None, an Enum member or a class would survive)", where=f.loc(n), rule="R4")
    run.ob("C15/R4 instance state is not compared by identity with a module-level marker object", "package", True,
           detail=f"{len(markers)} module-level marker objects, {nmark} identity tests on instance state", nontrivial=False)

    # R3
    for c in program.all_classes():
        if "__slots__" in c.class_attrs and c.resolve("__getstate__") is None:
            run.finding(f"C15/slots:{c.qualname}", f"{c.qualname} defines __slots__ without __getstate__", rule="R3")
        for pm in PROTOCOL_METHODS:
            if pm in c.methods:
                f = c.methods[pm]
                covers = "__dict__" in ast.unparse(f.node)
                run.ob("C15/R3 protocol override covers the whole state", f.qualname, covers, where=f.loc())
                if not covers:
                    run.finding(f"C15/custom-protocol:{f.qualname}", f"{f.qualname} overrides the copy/pickle protocol without going through __dict__", where=f.loc(), rule="R3")
        for f in c.methods.values():
            if f.is_static or f.is_classmethod or not f.params:
                continue
            selfname = f.params[0]
            local_funcs = {n.name for n in ast.walk(f.node) if isinstance(n, (ast.FunctionDef, ast.ClassDef)) and n is not f.node}
            local_classes = {n.name for n in ast.walk(f.node) if isinstance(n, ast.ClassDef)}
            for n in ast.walk(f.node):
                if isinstance(n, (ast.Assign, ast.AnnAssign)):
                    targets = n.targets if isinstance(n, ast.Assign) else [n.target]
                    v = n.value
                    for t in targets:
                        if isinstance(t, ast.Attribute) and isinstance(t.value, ast.Name) and t.value.id == selfname and v is not None:
                            bad = None
                            if isinstance(v, ast.Lambda):
                                bad = "a lambda"
                            elif isinstance(v, ast.GeneratorExp):
                                bad = "a generator"
                            elif isinstance(v, ast.Name) and v.id in local_funcs:
                                bad = "a locally defined function/class"
                            elif isinstance(v, ast.Call) and isinstance(v.func, ast.Name) and v.func.id in local_classes:
                                bad = "an instance of a locally defined class"     # (the *result* of calling a local function is ordinary data)
                            elif isinstance(v, ast.Call) and isinstance(v.func, ast.Name) and v.func.id in ("iter", "map", "filter", "zip", "open"):
                                bad = f"an unpicklable {v.func.id}() object"
                            else:
                                bad = _unpicklable_value(program, c, f, v)
                            run.ob("C15/R3 instance attribute holds picklable data", f"{f.qualname}:{t.attr}", bad is None, where=f.loc(n), nontrivial=False)
                            if bad:
                                run.finding(f"C15/unpicklable-attr:{c.qualname}.{t.attr}", f"{f.qualname} stores {bad} in self.{t.attr}: pickle/deepcopy of the object fails",
                                            where=f.loc(n), rule="R3")
