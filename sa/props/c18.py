"""C18 -- interval literals encode exactly the requested duration (shape of template and trim regex, DESIGN 2/C18)."""
from __future__ import annotations

import ast
import string

from ..model import AnalysisError, Program
from ..report import Run
from ..symex import Const, CtxV, DictV, EnumV, Evaluator, show
from .c07 import shipped_contexts

try:  # regex *parsing* only: the pattern text comes from the source, nothing from the repository is executed
    import re._parser as sre_parse
    import re._constants as sre_c
except ImportError:  # pragma: no cover
    import sre_parse
    import sre_constants as sre_c


def _const_list(e):
    if isinstance(e, ast.Call) and isinstance(e.func, ast.Name) and e.func.id in ("list", "tuple") and len(e.args) == 1 and not e.keywords:
        e = e.args[0]
    if isinstance(e, (ast.List, ast.Tuple)) and all(isinstance(x, ast.Constant) for x in e.elts):
        return [x.value for x in e.elts]
    return None


def chars_of(item):
    """set of characters an element can consume, or None if unbounded/unknown"""
    op, av = item
    if op is sre_c.LITERAL:
        return {chr(av)}
    if op is sre_c.IN:
        out = set()
        for o, a in av:
            if o is sre_c.LITERAL:
                out.add(chr(a))
            elif o is sre_c.RANGE:
                out |= {chr(c) for c in range(a[0], a[1] + 1)}
            elif o is sre_c.NEGATE:
                return None
            else:
                return None
        return out
    if op in (sre_c.MAX_REPEAT, sre_c.MIN_REPEAT):
        lo, hi, sub = av
        out = set()
        for it in sub:
            c = chars_of(it)
            if c is None:
                return None
            out |= c
        return out
    if op is sre_c.SUBPATTERN:
        out = set()
        for it in av[3]:
            c = chars_of(it)
            if c is None:
                return None
            out |= c
        return out
    if op is sre_c.AT:
        return set()
    return None


def alternatives(parsed):
    items = list(parsed)
    if len(items) == 1 and items[0][0] is sre_c.BRANCH:
        return [list(b) for b in items[0][1][1]]
    return [items]


def unwrap(seq):
    """strip a single capturing group around an alternative"""
    while len(seq) == 1 and seq[0][0] is sre_c.SUBPATTERN:
        seq = list(seq[0][1][3])
    return seq


def _mixed_sign_constructions(program: Program, run: Run, iv) -> None:
    import ast
    n = 0
    for f in program.all_functions():
        ctor_names = {"Interval"}
        if f.cls is not None and (f.cls is iv or f.cls.is_subclass_of(iv)) and f.is_classmethod and f.params:
            ctor_names.add(f.params[0])
        # locals derived from <x>.seconds / <x>.microseconds (through divmod / arithmetic)
        derived: dict[str, str] = {}
        for _ in range(4):
            for node in ast.walk(f.node):
                if isinstance(node, ast.Assign):
                    srcs = set()
                    for x in ast.walk(node.value):
                        if isinstance(x, ast.Attribute) and x.attr in ("seconds", "microseconds") and isinstance(x.value, ast.Name):
                            srcs.add(x.value.id)
                        elif isinstance(x, ast.Name) and x.id in derived:
                            srcs.add(derived[x.id])
                    if srcs:
                        for t in node.targets:
                            for tn in ([t] if isinstance(t, ast.Name) else (t.elts if isinstance(t, (ast.Tuple, ast.List)) else [])):
                                if isinstance(tn, ast.Name):
                                    derived[tn.id] = sorted(srcs)[0]
        for node in ast.walk(f.node):
            if not (isinstance(node, ast.Call) and isinstance(node.func, ast.Name) and node.func.id in ctor_names):
                continue
            n += 1
            args = list(node.args) + [k.value for k in node.keywords if k.arg not in (None, "dialect")]
            days_of = {x.value.id for a in args for x in ast.walk(a) if isinstance(x, ast.Attribute) and x.attr == "days" and isinstance(x.value, ast.Name)
                       and not any(isinstance(w, ast.Call) and isinstance(w.func, ast.Name) and w.func.id == "abs" for w in ast.walk(a))}
            rest_of = set()
            for a in args:
                for x in ast.walk(a):
                    if isinstance(x, ast.Attribute) and x.attr in ("seconds", "microseconds") and isinstance(x.value, ast.Name):
                        rest_of.add(x.value.id)
                    elif isinstance(x, ast.Name) and x.id in derived:
                        rest_of.add(derived[x.id])
            bad = sorted(days_of & rest_of)
            run.ob("C18/R5 components handed to the Interval constructor have one sign", f"{f.qualname}:{ast.unparse(node)[:60]}", not bad, where=f.loc(node), nontrivial=bool(days_of or rest_of))
            if bad:
                run.finding(f"C18/mixed-sign-components:{f.qualname}",
                            f"{f.qualname} builds an Interval from `{bad[0]}.days` together with components derived from `{bad[0]}.seconds`/`.microseconds`: a negative timedelta is normalised to negative days "
                            "plus NON-negative seconds (timedelta(hours=-1) is days=-1, seconds=82800), while the constructor applies the sign of the first non-zero component to the whole literal: "
                            "the literal then denotes -(1 day 23 hours) instead of -1 hour", where=f.loc(node), rule="R5")
    run.analysed = dict(getattr(run, "analysed", {}) or {})
    run.analysed["interval_constructions_in_package"] = n


def check(program: Program, run: Run) -> None:
    run.explanation = (
        "The literal is produced by a format template followed by a regular-expression trim; whether the trim can drop, merge or "
        "shift a component is a question about the shape of the regex and the template, answered without running either: "
        "units/labels/constructor lists agree in length and order and every template slot reads its own unit (R1); the trim "
        "pattern is parsed with the regex parser and every alternative must be anchored at ^ or $, consume only '0' and the "
        "template's separators, and touch retained text with a separator, so a match can only remove whole zero fields at the "
        "ends (R2); every dialect template contains {expr} and {unit} once in the quoting form of its family (R3); the "
        "MICROSECOND / quarters / weeks cases bypass the trim and are stored exclusively (R4). Numeric read-back is not computed.")
    run.rule("R1 units, labels and constructor values agree in length/order; one template slot per unit in order, each reading getattr(self, <unit>, 0); unit designator from largest/smallest assigned in loop order; sign taken from the first non-zero component, prefixed once")
    run.rule("R2 each trim alternative is anchored, consumes only {0} U separators, and its inner boundary is a separator; no unanchored alternative")
    run.rule("R3 templates: {expr} and {unit} exactly once; unit inside the quotes for PostgreSQL-family/default, outside for MySQL/Oracle; selection by ctx.dialect")
    run.rule("R4 MICROSECOND-only / quarters / weeks emit the stored value untrimmed; constructor stores quarters/weeks exclusively (early return)")
    run.rule("R5 no construction of an Interval in the package passes `<x>.days` together with a component derived from `<x>.seconds` / `<x>.microseconds` (timedelta fields carry the sign on .days only)")
    run.exhaustive = True
    iv = program.cls("Interval")
    units = _const_list(iv.class_attrs.get("units"))
    labels = _const_list(iv.class_attrs.get("labels"))
    if not units or not labels:
        raise AnalysisError("anchor vanished: Interval.units / Interval.labels constant lists")
    init = iv.methods.get("__init__")
    gs = iv.methods.get("get_sql")
    if init is None or gs is None:
        raise AnalysisError("anchor vanished: Interval.__init__/get_sql")

    # ---- R5: every construction of an Interval inside the package hands the constructor components of ONE sign (the
    # sign of the first non-zero component is prefixed to the whole literal, the others are written by magnitude).  The
    # fields of a datetime.timedelta do not have one sign: only .days is negative, .seconds / .microseconds never are.
    _mixed_sign_constructions(program, run, iv)

    # ---- R1
    ok = len(units) == len(labels) == 7
    run.ob("C18/R1 units and labels have the same length", "Interval.units/labels", ok, detail=f"{units} / {labels}")
    if not ok:
        run.finding("C18/tables-length:Interval", f"Interval.units ({len(units)}) and labels ({len(labels)}) differ in length", rule="R1")
    want_labels = [u[:-1].upper() for u in units]
    ok = labels == want_labels
    run.ob("C18/R1 labels name the units in the same order", "Interval.labels", ok, detail=f"{labels} vs {want_labels}")
    if not ok:
        run.finding("C18/labels-order:Interval.labels", f"Interval.labels {labels} do not correspond position by position to units {units}: the unit designator names the wrong fields", rule="R1")
    # ---- the constructor's bookkeeping, decided by finite evaluation: every component is given one of {0, +m, -m}
    # (distinct magnitudes per unit) and Interval.__init__ is evaluated by the symbolic evaluator in constructor mode
    # (stores to self applied); the resulting fields are compared with what the property demands.  Exact for a
    # constructor that only tests its parameters for truthiness / sign, which is checked first.
    pnames = {a.arg for a in init.node.args.args + init.node.args.kwonlyargs}
    recomputed = []
    for n in ast.walk(init.node):
        tgts = []
        if isinstance(n, ast.Assign):
            tgts = n.targets
        elif isinstance(n, (ast.AugAssign, ast.AnnAssign)):
            tgts = [n.target]
        for t in tgts:
            for x in ast.walk(t):
                if isinstance(x, ast.Name) and x.id in pnames and x.id != init.params[0]:
                    recomputed.append((x.id, n.lineno))
    arith = [n for n in ast.walk(init.node) if isinstance(n, ast.BinOp) and any(isinstance(x, ast.Name) and x.id in units for x in ast.walk(n))] + \
            [n for n in ast.walk(init.node) if isinstance(n, ast.Call) and isinstance(n.func, ast.Name) and n.func.id in ("divmod", "round", "sum", "pow")]
    run.ob("C18/R1 components reach the stored fields as supplied (no arithmetic between constructor parameters)", "Interval.__init__", not (recomputed or arith),
           detail=f"{recomputed[:4]}", where=init.loc())
    if recomputed or arith:
        ln = recomputed[0][1] if recomputed else arith[0].lineno
        raise AnalysisError(f"unsupported construct: Interval.__init__ computes with its component parameters {sorted({r[0] for r in recomputed})} before storing them "
                            f"(line {ln}): whether the carry preserves the supplied values and their sign is arithmetic over runtime values, which this check does not decide")
    import itertools as _it
    from ..symex import Evaluator as _Ev2
    mags = {u: 2 + i for i, u in enumerate(units)}

    def construct(kw):
        ev = _Ev2(program)
        ev.apply_writes = True
        o = ev.self_obj(iv, {})
        ev.call_method(o, "__init__", [], {k: Const(v) for k, v in kw.items()})
        return o.attrs

    def patterns():
        seen_p = set()
        idx = list(range(len(units)))
        combos = [()] + [(i,) for i in idx] + list(_it.combinations(idx, 2))
        if run.tier == "thorough":
            combos = [c_ for r in range(len(units) + 1) for c_ in _it.combinations(idx, r)]
        else:
            combos += [tuple(idx), (0, 3, 6), (1, 2, 4, 5)]
        for c_ in combos:
            for signs in _it.product((1, -1), repeat=len(c_)):
                kw = {units[i]: sg * mags[units[i]] for i, sg in zip(c_, signs)}
                key = tuple(sorted(kw.items()))
                if key not in seen_p:
                    seen_p.add(key)
                    yield kw
                    # the same duration with every other component passed explicitly as 0 (an explicit zero is not a component)
                    if len(c_) <= 2 or run.tier == "thorough":
                        yield {**{u: 0 for u in units}, **kw}
                    # ... and with the special units passed explicitly as 0 (`Interval(weeks=0, days=5)`: computed arguments)
                    if 1 <= len(c_) <= 2:
                        yield {**kw, "quarters": 0, "weeks": 0}
    npat = 0
    bad_aspects = {}
    for kw in patterns():
        npat += 1
        at = construct(kw)
        nz = [(u, kw[u]) for u in units if kw.get(u)]
        want = {"largest": labels[units.index(nz[0][0])] if nz else None, "smallest": labels[units.index(nz[-1][0])] if nz else None,
                "is_negative": (nz[0][1] < 0) if nz else False}
        for u in units:
            got = at.get(u)
            gv = got.value if isinstance(got, Const) else (0 if got is None else "?")
            if gv != abs(kw.get(u, 0)):
                bad_aspects.setdefault("component", (kw, f"{u} stored as {show(got) if got is not None else 'absent'}, supplied {kw.get(u, 0)}"))
        for k_, w_ in want.items():
            got = at.get(k_)
            gv = got.value if isinstance(got, Const) else "?"
            if gv != w_:
                bad_aspects.setdefault({"is_negative": "sign"}.get(k_, k_), (kw, f"{k_} is {show(got) if got is not None else 'absent'}, must be {w_!r}"))
    run.ob("C18/R1 constructor bookkeeping: magnitudes stored per unit, largest = first and smallest = last non-zero component, sign of the first", "Interval.__init__",
           not bad_aspects, detail=f"{npat} sign patterns evaluated; failing aspects: {sorted(bad_aspects)}", where=init.loc())
    for aspect, (kw, why) in sorted(bad_aspects.items()):
        run.finding(f"C18/bookkeeping:Interval.__init__:{aspect}", f"Interval({', '.join(f'{k}={v}' for k, v in kw.items())}): {why} -- the literal built from these fields does not denote the supplied components",
                    where=init.loc(), rule="R1")
    run.analysed_ctor_patterns = npat
    if npat < 90:
        raise AnalysisError(f"instance count below floor: constructor sign patterns {npat}")
    # the literal must be a function of the object's own fields: no store to the instance, the class or a shared container
    # while rendering (a memo keyed by the magnitudes would hand one interval the sign or template of another)
    gsel = gs.params[0]
    stores = []
    for n in ast.walk(gs.node):
        tg = []
        if isinstance(n, ast.Assign):
            tg = n.targets
        elif isinstance(n, (ast.AugAssign, ast.AnnAssign)):
            tg = [n.target]
        for t in tg:
            base = t
            while isinstance(base, (ast.Subscript, ast.Attribute)):
                if isinstance(base, ast.Attribute) and isinstance(base.value, ast.Name) and base.value.id in (gsel, "cls", iv.name):
                    stores.append((ast.unparse(t), n.lineno))
                    break
                base = base.value
        if isinstance(n, ast.Call) and isinstance(n.func, ast.Attribute) and n.func.attr in ("setdefault", "update", "append", "add", "__setitem__") \
                and isinstance(n.func.value, ast.Attribute) and isinstance(n.func.value.value, ast.Name) and n.func.value.value.id in (gsel, "cls", iv.name):
            stores.append((ast.unparse(n.func), n.lineno))
    run.ob("C18/R1 Interval.get_sql writes no state", "Interval.get_sql", not stores, detail=str(stores[:3]), where=gs.loc())
    for what, ln in stores[:3]:
        run.finding(f"C18/render-state:Interval.get_sql:{what.split('[')[0].split('.')[-1]}", f"Interval.get_sql stores into `{what}` while rendering: a literal remembered across objects is returned for another interval "
                    "whose sign, fields or dialect differ from the one it was computed for", where=f"{gs.module.relpath}:{ln}" if hasattr(gs.module, "relpath") else gs.loc(), rule="R1")
    # the template, the sign and the unit designator: folded from the symbolic rendering
    from ..symex import Hole, Lit, Obj, Str, Sym, Evaluator as _Ev

    def fold(attrs, absent=("quarters", "weeks"), dialect=None):
        ev = _Ev(program)
        o = ev.self_obj(iv, attrs)
        o.absent = set(absent)
        ctx = CtxV.incoming(False)
        if dialect is not None:
            ctx = ctx.with_(dialect=dialect)
        return ev.call_method(o, "get_sql", [ctx])

    def sub_call(v):
        """the Hole holding trim_pattern.sub('', <formatted>) and the formatted Str inside it"""
        for part in (v.parts if isinstance(v, Str) else ()):
            if isinstance(part, Hole) and isinstance(part.value, Sym) and part.value.kind == "call" and part.value.args and part.value.args[0] == ".sub":
                inner = [a for a in part.value.args if isinstance(a, Str)]
                return part, (inner[0] if inner else None)
        return None, None

    def literal_text(v):
        return "".join(p.text if isinstance(p, Lit) else "\x00" for p in (v.parts if isinstance(v, Str) else ()))

    sym_units = {u: Sym("param", (u,)) for u in units}
    pgd = EnumV("Dialects", "POSTGRESQL", "postgresql")
    v_neg = fold({**sym_units, "largest": Const("DAY"), "smallest": Const("SECOND"), "is_negative": Const(True)}, dialect=pgd)
    hole, formatted = sub_call(v_neg)
    if hole is None or formatted is None:
        raise AnalysisError("anchor vanished: Interval.get_sql no longer trims a formatted expression with trim_pattern.sub")
    slots, seps = [], []
    for part in formatted.parts:
        if isinstance(part, Hole):
            slots.append(show(part.value))
        elif isinstance(part, Lit):
            seps.append(part.text)
    ok = slots == units and len(seps) == len(units) - 1
    run.ob("C18/R1 one template slot per unit, in unit order, each reading its own unit", "Interval.get_sql template", ok, detail=f"slots={slots} seps={seps}")
    if not ok:
        run.finding("C18/template-order:Interval.get_sql", f"the formatted expression reads {slots} separated by {seps}; units are {units}", where=gs.loc(), rule="R1")
    ok = all(len(x) == 1 and not x.isdigit() and not x.isalpha() for x in seps)
    run.ob("C18/R1 slots are separated by single non-digit separators", "Interval.get_sql template", ok, detail=str(seps))
    if not ok:
        run.finding("C18/template-separators:Interval.get_sql", f"template separators {seps} are not single non-digit characters", where=gs.loc(), rule="R1")
    txt_neg = literal_text(v_neg)
    v_pos = fold({**sym_units, "largest": Const("DAY"), "smallest": Const("SECOND"), "is_negative": Const(False)}, dialect=pgd)
    txt_pos = literal_text(v_pos)
    ok = txt_neg.replace("-\x00", "\x00", 1) == txt_pos and txt_neg.count("-\x00") == 1 and "-\x00" not in txt_pos
    run.ob("C18/R1 sign prefixed exactly once when negative, never otherwise", "Interval.get_sql", ok, detail=f"{txt_neg!r} vs {txt_pos!r}")
    if not ok:
        run.finding("C18/sign:Interval.get_sql", f"negative interval renders {txt_neg!r}, positive {txt_pos!r}: the sign is not prefixed exactly once to the trimmed expression", where=gs.loc(), rule="R1")
    cases = [({"largest": Const("DAY"), "smallest": Const("SECOND")}, "DAY_SECOND"), ({"largest": Const("YEAR"), "smallest": Const("YEAR")}, "YEAR"),
             ({"largest": Const(None), "smallest": Const(None)}, "DAY")]
    for at, want in cases:
        v = fold({**sym_units, **at, "is_negative": Const(False)}, dialect=pgd)
        txt = literal_text(v)
        ok = txt.endswith(f"\x00 {want}'")
        run.ob("C18/R1 unit designator is <largest>[_<smallest>] (DAY when empty)", f"largest={show(at['largest'])},smallest={show(at['smallest'])}", ok, detail=txt)
        if not ok:
            run.finding(f"C18/designator:Interval.get_sql:{want}", f"for largest={show(at['largest'])}, smallest={show(at['smallest'])} the literal is {txt!r}; expected the designator {want}", where=gs.loc(), rule="R1")
    sepset_sym = set(seps)

    # ---- R2
    tp = iv.class_attrs.get("trim_pattern")
    pat = None
    if isinstance(tp, ast.Call) and tp.args and isinstance(tp.args[0], ast.Constant):
        pat = tp.args[0].value
    if pat is None:
        raise AnalysisError("anchor vanished: Interval.trim_pattern = re.compile(<constant>)")
    sepset = sepset_sym
    allowed = {"0"} | sepset
    alts = alternatives(sre_parse.parse(pat))
    run.analysed = {"trim_alternatives": len(alts), "template_slots": len(slots)}
    if len(alts) < 2:
        raise AnalysisError("instance count below floor: trim alternatives")
    for i, alt in enumerate(alts):
        seq = unwrap(alt)
        label = f"alternative {i + 1} of {pat!r}"
        at_begin = bool(seq) and seq[0] == (sre_c.AT, sre_c.AT_BEGINNING)
        at_end = bool(seq) and seq[-1] == (sre_c.AT, sre_c.AT_END)
        body = [x for x in seq if x[0] is not sre_c.AT]
        anchored = at_begin or at_end
        run.ob("C18/R2 trim alternative anchored at an end of the string", label, anchored)
        if not anchored:
            run.finding(f"C18/trim-unanchored:alternative-{i + 1}", f"trim alternative {i + 1} of {pat!r} is not anchored: it can remove zero fields between two non-zero components", rule="R2")
            continue
        consumed = set()
        unknown = False
        for it in body:
            c = chars_of(it)
            if c is None:
                unknown = True
            else:
                consumed |= c
        ok = not unknown and consumed <= allowed
        run.ob("C18/R2 trim alternative consumes only zeros and template separators", label, ok, detail=f"consumes {sorted(consumed)} allowed {sorted(allowed)}")
        if not ok:
            run.finding(f"C18/trim-consumes-digits:alternative-{i + 1}", f"trim alternative {i + 1} of {pat!r} can consume {sorted(consumed - allowed) or 'arbitrary characters'}: digits of a non-zero component can be removed", rule="R2")
        inner = body[-1] if at_begin else body[0]
        ic = chars_of(inner)
        single = inner[0] in (sre_c.LITERAL, sre_c.IN)
        ok = ic is not None and single and ic <= sepset and bool(ic)
        run.ob("C18/R2 the end of the match that touches retained text is a separator", label, ok, detail=f"boundary consumes {sorted(ic) if ic is not None else None}")
        if not ok:
            run.finding(f"C18/trim-boundary:alternative-{i + 1}", f"trim alternative {i + 1} of {pat!r} can start/stop inside a digit run (boundary element consumes {sorted(ic) if ic else ic}): e.g. 10 can be cut to 1", rule="R2")
    pat_in_call = pat in show(hole.value, -20).encode().decode("unicode_escape") or "trim" in show(hole.value, -20) or ".compile" in show(hole.value, -20)
    run.ob("C18/R2 the trim applied to the formatted expression is Interval.trim_pattern", "Interval.get_sql", pat_in_call)
    if not pat_in_call:
        run.finding("C18/trim-use:Interval.get_sql", "Interval.get_sql no longer applies Interval.trim_pattern to the formatted expression", rule="R2")

    # ---- R3 (folded per shipped dialect: where do {expr} and {unit} land relative to the quotes)
    outside = {"MYSQL", "ORACLE"}
    dcls = program.cls("Dialects")
    for qn, rec in sorted(shipped_contexts(program).items()):
        d = rec.get("dialect")
        dv = EnumV("Dialects", d, dcls.class_attrs[d].value)
        v = fold({**sym_units, "largest": Const("DAY"), "smallest": Const("SECOND"), "is_negative": Const(False)}, dialect=dv)
        txt = literal_text(v)
        q1, q2 = txt.find("'"), txt.rfind("'")
        pe, pu = txt.find("\x00"), txt.find("DAY_SECOND")
        once = txt.count("\x00") == 1 and txt.count("DAY_SECOND") == 1 and txt.count("'") == 2 and txt.startswith("INTERVAL ")
        inside = q1 < pu < q2
        form_ok = (not inside) if d in outside else inside
        ok = once and q1 < pe < q2 and form_ok
        run.ob("C18/R3 dialect template has expr/unit once in the family's quoting form", f"{qn}:{d}", ok, detail=txt.replace("\x00", "{expr}"))
        if not ok:
            run.finding(f"C18/template:{d}", f"under {d} the INTERVAL literal folds to {txt.replace(chr(0), '{expr}')!r}: not the quoting form of that dialect (unit {'outside' if d in outside else 'inside'} the quotes, expr inside, each once)", rule="R3")
    vs = fold({**sym_units, "largest": Const("DAY"), "smallest": Const("SECOND"), "is_negative": Const(False)})
    by_dialect = "ctx.dialect" in show(vs, -30)
    run.ob("C18/R3 template selected by ctx.dialect", "Interval.get_sql", by_dialect)
    if not by_dialect:
        run.finding("C18/template-selection:Interval.get_sql", "Interval.get_sql no longer selects the template by ctx.dialect", rule="R3")

    # ---- R4: decided by evaluating the constructor (not by its statement shape): with quarters / weeks supplied together
    # with trimmed components, only the special unit may be stored
    probs = []
    for sp in ("quarters", "weeks"):
        at = construct({sp: 3, "days": 2, "seconds": 5})
        got = at.get(sp)
        if not (isinstance(got, Const) and got.value == 3):
            probs.append(f"{sp} is stored as {show(got) if got is not None else 'absent'}")
        mixed = [u for u in ("days", "seconds") if isinstance(at.get(u), Const) and at.get(u).value]
        lg = at.get("largest")
        if mixed or (lg is not None and not (isinstance(lg, Const) and lg.value is None)):
            probs.append(f"Interval({sp}=3, days=2, seconds=5) also stores {mixed or 'largest=' + show(lg)}")
    at = construct({"quarters": 3, "weeks": 2})
    if isinstance(at.get("weeks"), Const) and at.get("weeks").value:
        probs.append("Interval(quarters=3, weeks=2) stores both special units")
    at = construct({"quarters": 0, "weeks": 3})
    if not (isinstance(at.get("weeks"), Const) and at.get("weeks").value == 3) or "quarters" in at:
        probs.append(f"Interval(quarters=0, weeks=3) stores weeks={show(at.get('weeks')) if at.get('weeks') is not None else 'absent'}"
                     f"{' and quarters=' + show(at['quarters']) if 'quarters' in at else ''}: an explicit zero is not a unit")
    run.ob("C18/R4 quarters / weeks are stored exclusively", "Interval.__init__", not probs, detail="; ".join(probs)[:200] or "3 mixed constructions evaluated", where=init.loc())
    if probs:
        run.finding("C18/special-exclusive:Interval.__init__", "quarters/weeks are no longer stored exclusively: " + probs[0] + " -- they can be mixed with trimmed components", where=init.loc(), rule="R4")
    specials = [("microseconds", "MICROSECOND", {"largest": Const("MICROSECOND"), "smallest": Const("MICROSECOND")}, ("quarters", "weeks")),
                ("quarters", "QUARTER", {"largest": Const(None), "smallest": Const(None), "quarters": Sym("param", ("quarters",))}, ("weeks",)),
                ("weeks", "WEEK", {"largest": Const(None), "smallest": Const(None), "weeks": Sym("param", ("weeks",))}, ("quarters",))]
    for attr, unit, at, absent in specials:
        v = fold({**sym_units, **at, "is_negative": Const(False)}, absent=absent, dialect=pgd)
        h, _ = sub_call(v)
        holes = [show(p.value) for p in v.parts if isinstance(p, Hole)] if isinstance(v, Str) else []
        txt = literal_text(v)
        ok = h is None and holes == [attr] and txt.endswith(f"\x00 {unit}'")
        run.ob("C18/R4 special case emits the stored value untrimmed with its own unit", f"Interval.get_sql:{attr}", ok, detail=f"{txt!r} holes={holes}")
        if not ok:
            run.finding(f"C18/special-case:Interval.get_sql:{attr}", f"the {unit} special case renders {txt!r} from {holes}; expected the stored {attr} value, untrimmed, with unit {unit}", where=gs.loc(), rule="R4")
    run.info("C18/info:abs-non-leading", "negative non-leading components lose their sign (abs); outside the property's quantifier (negative leading components)")
    _inherit_ctx_bypass(program, run)


def _inherit_ctx_bypass(program, run):
    """the quoting form of the literal is chosen from ctx.dialect inside Interval.get_sql: every slot that can hold an
    Interval must therefore render it through get_sql(ctx); a str()/format bypass prints the default dialect's form"""
    from ..report import Run as _Run
    from . import c08
    sub = _Run("C08", run.tier)
    c08.check(program, sub)
    for fd in sub.findings:
        if not fd.info and fd.key.startswith("C08/ctx-bypass:"):
            run.finding("C18/dialect-form-bypass:" + fd.key.split(":", 1)[1], "an Interval in this position is written in the default dialect's quoting form: " + fd.what,
                        where=fd.where, rule="inherited from C08/R1")
    for fd in sub.findings:
        if not fd.info and fd.key.startswith("C08/entry-context-drops:") and ":dialect:" in fd.key:
            run.finding("C18/dialect-not-delivered:" + fd.key.split(":", 1)[1], "Interval.get_sql picks its quoting template from ctx.dialect: " + fd.what, where=fd.where, rule="inherited from C08/R1c")
    for o in sub.obligations:
        if o.rule.startswith("C08/R1c") and o.subject.endswith(":dialect"):
            run.ob("C18 (inherited from C08/R1c) the statement's dialect reaches operands of a top-level set operation", o.subject, o.ok, o.detail, o.where)
    n = sum(1 for o in sub.obligations if o.rule.startswith("C08/R1 dialect fields inherited"))
    run.ob("C18 (inherited from C08/R1) no child node is formatted with str()/format instead of get_sql(ctx)", "package",
           not any(fd.key.startswith("C08/ctx-bypass:") for fd in sub.findings if not fd.info), detail=f"{n} nested render sites examined by C08/R1")
