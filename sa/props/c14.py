"""C14 -- invalid constructions are rejected with library exceptions; valid ones never are (DESIGN 2/C14)."""
from __future__ import annotations

import ast

from ..inline import inlined
from ..model import AnalysisError, FuncInfo, Program
from ..report import Run
from ..symex import Evaluator, Obj, Sym, show

# Guard table: instances discovered from the code, confirmed by reading, frozen here.
# (function, attributes the test must read, exception, attribute(s) whose write it must dominate, options)
G = [
    ("QueryBuilder.into", {"_insert_table"}, "AttributeError", {"_insert_table"}, {}),
    ("QueryBuilder.update", {"_update_table", "_selects", "_delete_from"}, "AttributeError", {"_update_table"}, {}),
    ("QueryBuilder.delete", {"_delete_from", "_selects", "_update_table"}, "AttributeError", {"_delete_from"}, {}),
    ("QueryBuilder.rollup", {"_mysql_rollup"}, "AttributeError", {"_groupbys", "_mysql_rollup"}, {}),
    ("QueryBuilder.rollup", {"_groupbys"}, "RollupException", {"_mysql_rollup"}, {"nested": True}),
    ("QueryBuilder.columns", {"_insert_table"}, "AttributeError", {"_columns"}, {}),
    ("QueryBuilder.insert", {"_insert_table"}, "AttributeError", {"_values"}, {}),
    ("QueryBuilder.replace", {"_insert_table"}, "AttributeError", {"_values"}, {}),
    ("QueryBuilder.on_conflict", {"_insert_table"}, "QueryException", {"_on_conflict"}, {}),
    ("QueryBuilder.do_update", {"_on_conflict_do_nothing"}, "QueryException", {"_on_conflict_do_updates"}, {}),
    ("QueryBuilder.do_nothing", {"_on_conflict_do_updates"}, "QueryException", {"_on_conflict_do_nothing"}, {}),
    ("QueryBuilder.where", {"_on_conflict_do_nothing"}, "QueryException", {"_on_conflict_wheres", "_on_conflict_do_update_wheres"}, {"nested": True, "under": {"_on_conflict"}}),
    ("QueryBuilder.where", {"_on_conflict_fields"}, "QueryException", set(), {"nested": True, "label": "fieldless ON CONFLICT WHERE"}),
    ("QueryBuilder._on_conflict_sql", {"_on_conflict_fields"}, "QueryException", set(), {"nested": True, "label": "no handler"}),
    ("QueryBuilder._on_conflict_sql", {"_on_conflict_do_updates", "_on_conflict_fields"}, "QueryException", set(), {"label": "fieldless do update"}),
    ("QueryBuilder._select_field_str", {"_from"}, "QueryException", {"_selects"}, {}),
    ("Table.for_", {"_for"}, "AttributeError", {"_for"}, {}),
    ("Table.for_", {"_for_portion"}, "AttributeError", {"_for"}, {}),
    ("Table.for_portion", {"_for_portion"}, "AttributeError", {"_for_portion"}, {}),
    ("Table.for_portion", {"_for"}, "AttributeError", {"_for_portion"}, {}),
    ("CreateQueryBuilder.create_table", {"_create_table"}, "AttributeError", {"_create_table"}, {}),
    ("CreateQueryBuilder.primary_key", {"_primary_key"}, "AttributeError", {"_primary_key"}, {}),
    ("CreateQueryBuilder.columns", {"_as_select"}, "AttributeError", {"_columns"}, {}),
    ("CreateQueryBuilder.as_select", {"_columns"}, "AttributeError", {"_as_select"}, {}),
    ("CreateQueryBuilder.as_select", set(), "TypeError", {"_as_select"}, {"label": "not a QueryBuilder"}),
    ("DropQueryBuilder.drop_table", {"_drop_table"}, "AttributeError", {"_drop_table"}, {}),
    ("WindowFrameAnalyticFunction._set_frame_and_bounds", {"frame", "bound"}, "AttributeError", {"frame", "bound"}, {}),
    ("Case.get_sql", {"_cases"}, "CaseException", set(), {}),
    ("_SetOperation.get_sql", {"base_query"}, "SetOperationException", set(), {"in_loop_over": "_set_operation"}),
    ("PostgreSQLQueryBuilder.returning", set(), "QueryException", {"_returns"}, {"nested": True, "label": "aggregate function"}),
    ("PostgreSQLQueryBuilder._validate_returning_term", {"_insert_table", "_update_table", "_delete_from"}, "QueryException", set(), {"label": "non-DML statement", "no_loop": True}),
    ("PostgreSQLQueryBuilder._validate_returning_term", set(), "QueryException", set(), {"nested": True, "label": "foreign table", "second": True}),
    ("PostgreSQLQueryBuilder._return_field_str", {"_insert_table", "_update_table", "_delete_from"}, "QueryException", {"_returns", "_return_star"}, {"label": "non-DML statement (str term)"}),
    ("Joiner.on", set(), "JoinException", set(), {"label": "criterion is None"}),
    ("Joiner.on_field", set(), "JoinException", set(), {"label": "no fields"}),
    ("Joiner.using", set(), "JoinException", set(), {"label": "no fields"}),
    ("JoinOn.validate", set(), "JoinException", set(), {"label": "missing tables"}),
    ("QueryBuilder.join", set(), "ValueError", set(), {"label": "unknown item type", "tail": True}),
    ("MSSQLQueryBuilder.top", set(), "QueryException", set(), {"label": "non-integer TOP", "in_handler": True}),
]


def self_reads(e: ast.AST, selfn: str) -> set[str]:
    return {n.attr for n in ast.walk(e) if isinstance(n, ast.Attribute) and isinstance(n.value, ast.Name) and n.value.id == selfn}


def raises_in(stmts) -> list[tuple[str, ast.Raise]]:
    out = []
    for s in stmts:
        if isinstance(s, ast.Raise) and s.exc is not None:
            e = s.exc.func if isinstance(s.exc, ast.Call) else s.exc
            out.append((ast.unparse(e), s))
    return out


def collect_guards(f: FuncInfo):
    """every `raise` with its guarding tests: (exc, attrs read by the enclosing tests, loops around it, in_else, node, top-level index)"""
    selfn = f.params[0] if f.params else "self"
    out = []
    # what a local stands for: the receiver's attributes read by the expression it was bound to
    # (`fields = bool(self._on_conflict_fields)`, `if (table := self._insert_table or self._update_table)`)
    bindings: list = []      # (line, name, value expression), in source order
    for n in ast.walk(f.node):
        if isinstance(n, ast.Assign) and len(n.targets) == 1 and isinstance(n.targets[0], ast.Name):
            bindings.append((n.lineno, n.targets[0].id, n.value))
        elif isinstance(n, ast.NamedExpr) and isinstance(n.target, ast.Name):
            bindings.append((n.lineno, n.target.id, n.value))
    bindings.sort(key=lambda b: b[0])

    def local_reads_at(name: str, line: int, depth: int = 0) -> set:
        """attributes of the receiver a local stands for at `line`: the bindings made before that line (a later
        re-binding, e.g. in the branch the test guards, says nothing about what the test looked at)"""
        r = set()
        if depth > 3:
            return r
        for ln, tgt, val in bindings:
            if tgt != name or ln > line:
                continue
            r |= self_reads(val, selfn)
            for x in ast.walk(val):
                if isinstance(x, ast.Name) and x.id != name:
                    r |= local_reads_at(x.id, ln, depth + 1)
        return r

    def reads_of(t):
        r = self_reads(t, selfn)
        line = getattr(t, "lineno", 10 ** 9)
        for x in ast.walk(t):
            if isinstance(x, ast.Name) and isinstance(x.ctx, ast.Load):
                r |= local_reads_at(x.id, line)
        return r

    def rec(stmts, tests, loops, top_idx, in_else, in_handler):
        for i, s in enumerate(stmts):
            ti = i if top_idx is None else top_idx
            if isinstance(s, ast.Raise) and s.exc is not None:
                e = s.exc.func if isinstance(s.exc, ast.Call) else s.exc
                attrs = set()
                for t in tests:
                    attrs |= reads_of(t)
                out.append({"exc": ast.unparse(e).split(".")[-1], "attrs": attrs, "loops": list(loops), "else": in_else, "node": s, "top": ti,
                            "depth": len(tests), "handler": in_handler, "test_attrs": [reads_of(t) for t in tests]})
            elif isinstance(s, ast.If):
                rec(s.body, tests + [s.test], loops, ti, False, in_handler)
                rec(s.orelse, tests + [s.test], loops, ti, True, in_handler)
            elif isinstance(s, (ast.For, ast.While)):
                it = ast.unparse(s.iter) if isinstance(s, ast.For) else ast.unparse(s.test)
                rec(s.body, tests, loops + [it], ti, in_else, in_handler)
            elif isinstance(s, ast.Try):
                rec(s.body, tests, loops, ti, in_else, in_handler)
                for h in s.handlers:
                    rec(h.body, tests, loops, ti, in_else, True)
    rec(f.node.body, [], [], None, False, False)
    return out


def first_write_index(f: FuncInfo, attrs: set[str]):
    """top-level statement index of the first write to any of attrs (through self-calls of helpers too)"""
    selfn = f.params[0] if f.params else "self"
    for i, s in enumerate(f.node.body):
        for n in ast.walk(s):
            if isinstance(n, ast.Attribute) and isinstance(n.value, ast.Name) and n.value.id == selfn and n.attr in attrs:
                if isinstance(n.ctx, ast.Store):
                    return i
            if isinstance(n, ast.Call) and isinstance(n.func, ast.Attribute) and n.func.attr in ("append", "extend", "add", "insert"):
                v = n.func.value
                if isinstance(v, ast.Attribute) and isinstance(v.value, ast.Name) and v.value.id == selfn and v.attr in attrs:
                    return i
            if isinstance(n, ast.AugAssign) and isinstance(n.target, ast.Attribute) and n.target.attr in attrs:
                return i
            if isinstance(n, ast.Call) and isinstance(n.func, ast.Attribute) and isinstance(n.func.value, ast.Name) and n.func.value.id == selfn \
                    and n.func.attr.startswith("_") and not isinstance(s, ast.If):
                return i if attrs else None
    return None


def _anchor(program: Program, qual: str) -> FuncInfo:
    """the effective definition of Class.method for instances of Class (it may be inherited, e.g. after a pull-up into a
    template method), read with the hooks it calls on self / through super() inlined for that class"""
    head, _, tail = qual.rpartition(".")
    c = program.find_cls(head)
    if c is not None:
        f = c.resolve(tail)
        if f is None:
            raise AnalysisError(f"anchor vanished: function {qual}")
        return inlined(program, f, c)
    return inlined(program, program.func(qual))



def _type_witness_flag(program, cls, flag: str, attr: str, name: str, selfn_unused, defines) -> bool:
    """every store to self.<attr> outside __init__ in the class hierarchy stands next to a store
    `self.<flag> = ... isinstance(<the stored value>, (K...)) ...` (same block) with every K defining <name>"""
    found = 0
    for k in [k_ for k_ in program.all_classes() if k_ is cls or k_.is_subclass_of(cls) or cls.is_subclass_of(k_)]:
        for g in k.methods.values():
            if not g.params or g.name == "__init__":
                continue
            sn = g.params[0]
            for blk in ast.walk(g.node):
                for fld in ("body", "orelse", "finalbody"):
                    stmts = getattr(blk, fld, None)
                    if not isinstance(stmts, list):
                        continue
                    for i, st in enumerate(stmts):
                        if not (isinstance(st, ast.Assign) and len(st.targets) == 1 and isinstance(st.targets[0], ast.Attribute) and st.targets[0].attr == attr
                                and isinstance(st.targets[0].value, ast.Name) and st.targets[0].value.id == sn):
                            continue
                        if isinstance(st.value, ast.Call) and isinstance(st.value.func, ast.Attribute) and ast.unparse(st.value.func.value) == f"{sn}.{attr}":
                            continue       # `self.item = self.item.<method>(...)`: the same kind of object again
                        stored = ast.unparse(st.value)
                        ok = False
                        for other in stmts:
                            if (isinstance(other, ast.Assign) and len(other.targets) == 1 and isinstance(other.targets[0], ast.Attribute) and other.targets[0].attr == flag
                                    and isinstance(other.targets[0].value, ast.Name) and other.targets[0].value.id == sn):
                                for c in ast.walk(other.value):
                                    if (isinstance(c, ast.Call) and isinstance(c.func, ast.Name) and c.func.id == "isinstance" and len(c.args) == 2
                                            and ast.unparse(c.args[0]) in (stored, f"{sn}.{attr}")):
                                        spec = c.args[1]
                                        ks = [program.resolve_expr_class(g.module, e, None) for e in (spec.elts if isinstance(spec, ast.Tuple) else [spec])]
                                        if ks and all(ks) and all(defines(kk, name) for kk in ks):
                                            ok = True
                        if not ok:
                            return False
                        found += 1
    return found > 0

def check(program: Program, run: Run) -> None:
    run.explanation = (
        "Must-raise-before-write discipline over a frozen guard table (38 documented rejections discovered from the code and "
        "confirmed by reading): for every entry the named function must contain a raise of the documented exception class "
        "whose enclosing tests read the guarded attributes, placed so that it dominates the write it protects (top-level "
        "statement before the first write; not inside a possibly-empty loop unless the entry says every element must be "
        "checked); symmetric pairs agree. The join availability set is checked by symbolic evaluation of do_join / "
        "JoinOn.validate: every source the property names must reach the union. Exactness 'in both directions' over object "
        "graphs depends on eq/hash coherence, discharged by C17 and re-evaluated here. Behaviour on generated call sequences is not computed.")
    run.rule("R1 guard table: raise of the documented exception, reading the guarded attributes, dominating the protected write")
    run.rule("R2 join availability = FROM list + update table + CTEs (do_join) | items of existing joins | item being joined; criterion tables from all fields; JoinException iff difference non-empty")
    run.rule("R6 a validation never consults a one-shot iterator more than once (in a loop): the second field would be judged against an empty set of available tables")
    run.rule("R5 (inherited from C01) the state a guard reads is not writable through another object: a guard over an attribute that a sibling/receiver can mutate in place fires for the wrong object")
    run.rule("R4 no attribute is read from a value whose declared class has a value-manufacturing __getattr__ unless that class defines the attribute (else a valid operand of another subclass yields a Field and a TypeError instead of SQL or a library exception)")
    run.rule("R3 set arithmetic exactness inherits C17 (hash/eq coherence of Table, Field collection)")
    n_ok = 0
    def tail_delegates(f0: FuncInfo) -> list[FuncInfo]:
        """private methods of the same class that f0 hands its work to in a return statement (`return self._where(x)`):
        a public method split into a thin wrapper and a worker keeps its guards in the worker"""
        out = []
        if f0.cls is None or not f0.params:
            return out
        for n in ast.walk(f0.node):
            if isinstance(n, ast.Return) and isinstance(n.value, ast.Call) and isinstance(n.value.func, ast.Attribute) \
                    and isinstance(n.value.func.value, ast.Name) and n.value.func.value.id == f0.params[0] and n.value.func.attr.startswith("_"):
                g0 = f0.cls.resolve(n.value.func.attr)
                if g0 is not None and g0 not in out:
                    out.append(g0)
        return out

    def select(guards_, attrs_, exc_, opt_):
        cs = [g for g in guards_ if g["exc"] == exc_ and attrs_ <= g["attrs"]]
        if opt_.get("else_branch"):
            cs = [g for g in cs if g["else"]]
        if opt_.get("in_handler"):
            cs = [g for g in cs if g["handler"]]
        if opt_.get("second"):
            cs = cs[1:] if len(cs) > 1 else []
        return cs
    for qual, attrs, exc, protects, opt in G:
        f = _anchor(program, qual)   # vanished anchor -> AnalysisError; inherited definitions followed, private helpers / hooks / local functions inlined
        guards = collect_guards(f)
        label = opt.get("label") or ",".join(sorted(attrs))
        cands = select(guards, attrs, exc, opt)
        if not cands:
            for d_ in tail_delegates(f):
                gd = collect_guards(d_)
                cd = select(gd, attrs, exc, opt)
                if cd:
                    f, guards, cands = d_, gd, cd
                    break
        subject = f"{qual}[{label}]->{exc}"
        if not cands:
            wrong_exc = [g for g in guards if attrs and attrs <= g["attrs"]]
            run.ob("C14/R1 documented rejection present", subject, False, where=f.loc())
            if wrong_exc:
                run.finding(f"C14/guard-exception:{qual}:{label}", f"{qual} rejects [{label}] with {wrong_exc[0]['exc']} instead of the documented {exc}", where=f.loc(wrong_exc[0]['node']), rule="R1")
            else:
                run.finding(f"C14/guard-missing:{qual}:{label}", f"{qual} no longer raises {exc} for [{label}]: the invalid construction produces SQL instead of an exception", where=f.loc(), rule="R1")
            continue
        g = cands[0]
        ok = True
        why = ""
        if opt.get("in_loop_over"):
            if not any(opt["in_loop_over"] in lp for lp in g["loops"]):
                ok, why = False, f"the check is not inside the loop over {opt['in_loop_over']}: only some operands are checked"
        elif g["loops"] and (opt.get("no_loop") or not opt.get("nested")):
            ok, why = False, f"the test sits inside `for ... in {g['loops'][0]}`: it does not run when that iteration is empty, so it does not dominate what it protects"
        if ok and protects and not any(opt.get(k) for k in ("nested", "else_branch", "in_handler", "second", "in_loop_over", "tail")) and g["depth"] > 1 \
                and not (attrs and all(ta and ta <= attrs for ta in g.get("test_attrs", [set()]))):      # (nested tests that all read the guarded attributes are one guard)
            ok, why = False, (f"the guard is nested under another condition, so the paths that write {sorted(protects)} without satisfying that condition are not protected")
        if ok and opt.get("under") is not None:
            # a guard that may sit in one branch of a mode switch (`if not self._on_conflict: ... else: <guards>`): the tests
            # around it may read the switch and the guarded attributes, nothing else -- one more condition around it
            # (`if not self._on_conflict_fields: if self._on_conflict_do_nothing: raise`) lets the other paths through
            extra = set()
            for ta in g.get("test_attrs", []):
                extra |= ta - attrs - set(opt["under"])
            if extra:
                ok, why = False, f"the guard only runs under a further condition over {sorted(extra)}: the paths on which that condition fails are not protected"
        if ok and protects and not opt.get("nested"):
            fw = first_write_index(f, protects)
            if fw is not None and g["top"] > fw:
                ok, why = False, f"a write to {sorted(protects)} precedes the guard"
        run.ob("C14/R1 documented rejection present and dominating", subject, ok, detail=why, where=f.loc(g["node"]))
        if ok:
            n_ok += 1
        else:
            run.finding(f"C14/guard-not-dominating:{qual}:{label}", f"{qual}: the {exc} guard for [{label}] does not protect every path: {why}", where=f.loc(g["node"]), rule="R1")
    run.analysed = {"guard_table_entries": len(G), "guards_ok": n_ok}
    if len(G) < 30:
        raise AnalysisError("guard table shrank below the confirmed floor")
    # symmetric pair
    # (do_update tests do_nothing / do_nothing tests do_updates) -- both present in G; agreement = both ok

    # ---- R2
    ev = Evaluator(program)
    qb = program.cls("QueryBuilder")
    dj = qb.resolve("do_join")
    if dj is None:
        raise AnalysisError("anchor vanished: QueryBuilder.do_join")
    base = None
    second = None
    for n in ast.walk(dj.node):
        if isinstance(n, ast.Call) and isinstance(n.func, ast.Attribute) and n.func.attr == "validate":
            base, second = n.args[0], n.args[1] if len(n.args) > 1 else None
    if base is None:
        run.finding("C14/join-validation-skipped:QueryBuilder.do_join", "do_join no longer calls join.validate(...)", where=dj.loc(), rule="R2")
    else:
        # resolve local variable definitions
        defs = {t.id: s.value for s in ast.walk(dj.node) if isinstance(s, ast.Assign) for t in s.targets if isinstance(t, ast.Name)}

        def expand(e):
            return defs.get(e.id, e) if isinstance(e, ast.Name) else e
        def reads_through_helpers(e):
            """attributes of self read by the expression, following argument-less helper methods of the builder one level"""
            out = self_reads(e, dj.params[0])
            for n in ast.walk(e):
                if isinstance(n, ast.Call) and isinstance(n.func, ast.Attribute) and isinstance(n.func.value, ast.Name) and n.func.value.id == dj.params[0]:
                    hf = qb.resolve(n.func.attr)
                    if hf is not None and hf.params:
                        out |= self_reads(hf.node, hf.params[0])
            return out
        srcs = reads_through_helpers(expand(base))
        for need in ("_from", "_update_table", "_with"):
            ok = need in srcs
            run.ob("C14/R2 source reaches the availability set", f"do_join:{need}", ok, where=dj.loc())
            if not ok:
                run.finding(f"C14/availability-missing:QueryBuilder.do_join:{need}", f"do_join does not pass {need} to join.validate: tables available through it are reported as missing (valid joins rejected)", where=dj.loc(), rule="R2")
        # ... and decided exactly for the two shapes of state that matter: the expression handed to validate() is evaluated with
        # concrete one-element FROM / CTE lists and an UPDATE target (and once more with an empty FROM list); every source
        # must be an element of the result (`self._from or [self._update_table]` names all three and still drops one)
        from ..symex import Frame, ListV, Obj, One
        tblc = program.cls("Table")
        for from_n in (1, 0):
            A, T_, W = Obj(tblc, {}, "<from item>"), Obj(tblc, {}, "<update target>"), Obj(tblc, {}, "<cte>")
            ev2 = Evaluator(program)
            o2 = ev2.self_obj(qb, {"_from": ListV((One(A),) if from_n else (), "list"), "_update_table": T_, "_with": ListV((One(W),), "list")})
            fr2 = Frame(dj, qb, o2, dj.module)
            fr2.env[dj.params[0]] = o2
            try:
                val = ev2.consume_lazy(ev2.eval(expand(base), fr2))
            except AnalysisError:
                val = None
            if not (isinstance(val, ListV) and all(isinstance(i, One) for i in val.items)):
                continue      # not a concrete list under this evaluation: the read-set rule above stands alone
            got = [i.value for i in val.items]
            for need, obj in (("_from", A), ("_update_table", T_), ("_with", W)):
                if need == "_from" and not from_n:
                    continue
                ok = any(g is obj for g in got)
                run.ob("C14/R2 source is an element of the availability list", f"do_join:{need} (FROM {'non-empty' if from_n else 'empty'})", ok, where=dj.loc())
                if not ok:
                    run.finding(f"C14/availability-missing:QueryBuilder.do_join:{need}",
                                f"do_join hands `{ast.unparse(expand(base))[:80]}` to join.validate: with a {'non-empty' if from_n else 'empty'} FROM list {need} is not among the available "
                                "tables, so a join condition on it is rejected although the table is a source of the statement", where=dj.loc(), rule="R2")
        ok = second is not None and "_joins" in reads_through_helpers(expand(second))
        run.ob("C14/R2 source reaches the availability set", "do_join:_joins", ok, where=dj.loc())
        if not ok:
            run.finding("C14/availability-missing:QueryBuilder.do_join:_joins", "do_join does not pass the existing joins to join.validate", where=dj.loc(), rule="R2")
    jv = _anchor(program, "JoinOn.validate")
    params = jv.params[1:]
    src_text = {}
    for s in ast.walk(jv.node):
        if isinstance(s, ast.Assign):
            for t in s.targets:
                if isinstance(t, ast.Name):
                    src_text[t.id] = s.value
        if isinstance(s, ast.NamedExpr) and isinstance(s.target, ast.Name):
            src_text[s.target.id] = s.value

    # a set grown in place at the top level of the method (`s = set(a); s.update(b); s.add(c)`, `s |= d`) is the union
    for st in jv.node.body:
        if (isinstance(st, ast.Expr) and isinstance(st.value, ast.Call) and isinstance(st.value.func, ast.Attribute) and st.value.func.attr in ("update", "add")
                and isinstance(st.value.func.value, ast.Name) and st.value.func.value.id in src_text and st.value.args and not st.value.keywords):
            nm = st.value.func.value.id
            for a in st.value.args:
                piece = ast.Set(elts=[a]) if st.value.func.attr == "add" else ast.Call(func=ast.Name(id="set", ctx=ast.Load()), args=[a], keywords=[])
                src_text[nm] = ast.fix_missing_locations(ast.copy_location(ast.BinOp(left=src_text[nm], op=ast.BitOr(), right=piece), st))
        elif isinstance(st, ast.AugAssign) and isinstance(st.op, ast.BitOr) and isinstance(st.target, ast.Name) and st.target.id in src_text:
            src_text[st.target.id] = ast.fix_missing_locations(ast.copy_location(ast.BinOp(left=src_text[st.target.id], op=ast.BitOr(), right=st.value), st))

    def expand_all(e, depth=0):
        """substitute local single-assignment names by their defining expressions (names are not relied upon)"""
        if depth > 6:
            return e

        class Sub(ast.NodeTransformer):
            def visit_Name(self, n):
                if isinstance(n.ctx, ast.Load) and n.id in src_text and n.id not in jv.params:
                    return expand_all(src_text[n.id], depth + 1)
                return n

            def visit_NamedExpr(self, n):
                return expand_all(n.value, depth + 1)
        import copy as _copy
        return Sub().visit(_copy.deepcopy(e))

    raising = [n for n in ast.walk(jv.node) if isinstance(n, ast.If) and any(isinstance(x, ast.Raise) for b in n.body for x in ast.walk(b))]
    if not raising:
        # the guard-clause spelling: `if not <missing>: return` followed by the raise at the same level
        body = jv.node.body
        for i, st in enumerate(body):
            if (isinstance(st, ast.If) and not st.orelse and st.body and isinstance(st.body[-1], ast.Return) and st.body[-1].value is None
                    and any(isinstance(x, ast.Raise) for x in body[i + 1:])):
                t = st.test
                neg = t.operand if isinstance(t, ast.UnaryOp) and isinstance(t.op, ast.Not) else ast.UnaryOp(op=ast.Not(), operand=t)
                pseudo = ast.copy_location(ast.If(test=neg, body=[x for x in body[i + 1:] if isinstance(x, ast.Raise)][:1], orelse=[]), st)
                ast.fix_missing_locations(pseudo)
                raising = [pseudo]
                break
    if not raising:
        raise AnalysisError("anchor vanished: JoinOn.validate has no guarded raise")
    test = expand_all(raising[0].test)
    shape = isinstance(test, ast.BinOp) and isinstance(test.op, ast.Sub)
    run.ob("C14/R2 JoinException raised iff criterion tables minus available tables is non-empty", "JoinOn.validate", shape, where=jv.loc(raising[0]),
           detail=ast.unparse(test)[:160])
    if not shape:
        run.finding("C14/join-check-shape:JoinOn.validate", "JoinOn.validate no longer raises exactly when (criterion tables - available tables) is non-empty: "
                    f"the guarded raise tests `{ast.unparse(test)[:120]}`", where=jv.loc(raising[0]), rule="R2")
    else:
        crit, avail = test.left, test.right
        names = {n.id for n in ast.walk(avail) if isinstance(n, ast.Name)}
        checks = [
            ("base tables parameter", params[0] in names if params else False),
            ("existing joins' items", len(params) > 1 and params[1] in names and any(isinstance(n, ast.Attribute) and n.attr == "item" for n in ast.walk(avail))),
            ("item being joined", "item" in self_reads(avail, jv.params[0])),
        ]
        for label, ok in checks:
            run.ob("C14/R2 source reaches the availability set", f"JoinOn.validate:{label}", ok, where=jv.loc())
            if not ok:
                run.finding(f"C14/availability-missing:JoinOn.validate:{label}", f"JoinOn.validate does not add the {label} to the available tables: valid join conditions referring to it are rejected", where=jv.loc(), rule="R2")
        # the left operand must be the sources of ALL fields of the criterion: {f.table for f in criterion.fields_()} --
        # a helper that filters by source class (tables_ = find_(Table)) drops fields of subqueries / CTE references
        fcalls = [n for n in ast.walk(crit) if isinstance(n, ast.Call) and isinstance(n.func, ast.Attribute) and n.func.attr == "fields_"
                  and "criterion" in self_reads(n.func.value, jv.params[0])]
        takes_table = any(isinstance(n, ast.Attribute) and n.attr == "table" for n in ast.walk(crit))
        def _none_filter(t):
            # `<x>.table is not None`
            return isinstance(t, ast.Compare) and len(t.ops) == 1 and isinstance(t.ops[0], ast.IsNot) and isinstance(t.comparators[0], ast.Constant) \
                and t.comparators[0].value is None and isinstance(t.left, ast.Attribute) and t.left.attr == "table"
        comp_ifs = [t for n in ast.walk(crit) if isinstance(n, ast.comprehension) for t in n.ifs]
        filtered = any(not _none_filter(t) for t in comp_ifs)
        # a field without a table refers to no source, so it can never refer to a missing one: None must not survive into
        # the difference (relying on `[self._update_table]` happening to be None admits it for SELECTs only)
        drops_none = any(_none_filter(t) for t in comp_ifs) or any(
            isinstance(n, ast.Call) and isinstance(n.func, ast.Attribute) and n.func.attr == "discard" and n.args and isinstance(n.args[0], ast.Constant) and n.args[0].value is None
            for n in ast.walk(jv.node)) or any(isinstance(n, ast.BinOp) and isinstance(n.op, ast.Sub) and isinstance(n.right, ast.Set) and any(isinstance(x, ast.Constant) and x.value is None for x in n.right.elts) for n in ast.walk(test))
        run.ob("C14/R2 table-less fields of the criterion are never reported missing", "JoinOn.validate", drops_none, where=jv.loc(raising[0]), detail=ast.unparse(crit)[:120])
        if not drops_none:
            run.finding("C14/tableless-field-rejected:JoinOn.validate",
                        "JoinOn.validate leaves None (the source of a field built without a table) in the set it subtracts the available tables from: such a criterion is only accepted while "
                        "do_join's `[self._update_table]` happens to be None, i.e. a valid UPDATE ... JOIN ... ON <unqualified column> raises JoinException(Found [None])", where=jv.loc(raising[0]), rule="R2")
        find_field = any(isinstance(n, ast.Call) and isinstance(n.func, ast.Attribute) and n.func.attr == "find_" and n.args
                         and isinstance(n.args[0], ast.Name) and n.args[0].id == "Field" for n in ast.walk(crit))
        narrowed = any(isinstance(n, ast.Attribute) and n.attr == "tables_" for n in ast.walk(crit)) or any(
            isinstance(n, ast.Call) and isinstance(n.func, ast.Attribute) and n.func.attr == "find_" and n.args
            and not (isinstance(n.args[0], ast.Name) and n.args[0].id == "Field") for n in ast.walk(crit))
        allfields = (bool(fcalls) or find_field) and takes_table and not filtered and not narrowed
        if not allfields and not (filtered or narrowed or ((bool(fcalls) or find_field) and not takes_table)):
            # neither the confirmed idiom nor a recognised narrowing: an unknown way of collecting sources is not judged
            raise AnalysisError(f"unsupported construct: JoinOn.validate collects criterion sources by `{ast.unparse(crit)[:100]}`")
        run.ob("C14/R2 criterion tables come from all fields of the criterion", "JoinOn.validate", allfields, where=jv.loc(raising[0]), detail=ast.unparse(crit)[:120])
        if not allfields:
            run.finding("C14/criterion-tables-partial:JoinOn.validate", "JoinOn.validate does not take the sources of all fields of the criterion "
                        f"(left operand of the difference is `{ast.unparse(crit)[:100]}`, not the .table of every criterion.fields_() entry): "
                        "fields of a subquery or CTE reference that is not in scope are no longer reported", where=jv.loc(raising[0]), rule="R2")

    # ---- R4
    _manufactured_reads(program, run)

    # ---- R7: an argument reaches the validating helper unless the statement's own state says none is needed (`*` already
    # returned); a guard that decides from a projection of the argument (same name, same alias ...) that it need not be
    # validated lets the invalid one through whenever the projection coincides
    from ..families import early_drop_guards
    nv = 0
    for f7, st7, guards7, later7, read7 in early_drop_guards(program):
        vals = [a for k_, a in later7 if k_ == "val"]
        if not vals:
            continue
        nv += 1
        ok7 = not read7 or "table" in read7
        run.ob("C14/R7 no argument skips its validation on the strength of a projection", f"{f7.qualname}:{st7.lineno}", ok7,
               detail="; ".join(ast.unparse(g)[:60] for g in guards7), where=f7.loc(st7))
        if not ok7:
            run.finding(f"C14/validation-bypassed:{f7.qualname}:{vals[0]}",
                        f"{f7.qualname} returns before `{vals[0]}` is called when `{ast.unparse(guards7[-1])[:80]}` holds: the test compares {sorted(read7)} of the argument only, "
                        "so an argument that would be rejected (a column of a table that is not part of the statement) is silently dropped instead of raising", where=f7.loc(st7), rule="R7")
    run.analysed = dict(getattr(run, "analysed", {}) or {})
    run.analysed["early_returns_before_validation"] = nv

    # ---- R6
    from ..families import one_shot_reuse_sites
    guard_funcs = {qual for qual, *_ in G}
    for f6, var, desc, node, why in one_shot_reuse_sites(program):
        if f6.qualname in guard_funcs or any(isinstance(x, ast.Raise) for x in ast.walk(f6.node)):
            run.finding(f"C14/iterator-reused:{f6.qualname}:{var}", f"{f6.qualname} binds `{var}` to {desc}, which {why}; the rejection it feeds fires for valid input (or not at all) from the second element on",
                        where=f6.loc(node), rule="R6")
    run.ob("C14/R6 validations consult re-iterable collections", "functions that raise", True, nontrivial=False)

    # ---- R5: a guard decides on the object's own state; if C01 shows that state is shared with (and mutated through)
    # another object, the invalid construction is accepted (or the valid one rejected) depending on what a sibling did
    from . import c01
    sub1 = Run("C01", run.tier)
    c01.check(program, sub1)
    guard_attrs = {}
    for qual, attrs, exc, protects, opt in G:
        cls_name = qual.split(".")[0]
        for a in attrs:
            guard_attrs.setdefault(a, []).append((cls_name, qual, exc))
    n5 = 0
    for a, users in sorted(guard_attrs.items()):
        hits = [fd for fd in sub1.findings if not fd.info and fd.key.startswith(("C01/shared-mutate:", "C01/deep-mutate:")) and fd.key.rsplit(":", 1)[1].split("[")[0].split("@")[0] == a
                and any(program.find_cls(fd.key.split(":")[1].split(".")[0]) is not None and (program.cls(fd.key.split(":")[1].split(".")[0]).qualname == u[0] or program.cls(u[0]).is_subclass_of(program.cls(fd.key.split(":")[1].split(".")[0])) or program.cls(fd.key.split(":")[1].split(".")[0]).is_subclass_of(program.cls(u[0]))) for u in users)]
        n5 += 1
        run.ob("C14/R5 (inherited from C01) state read by a guard is private to the object", a, not hits, detail=f"guards: {[u[1] for u in users][:3]}")
        for fd in hits:
            run.finding(f"C14/guard-state-shared:{users[0][1]}:{a}", f"the {users[0][2]} guard in {users[0][1]} decides on `{a}`, but that state is shared between an object and its copies: " + fd.what, where=fd.where, rule="R5 (inherited from C01)")

    # ---- R3: inherited obligations from C17
    from . import c17
    sub = Run("C17", run.tier)
    c17.check(program, sub)
    for fd in sub.findings:
        if fd.info:
            continue
        if fd.key.startswith(("C17/hash-wider-than-eq:Table", "C17/non-bool-eq-in-set", "C17/not-traversed")):
            run.finding("C14/inexact-set-arithmetic:" + fd.key.split("/", 1)[1], "join / RETURNING validation does set arithmetic over these objects: " + fd.what, where=fd.where, rule="R3 (inherited from C17)")
    for o in sub.obligations:
        if o.rule.startswith(("C17/R1", "C17/R2 objects", "C17/R3")):
            run.ob("C14/R3 " + o.rule[4:], o.subject, o.ok, o.detail, o.where)


def _manufactured_reads(program: Program, run: Run) -> None:
    """R4: Selectable.__getattr__ (and Schema/Database) turn any unknown attribute into a new object.  Reading an
    attribute that only *some* subclasses define from a value declared as the hook-bearing class therefore never fails
    where it should: for another subclass the read yields a Field, and the next operation (len(), a call) raises a
    TypeError -- a valid construction rejected with a non-library exception, or an invalid one not rejected properly.
    Declared classes come from parameter annotations and flow through `self.<attr>` stores (direct, element, tuple
    position) to loop variables."""
    byname = {}
    for c in program.all_classes():
        byname.setdefault(c.name, c)
    hooks = [c for c in program.all_classes() if "__getattr__" in c.methods and any(
        isinstance(n, ast.Return) and n.value is not None and not (isinstance(n.value, ast.Constant) and n.value.value is None)
        for n in ast.walk(c.methods["__getattr__"].node))]
    if not hooks:
        raise AnalysisError("anchor vanished: no value-manufacturing __getattr__ found")

    def ann_classes(a, K):
        out = set()
        if a is None:
            return out
        if isinstance(a, ast.Constant) and isinstance(a.value, str):
            try:
                a = ast.parse(a.value, mode="eval").body
            except SyntaxError:
                return out
        for n in ast.walk(a):
            nm = n.id if isinstance(n, ast.Name) else (n.attr if isinstance(n, ast.Attribute) else (n.value if isinstance(n, ast.Constant) and isinstance(n.value, str) else None))
            if nm == "Self":
                out.add(K)
            elif nm in byname:
                out.add(byname[nm])
        return out

    def defines(D, name):
        if D.resolve(name) is not None:
            return True
        for k in D.mro:
            if name in k.class_attrs or name in getattr(k, "class_annos", {}):
                return True
        return name in program.attr_kinds(D)

    def direct(e, ptypes, out, pos="direct"):
        if isinstance(e, ast.Name) and e.id in ptypes:
            out.setdefault(pos, set()).update(ptypes[e.id])
        elif isinstance(e, (ast.List, ast.Set)):
            for x in e.elts:
                direct(x.value if isinstance(x, ast.Starred) else x, ptypes, out, "elem" if pos == "direct" else pos)
        elif isinstance(e, ast.Tuple):
            for i, x in enumerate(e.elts):
                direct(x, ptypes, out, i if pos in ("direct", "elem") else pos)
        elif isinstance(e, ast.BinOp) and isinstance(e.op, ast.Add):
            direct(e.left, ptypes, out, pos)
            direct(e.right, ptypes, out, pos)
        elif isinstance(e, ast.IfExp):
            direct(e.body, ptypes, out, pos)
            direct(e.orelse, ptypes, out, pos)
        elif isinstance(e, ast.Call) and isinstance(e.func, ast.Name) and e.func.id in ("list", "tuple", "copy") and e.args:
            direct(e.args[0], ptypes, out, pos)

    nreads = 0
    seen = set()
    for K in program.all_classes():
        T: dict = {}
        for f in K.methods.values():
            if not f.params or f.is_static:
                continue
            selfn = f.params[0]
            a_ = f.node.args
            ptypes = {a.arg: ann_classes(a.annotation, K) for a in a_.posonlyargs + a_.args + a_.kwonlyargs}
            for n in ast.walk(f.node):
                if isinstance(n, (ast.Assign, ast.AnnAssign)) and n.value is not None:
                    for t in (n.targets if isinstance(n, ast.Assign) else [n.target]):
                        if isinstance(t, ast.Attribute) and isinstance(t.value, ast.Name) and t.value.id == selfn:
                            direct(n.value, ptypes, T.setdefault(t.attr, {}))
                if isinstance(n, ast.Call) and isinstance(n.func, ast.Attribute) and n.func.attr in ("append", "add") and n.args \
                        and isinstance(n.func.value, ast.Attribute) and isinstance(n.func.value.value, ast.Name) and n.func.value.value.id == selfn:
                    direct(n.args[0], ptypes, T.setdefault(n.func.value.attr, {}), "elem")
        for f in K.methods.values():
            if not f.params or f.is_static:
                continue
            selfn = f.params[0]
            a_ = f.node.args
            env = {}
            for a in a_.posonlyargs + a_.args + a_.kwonlyargs:
                cs = ann_classes(a.annotation, K)
                if cs and a.arg != selfn:
                    env[a.arg] = set(cs)

            def from_attr(e):
                if isinstance(e, ast.Attribute) and isinstance(e.value, ast.Name) and e.value.id == selfn:
                    return e.attr
                return None
            for n in ast.walk(f.node):
                it = tg = None
                if isinstance(n, ast.For):
                    it, tg = n.iter, n.target
                elif isinstance(n, ast.comprehension):
                    it, tg = n.iter, n.target
                if it is None:
                    continue
                a = from_attr(it)
                if a and a in T:
                    if isinstance(tg, ast.Tuple):
                        for i, x in enumerate(tg.elts):
                            if isinstance(x, ast.Name) and T[a].get(i):
                                env.setdefault(x.id, set()).update(T[a][i])
                    elif isinstance(tg, ast.Name) and T[a].get("elem"):
                        env.setdefault(tg.id, set()).update(T[a]["elem"])
            parents = {}
            for n in ast.walk(f.node):
                for ch in ast.iter_child_nodes(n):
                    parents[ch] = n
            for n in ast.walk(f.node):
                if not (isinstance(n, ast.Attribute) and isinstance(n.ctx, ast.Load)) or n.attr.startswith("__"):
                    continue
                var = Ds = None
                if isinstance(n.value, ast.Name) and n.value.id in env:
                    var, Ds = n.value.id, env[n.value.id]
                else:
                    a = from_attr(n.value)
                    if a and a in T:
                        var, Ds = f"self.{a}", T[a].get("direct")
                if not Ds:
                    continue
                Ds = {D for D in Ds if any(D is m or D.is_subclass_of(m) for m in hooks)}
                if not Ds:
                    continue
                nreads += 1
                narrowed = False
                x = n
                while x in parents and not narrowed:
                    par = parents[x]
                    tests = []
                    if isinstance(par, (ast.If, ast.IfExp, ast.While)) and x is not par.test:
                        tests.append(par.test)
                    if isinstance(par, ast.BoolOp) and isinstance(par.op, ast.And):
                        tests += [v for v in par.values if v is not x]
                    if isinstance(par, (ast.ListComp, ast.GeneratorExp, ast.SetComp, ast.DictComp)):
                        for g in par.generators:
                            tests += g.ifs
                    for t in tests:
                        for c in ast.walk(t):
                            if isinstance(c, ast.Call) and isinstance(c.func, ast.Name) and c.func.id == "isinstance" and c.args and ast.unparse(c.args[0]) == ast.unparse(n.value):
                                narrowed = True
                        # a flag kept as a type witness of the attribute (`self.item = v; self.flag = self.flag and
                        # isinstance(v, (K1, K2))`): under `self.flag` the attribute holds a K1/K2, which define the name
                        a_self = from_attr(n.value)
                        if a_self and f.cls is not None and not narrowed:
                            for c in ([t] + (list(t.values) if isinstance(t, ast.BoolOp) and isinstance(t.op, ast.And) else [])):
                                fl = from_attr(c)
                                if fl and _type_witness_flag(program, f.cls, fl, a_self, n.attr, selfn, defines):
                                    narrowed = True
                    x = par
                for D in sorted(Ds, key=lambda d: d.qualname):
                    ok = narrowed or defines(D, n.attr)
                    key = (f.qualname, var, n.attr, D.qualname)
                    if key in seen:
                        continue
                    seen.add(key)
                    run.ob("C14/R4 attribute read resolves on the declared class of the value", f"{f.qualname}:{var}.{n.attr}@{D.qualname}", ok, where=f.loc(n))
                    if not ok:
                        lacking = sorted(s_.qualname for s_ in [D] + D.all_subclasses() if not defines(s_, n.attr))[:5]
                        run.finding(f"C14/manufactured-attr:{f.qualname}:{var}.{n.attr}",
                                    f"{f.qualname} reads `{ast.unparse(n)}` from a value declared as {D.qualname}, whose __getattr__ manufactures a Field for unknown names; "
                                    f"{', '.join(lacking)} do not define `{n.attr}`, so such an operand yields a Field here and the following operation fails with a TypeError instead of producing SQL or a library exception",
                                    where=f.loc(n), rule="R4", excerpt=f.module.excerpt(n.lineno, 1))
    run.analysed["hooked_class_attribute_reads"] = nreads
    if nreads < 15:
        raise AnalysisError(f"instance count below floor: attribute reads on hook-bearing declared classes {nreads}")
