"""C13 -- statements are well-formed and independent of the order of commuting calls (DESIGN 2/C13)."""
from __future__ import annotations

import ast
import re

from ..families import api_name
from ..model import AnalysisError, ClassInfo, FuncInfo, Program
from ..report import Run
from ..skel import BUILDER_CLASSES, kind_states, recv_path, render, renderable_classes, root_attr, skeletons
from ..symex import (Alt, CondI, Const, CtxV, Hole, JoinP, ListV, Lit, One, Opaque, Phi, Rep, RepI, SlotP, Str, Sym, negate,
                     show, walk_parts)
from .c09 import dialect_of
from .c12 import peel

LOCK_FORMS = ["FOR NO KEY UPDATE"]     # another strength of the FOR UPDATE clause (FOR SHARE / FOR KEY SHARE are clauses of their own, a statement may carry both, and they are not in the reference table)
TOKENS = LOCK_FORMS + ["ON DUPLICATE KEY UPDATE", "DO UPDATE SET", "DO NOTHING", "ON CONFLICT", "INSERT IGNORE INTO", "INSERT INTO", "REPLACE INTO",
          "WITH ROLLUP", "WITH TOTALS", "WITH RECURSIVE", "WITH TIES", "WITH", "SELECT", "DISTINCT ON", "DISTINCT", "TOP", "INTO", "FROM", "FORCE INDEX", "USE INDEX",
          "PREWHERE", "WHERE", "GROUP BY", "HAVING", "ORDER BY", "LIMIT", "OFFSET", "FETCH NEXT", "FOR UPDATE", "RETURNING", "UPDATE", "SET",
          "DELETE", "VALUES", "INSERT", "REPLACE"]
TOK_RE = re.compile(r"(?<![A-Za-z_])(" + "|".join(re.escape(t) for t in TOKENS) + r")(?![A-Za-z_])")

TAIL = ["FROM", "FORCE INDEX", "USE INDEX", "JOIN", "PREWHERE", "WHERE", "GROUP BY", "GROUP MODIFIER", "HAVING", "ORDER BY", "PAGINATION",
        "FOR UPDATE", "ON CONFLICT", "CONFLICT WHERE", "DO NOTHING", "DO UPDATE SET", "ACTION WHERE", "ON DUPLICATE KEY UPDATE", "RETURNING"]
SELECT_HEAD = ["WITH", "SELECT", "DISTINCT", "DISTINCT ON", "TOP", "INTO"]
REF = {
    "SELECT": SELECT_HEAD + TAIL,
    "SELECT_INTO": SELECT_HEAD + TAIL,
    "INSERT_SELECT": ["WITH", "INSERT INTO", "REPLACE INTO"] + SELECT_HEAD[1:] + TAIL,
    "INSERT_VALUES": ["WITH", "INSERT INTO", "REPLACE INTO", "VALUES", "ON CONFLICT", "CONFLICT WHERE", "DO NOTHING", "DO UPDATE SET", "ACTION WHERE", "ON DUPLICATE KEY UPDATE", "RETURNING"],
    "REPLACE": ["WITH", "INSERT INTO", "REPLACE INTO", "VALUES", "ON CONFLICT", "CONFLICT WHERE", "DO NOTHING", "DO UPDATE SET", "ACTION WHERE", "ON DUPLICATE KEY UPDATE", "RETURNING"],
    "UPDATE": ["WITH", "UPDATE", "JOIN", "SET", "FROM", "WHERE", "ORDER BY", "PAGINATION", "RETURNING"],
    "UPDATE_PG": ["WITH", "UPDATE", "SET", "FROM", "JOIN", "WHERE", "ORDER BY", "PAGINATION", "RETURNING"],
    # SQLite's update-stmt-limited: ... WHERE expr [returning-clause] [ORDER BY ...] [LIMIT ...]
    "UPDATE_SQLITE": ["WITH", "UPDATE", "SET", "FROM", "JOIN", "WHERE", "RETURNING", "ORDER BY", "PAGINATION"],
    "DELETE": ["DELETE"] + TAIL,
}
PAGINATION = {"LIMIT", "OFFSET", "FETCH NEXT"}


def tokens_of(v):
    """clause tokens in textual order with their path conditions: [(token, conds)]"""
    out = []
    state = {"after": None}
    hist: list = []
    for part, conds, in_rep in walk_parts(v):
        if isinstance(part, Lit):
            text = part.text.replace("ORDER BY (SELECT 0)", "ORDER BY (#SYNTHETIC#)")
            for m in TOK_RE.finditer(text):
                t = m.group(1)
                if t in ("INSERT IGNORE INTO", "INSERT"):
                    t = "INSERT INTO"
                    state["after"] = "INSERT"
                elif t == "REPLACE":
                    t = "REPLACE INTO"
                    state["after"] = "INSERT"
                elif t == "INTO" and state["after"] == "INSERT":
                    state["after"] = None
                    continue
                if t in LOCK_FORMS:
                    t = "FOR UPDATE"       # one clause (the locking clause) whatever lock strength it asks for
                if t == "WITH TIES":
                    continue        # T-SQL: a modifier of TOP (SELECT TOP (n) WITH TIES ...), not a clause of its own
                if t in ("WITH ROLLUP", "WITH TOTALS"):
                    t = "GROUP MODIFIER"
                if t == "WITH RECURSIVE":
                    t = "WITH"
                if t == "WHERE":
                    # which clause the WHERE belongs to: the latest ON CONFLICT / DO UPDATE SET on a path compatible
                    # with this one (the same text may stand in two alternatives of the skeleton)
                    after = next((t0 for t0, cs0 in reversed(hist) if not contradictory(cs0, conds)), None)
                    if after == "ON CONFLICT":
                        t = "CONFLICT WHERE"
                    elif after == "DO UPDATE SET":
                        t = "ACTION WHERE"
                if t in ("ON CONFLICT", "DO UPDATE SET"):
                    hist.append((t, conds))
                if t == "ORDER BY" and text[m.end():].lstrip().startswith("(#SYNTHETIC#)"):
                    t = "PAGINATION-ORDER"   # synthetic ORDER BY of SQL Server pagination
                out.append((t, conds, part))
        elif isinstance(part, SlotP) and part.method == "get_sql" and root_attr(recv_path(part.recv)) == "_joins":
            out.append(("JOIN", conds, part))
    return out


def contradictory(c1, c2) -> bool:
    s1 = {show(x, -20) for x in c1}
    for x in c2:
        if show(negate(x), -20) in s1:
            return True
    return False


def balance(v):
    """net bracket balance as (const, {cond_text: delta}) ; quotes counted separately"""
    def add(a, b):
        d = dict(a[1])
        for k, x in b[1].items():
            d[k] = d.get(k, 0) + x
        return (a[0] + b[0], d)

    def rec(x):
        if isinstance(x, Str):
            r = (0, {})
            for p in x.parts:
                r = add(r, rec(p))
            return r
        if isinstance(x, Lit):
            t = x.text
            return (t.count("(") - t.count(")") + t.count("[") - t.count("]"), {})
        if isinstance(x, (Alt, Phi)):
            a, b = rec(x.a), rec(x.b)
            k = show(x.cond, -20)
            d = dict(b[1])
            diff = a[0] - b[0]
            if diff:
                nk = show(negate(x.cond), -20)
                if nk in d or (k.startswith("not ") and k[4:] in d):
                    base = nk if nk in d else k[4:]
                    d[base] = d.get(base, 0) - diff
                    return (b[0] + diff, d)
                d[k] = d.get(k, 0) + diff
            for kk, xx in a[1].items():
                if kk not in b[1]:
                    d[kk] = d.get(kk, 0) + xx
            return (b[0], d)
        if isinstance(x, Rep):
            return add(rec(x.body), rec(x.sep)) if (rec(x.body)[0] + rec(x.sep)[0]) == 0 else (99, {})
        if isinstance(x, JoinP):
            r = (0, {})
            for i in x.items:
                r = add(r, rec(i))
            return r
        if isinstance(x, One):
            return rec(x.value)
        if isinstance(x, (RepI,)):
            r = (0, {})
            for i in x.body:
                r = add(r, rec(i))
            return r
        if isinstance(x, CondI):
            r = (0, {})
            for i in x.items:
                r = add(r, rec(i))
            return r
        if isinstance(x, Opaque):
            if x.name == "slice" :
                return (0, {})
            r = (0, {})
            for i in x.inner:
                r = add(r, rec(i))
            return r
        if isinstance(x, Const) and isinstance(x.value, str):
            t = x.value
            return (t.count("(") - t.count(")") + t.count("[") - t.count("]"), {})
        return (0, {})
    return rec(v)


def check(program: Program, run: Run) -> None:
    run.explanation = (
        "Statement skeletons (symbolic evaluation of get_sql of the six builder classes, with the statement-kind predicates "
        "enumerated concretely and every clause-presence test left symbolic) are checked for clause keywords occurring at most "
        "once on any consistent path and in the dialect's reference order (R1); every renderer's own literal brackets balance "
        "on every path, condition-aware (R2); incomplete builders fold to the empty string in every copy of the guards (R3); "
        "cross-clause call-time couplings of builder methods (a builder reading another clause's state while writing its own) "
        "are extracted from the syntax tree and compared with a reviewed table (R4). SQLite parser acceptance is not decided.")
    run.rule("R1 each clause keyword at most once on any consistent path; keyword sequence is a subsequence of the reference order for (class, kind)")
    run.rule("R2 literal ( ) [ ] opened by a renderer are closed by it on every path")
    run.rule("R3 no-kind / INSERT without rows or select / UPDATE without SET render '' in every builder class; DDL/LOAD builders likewise")
    run.rule("R4 every (builder method, foreign clause attribute read, attribute written) triple is in the reviewed table")
    run.rule("R6 two different builder methods never plainly overwrite the same attribute with different values (last-call-wins), except reviewed same-clause setters")
    run.rule("R5 a repeatable (accumulating) builder writes every attribute monotonically: constant, accumulate, or derived from its own old value")
    run.exhaustive = True
    kinds = kind_states(program)
    n_cells = 0
    for bn in BUILDER_CLASSES:
        bc = program.cls(bn)
        dialect = dialect_of(program, bc) if bn != "QueryBuilder" else "generic"
        for kind, attrs in kinds.items():
            sk, _ = render(program, bc, attrs=dict(attrs), ctx=CtxV.incoming(False))
            sk = peel(sk)
            toks = tokens_of(sk)
            n_cells += 1
            cell = f"{bn}:{kind}"
            # at most once
            dup = []
            for i in range(len(toks)):
                for j in range(i + 1, len(toks)):
                    if toks[i][0] == toks[j][0] and toks[i][0] not in ("JOIN", "GROUP MODIFIER") and not contradictory(toks[i][1], toks[j][1]):
                        dup.append(toks[i][0])
            run.ob("C13/R1 clause keywords occur at most once on any path", cell, not dup, detail=",".join(sorted(set(dup))))
            for t in sorted(set(dup)):
                run.finding(f"C13/clause-twice:{bn}:{kind}:{t}", f"{bn} can emit the clause keyword {t} twice in one {kind} statement (two occurrences with compatible conditions)", rule="R1")
            # order
            refname = "UPDATE_PG" if kind == "UPDATE" and dialect in ("POSTGRESQL", "SQLITE") and bn in ("PostgreSQLQueryBuilder", "SQLLiteQueryBuilder") else kind
            if refname == "UPDATE_PG" and dialect == "SQLITE":
                refname = "UPDATE_SQLITE"
            ref = REF[refname]
            rank = {t: i for i, t in enumerate(ref)}
            bad = []
            unknown = []
            for i in range(len(toks)):
                ti = "PAGINATION" if toks[i][0] in PAGINATION or toks[i][0] == "PAGINATION-ORDER" else toks[i][0]
                if ti not in rank:
                    unknown.append(ti)
                    continue
                for j in range(i + 1, len(toks)):
                    tj = "PAGINATION" if toks[j][0] in PAGINATION or toks[j][0] == "PAGINATION-ORDER" else toks[j][0]
                    if tj in rank and rank[tj] < rank[ti] and not contradictory(toks[i][1], toks[j][1]):
                        bad.append((ti, tj))
            run.ob("C13/R1 clause sequence follows the reference order", cell, not bad and not unknown,
                   detail=f"sequence={[t for t, _, _ in toks]} bad={bad[:4]} unknown={unknown[:4]}")
            for ti, tj in sorted(set(bad)):
                run.finding(f"C13/clause-order:{bn}:{kind}:{ti}>{tj}", f"{bn} emits {ti} before {tj} in a {kind} statement; the {dialect} grammar has {tj} first", rule="R1")
            for t in sorted(set(unknown)):
                run.finding(f"C13/clause-unknown:{bn}:{kind}:{t}", f"{bn} emits the clause keyword {t} in a {kind} statement, which the reference grammar of that statement kind does not contain", rule="R1")
    run.analysed = {"class_x_kind_skeletons": n_cells}
    if n_cells < 42:
        raise AnalysisError(f"instance count below floor: skeletons {n_cells}")

    # ---- R2
    nb = 0
    for c, (skv, ev) in skeletons(program).items():
        const, deltas = balance(peel(skv))
        bad = const != 0 or any(v != 0 for v in deltas.values())
        nb += 1
        run.ob("C13/R2 literal brackets balance on every path", c.qualname, not bad, detail=f"net={const} conditional={ {k[:40]: v for k, v in deltas.items() if v} }")
        if bad:
            f = c.resolve("get_sql")
            run.finding(f"C13/unbalanced:{f.qualname}", f"{f.qualname} ({c.qualname}) opens and closes literal brackets unevenly on some path (net {const}, conditional {[k[:30] for k, v in deltas.items() if v]})", where=f.loc(), rule="R2")
    run.analysed["renderers_balanced"] = nb

    # ---- R3
    empty = ListV((), "list")
    incomplete = {
        "no statement kind": {"_selects": empty, "_insert_table": Const(None), "_delete_from": Const(False), "_update_table": Const(None)},
        "INSERT without rows or select": {"_selects": empty, "_values": empty, "_insert_table": Sym("nonempty", ("t",)), "_delete_from": Const(False), "_update_table": Const(None)},
        "UPDATE without SET": {"_selects": empty, "_insert_table": Const(None), "_delete_from": Const(False), "_update_table": Sym("nonempty", ("t",)), "_updates": empty},
    }
    for bn in BUILDER_CLASSES:
        bc = program.cls(bn)
        for name, attrs in incomplete.items():
            for mn in (True, False):
                v, _ = render(program, bc, attrs=dict(attrs), ctx=CtxV.incoming(mn))
                txt = v.value if isinstance(v, Const) else show(v)
                ok = txt in ("", "''")
                run.ob("C13/R3 incomplete builder renders the empty string", f"{bn}:{name}:ctx={'optional' if mn else 'given'}", ok, detail=str(txt)[:80])
                if not ok:
                    run.finding(f"C13/fragment:{bn}:{name}", f"{bn} renders {str(txt)[:60]!r} instead of '' for an incomplete builder ({name})", rule="R3")
    ddl = [("CreateQueryBuilder", {"_create_table": Const(None)}, "no table"),
           ("CreateQueryBuilder", {"_create_table": Sym("nonempty", ("t",)), "_columns": empty, "_as_select": Const(None)}, "no columns and no select"),
           ("DropQueryBuilder", {"_drop_table": Const(None)}, "no table"),
           ("MySQLLoadQueryBuilder", {"_load_file": Const(None)}, "no file"),
           ("MySQLLoadQueryBuilder", {"_into_table": Const(None)}, "no table")]
    for cn, attrs, name in ddl:
        c = program.cls(cn)
        v, _ = render(program, c, attrs=attrs)
        txt = v.value if isinstance(v, Const) else show(v)
        ok = txt in ("", "''")
        run.ob("C13/R3 incomplete builder renders the empty string", f"{cn}:{name}", ok, detail=str(txt)[:80])
        if not ok:
            run.finding(f"C13/fragment:{cn}:{name}", f"{cn} renders {str(txt)[:60]!r} instead of '' ({name})", rule="R3")

    _couplings(program, run)
    _accumulation(program, run)
    # an embedded statement that loses its parentheses puts its clauses at the top level of the outer statement a second time
    from . import c10
    sub = Run("C10", run.tier)
    c10.check(program, sub)
    for o in sub.obligations:
        if o.rule.startswith("C10/R2"):
            run.ob("C13 (inherited from C10/R2) an embedded statement is wrapped exactly once", o.subject, o.ok, o.detail, o.where)
    for fd in sub.findings:
        if not fd.info and fd.key.startswith("C10/tail-wrap:"):
            run.finding("C13/embedded-unwrapped:" + fd.key.split(":", 1)[1], "a nested statement of this class is not parenthesised, so SELECT/FROM/WHERE appear twice at the top level of the outer statement: " + fd.what,
                        where=fd.where, rule="inherited from C10/R2")


# ----------------------------------------------------------------------------- R4
# reviewed coupling triples: (method, read, written) -> (verdict, reason)
BENIGN = {
    ("select", "_from", "_selects"): "first FROM table is attached to a *string* column name only",
    ("groupby", "_from", "_groupbys"): "first FROM table is attached to a string/int group key only",
    ("orderby", "_from", "_orderbys"): "first FROM table is attached to a string order key only",
    ("columns", "_insert_table", "_columns"): "insert table attached to a string column name only (and one-shot guard)",
    ("on_conflict", "_insert_table", "_on_conflict_fields"): "insert table attached to a string conflict target only",
    ("do_update", "_insert_table", "_on_conflict_do_updates"): "insert table attached to a string update target only",
    ("from_", "_subquery_count", "_from"): "automatic sqN alias numbering of un-aliased subqueries (documented side effect)",
    ("join", "_subquery_count", "_joins"): "automatic sqN alias numbering",
    ("select", "_select_star", "_selects"): "same clause: terms after a star are dropped (documented)",
    ("select", "_select_star_tables", "_selects"): "same clause: terms of a starred table are dropped (documented)",
    ("replace_table", "*", "*"): "rewrites every clause by definition",
    ("returning", "_return_star", "_returns"): "same clause: terms after a star are dropped",
    ("returning", "_from", "_return_star"): "same clause (RETURNING list bookkeeping); the table comes from the statement's own target",
    ("select", "_from", "_select_star_tables"): "string column names get the first FROM table; only Star terms (never built from a string here) enter the set",
    ("select", "_select_star", "_select_star_tables"): "same clause (select-list star bookkeeping)",
    ("select", "_select_star_tables", "_select_star"): "same clause (select-list star bookkeeping)",
    ("select", "_selects", "_select_star_tables"): "same clause (select-list star bookkeeping)",
}
ORDER_SENSITIVE = {
    ("into", "_selects", "_select_into"): "into() before/after select() gives INSERT...SELECT vs SELECT...INTO",
    ("where", "_from", "_foreign_table"): "whether a criterion's table counts as foreign depends on whether from_()/join() ran before where()",
    ("where", "_joins", "_foreign_table"): "same: joins attached after where() are not considered",
    ("where", "_update_table", "_foreign_table"): "same for the update table",
    ("prewhere", "_from", "_foreign_table"): "same as where()",
    ("prewhere", "_joins", "_foreign_table"): "same as where()",
    ("prewhere", "_update_table", "_foreign_table"): "same as where()",
    ("where", "_on_conflict", "_foreign_table"): "the foreign-table flag is only computed when where() is not routed to the conflict clause",
    ("where", "_on_conflict", "_wheres"): "where() is routed to the ON CONFLICT / DO UPDATE WHERE instead of the statement WHERE once on_conflict() was called",
    ("where", "_on_conflict", "_on_conflict_wheres"): "routing of where() after on_conflict()",
    ("where", "_on_conflict", "_on_conflict_do_update_wheres"): "routing of where() after on_conflict()",
    ("where", "_on_conflict_fields", "_on_conflict_wheres"): "routing of where() depends on conflict fields set so far",
    ("where", "_on_conflict_fields", "_on_conflict_do_update_wheres"): "routing of where() depends on conflict fields set so far",
    ("where", "_on_conflict_do_updates", "_on_conflict_do_update_wheres"): "routing of where() depends on do_update() calls so far",
    ("where", "_on_conflict_do_updates", "_on_conflict_wheres"): "routing of where() depends on do_update() calls so far",
    ("join", "_from", "_joins"): "join validation and self-join aliasing look at the FROM list at call time",
    ("join", "_update_table", "_joins"): "join validation looks at the update table at call time",
    ("join", "_with", "_joins"): "join validation looks at the declared CTEs at call time",
    ("rollup", "_groupbys", "_groupbys"): "same clause",
    ("returning", "_insert_table", "_returns"): "RETURNING str term is attached to the table known at call time",
    ("returning", "_update_table", "_returns"): "RETURNING str term is attached to the table known at call time",
    ("returning", "_delete_from", "_returns"): "RETURNING str term is attached to the table known at call time",
    ("returning", "_from", "_returns"): "RETURNING validation/attachment looks at FROM at call time",
    ("returning", "_joins", "_returns"): "RETURNING validation looks at joins at call time",
}


def _attrs_in(e, selfn, local_deps) -> set:
    out = set()
    for n in ast.walk(e):
        if isinstance(n, ast.Attribute) and isinstance(n.value, ast.Name) and n.value.id == selfn and isinstance(n.ctx, ast.Load):
            out.add(n.attr)
        elif isinstance(n, ast.Name) and n.id in local_deps:
            out |= local_deps[n.id]
    return out


class _Dep:
    """dependence pairs (attribute read -> attribute written) of one builder closure, syntax-directed"""

    def __init__(self, program: Program, recv: ClassInfo):
        self.p, self.recv = program, recv
        self.pairs: set = set()
        self.memo: dict = {}
        self.forms: dict = {}      # attr -> set of write forms
        self.consts: dict = {}     # attr -> set of constants assigned
        self.form_sites: dict = {}

    def func(self, f: FuncInfo, ctrl: frozenset, arg_deps: frozenset, depth: int = 0):
        """returns (writes, return_deps)"""
        if depth > 6 or not f.params or f.is_static:
            return set(), set()
        selfn = f.params[0]
        local = {prm: set(arg_deps) for prm in f.params[1:] + f.kwonly + ([f.vararg] if f.vararg else []) + ([f.kwarg] if f.kwarg else [])}
        st = {"writes": set(), "ret": set()}

        def call_deps(e, ctrl_now):
            """self.helper(...) calls inside an expression: returns deps of the call results"""
            deps = set()
            for n in ast.walk(e):
                if isinstance(n, ast.Call) and isinstance(n.func, ast.Attribute) and isinstance(n.func.value, ast.Name) and n.func.value.id == selfn:
                    tgt = self.recv.resolve(n.func.attr)
                    if tgt is not None and not tgt.is_builder and tgt.cls is not None:
                        ad = set()
                        for a in list(n.args) + [k.value for k in n.keywords]:
                            ad |= _attrs_in(a, selfn, local)
                        w, r = self.func(tgt, frozenset(ctrl_now), frozenset(ad), depth + 1)
                        st["writes"] |= w
                        deps |= r
                elif (isinstance(n, ast.Call) and isinstance(n.func, ast.Attribute) and isinstance(n.func.value, ast.Call)
                      and isinstance(n.func.value.func, ast.Name) and n.func.value.func.id == "super" and f.cls is not None):
                    # super().helper(...): the next definition after this one in the receiver's MRO
                    tgt = self.recv.resolve_after(f.cls, n.func.attr)
                    if tgt is not None and not tgt.is_builder and tgt.cls is not None:
                        ad = set()
                        for a in list(n.args) + [k.value for k in n.keywords]:
                            ad |= _attrs_in(a, selfn, local)
                        w, r = self.func(tgt, frozenset(ctrl_now), frozenset(ad), depth + 1)
                        st["writes"] |= w
                        deps |= r
            return deps

        def write(attr, deps, ctrl_now, form="overwrite", node=None):
            st["writes"].add(attr)
            for r in set(deps) | set(ctrl_now):
                self.pairs.add((r, attr))
            if form == "overwrite":
                if attr in deps:
                    form = "reads-self"
                elif attr in ctrl_now:
                    form = "init"
            self.forms.setdefault(attr, set()).add(form)
            if form == "const" and node is not None and isinstance(getattr(node, "value", None), ast.Constant):
                self.consts.setdefault(attr, set()).add(repr(node.value.value))
            if form == "overwrite" and node is not None:
                self.form_sites.setdefault(attr, (f, node))

        def block(stmts, ctrl_now):
            ctrl_now = set(ctrl_now)
            for s in stmts:
                if isinstance(s, ast.If):
                    tdeps = _attrs_in(s.test, selfn, local) | call_deps(s.test, ctrl_now)
                    only_raise = s.body and all(isinstance(x, ast.Raise) for x in s.body) and not s.orelse
                    if only_raise:
                        continue   # one-shot / validity guard (C14)
                    block(s.body, ctrl_now | tdeps)
                    block(s.orelse, ctrl_now | tdeps)
                    # an early return/raise makes the rest control dependent on the test
                    if any(isinstance(x, (ast.Return,)) for x in ast.walk(ast.Module(body=s.body, type_ignores=[]))) or \
                            any(isinstance(x, (ast.Return,)) for x in ast.walk(ast.Module(body=s.orelse, type_ignores=[]))):
                        ctrl_now |= tdeps
                elif isinstance(s, (ast.For, ast.While)):
                    it = s.iter if isinstance(s, ast.For) else s.test
                    ideps = _attrs_in(it, selfn, local) | call_deps(it, ctrl_now)
                    if isinstance(s, ast.For):
                        for t in ast.walk(s.target):
                            if isinstance(t, ast.Name):
                                local[t.id] = set(ideps)
                    block(s.body, ctrl_now | ideps)
                    block(s.orelse, ctrl_now)
                elif isinstance(s, ast.Try):
                    block(s.body, ctrl_now)
                    for h in s.handlers:
                        block(h.body, ctrl_now)
                    block(s.orelse, ctrl_now)
                    block(s.finalbody, ctrl_now)
                elif isinstance(s, (ast.Assign, ast.AnnAssign, ast.AugAssign)):
                    value = s.value
                    if value is None:
                        continue
                    deps = _attrs_in(value, selfn, local) | call_deps(value, ctrl_now)
                    targets = s.targets if isinstance(s, ast.Assign) else [s.target]
                    for t in targets:
                        for x in ([t] if not isinstance(t, (ast.Tuple, ast.List)) else t.elts):
                            if isinstance(x, ast.Name):
                                local[x.id] = set(deps) | (local.get(x.id, set()) if isinstance(s, ast.AugAssign) else set())
                            elif isinstance(x, ast.Attribute) and isinstance(x.value, ast.Name) and x.value.id == selfn:
                                d = set(deps)
                                if isinstance(s, ast.AugAssign):
                                    d.add(x.attr)
                                form = "aug" if isinstance(s, ast.AugAssign) else ("const" if isinstance(value, ast.Constant) else "overwrite")
                                write(x.attr, d, ctrl_now, form, s)
                            elif isinstance(x, ast.Subscript):
                                b = x.value
                                while isinstance(b, (ast.Subscript, ast.Attribute)) and not (isinstance(b, ast.Attribute) and isinstance(b.value, ast.Name) and b.value.id == selfn):
                                    b = b.value
                                if isinstance(b, ast.Attribute):
                                    write(b.attr, deps | {b.attr}, ctrl_now, "mutate")
                            elif isinstance(x, ast.Attribute):
                                b = x.value
                                while isinstance(b, (ast.Subscript, ast.Attribute)) and not (isinstance(b, ast.Attribute) and isinstance(b.value, ast.Name) and b.value.id == selfn):
                                    b = b.value
                                if isinstance(b, ast.Attribute) and isinstance(b.value, ast.Name) and b.value.id == selfn:
                                    write(b.attr, deps | {b.attr}, ctrl_now, "mutate")
                elif isinstance(s, ast.Expr):
                    e = s.value
                    deps = _attrs_in(e, selfn, local) | call_deps(e, ctrl_now)
                    if isinstance(e, ast.Call) and isinstance(e.func, ast.Attribute) and e.func.attr in (
                            "append", "extend", "add", "remove", "insert", "pop", "clear", "update", "discard"):
                        v = e.func.value
                        if isinstance(v, ast.Attribute) and isinstance(v.value, ast.Name) and v.value.id == selfn:
                            ad = set()
                            for a in e.args:
                                ad |= _attrs_in(a, selfn, local) | call_deps(a, ctrl_now)
                            write(v.attr, ad, ctrl_now, "mutate")
                        elif isinstance(v, ast.Name) and v.id != selfn:
                            # a local list filled step by step (`sources.append(...)` in a loop over self._from) depends on
                            # what is appended and on the conditions under which it is
                            ad = set(ctrl_now)
                            for a in e.args:
                                ad |= _attrs_in(a, selfn, local) | call_deps(a, ctrl_now)
                            local[v.id] = local.get(v.id, set()) | ad
                elif isinstance(s, ast.Return):
                    if s.value is not None:
                        st["ret"] |= _attrs_in(s.value, selfn, local) | call_deps(s.value, ctrl_now) | ctrl_now
                    else:
                        st["ret"] |= ctrl_now
        block(f.node.body, ctrl)
        return st["writes"], st["ret"]


def _reads_writes(program: Program, f: FuncInfo, recv: ClassInfo):
    d = _Dep(program, recv)
    writes, _ = d.func(f, frozenset(), frozenset())
    return d.pairs, writes


# writes that replace earlier state by documented design (one reason each)
OVERWRITE_OK = {
    ("select", "_selects"): "select('*') replaces the select list by a star (documented: terms after a star are dropped)",
}


# pairs of builder methods that set the *same* clause (last call wins by design); one reason each
SAME_CLAUSE_SETTERS = {
    ("_limit", frozenset(("limit", "slice"))): "q[a:b] is shorthand for offset(a).limit(b-a): same LIMIT clause",
    ("_limit", frozenset(("limit", "fetch_next"))): "fetch_next is MSSQL's spelling of limit: same clause",
    ("_limit", frozenset(("slice", "fetch_next"))): "fetch_next is MSSQL's spelling of limit: same clause",
    ("_offset", frozenset(("offset", "slice"))): "q[a:b] is shorthand for offset(a).limit(b-a): same OFFSET clause",
    ("_replace", frozenset(("insert", "replace"))): "insert()/replace() choose the verb of one INSERT clause (same clause, last verb wins)",
    ("frame", frozenset(("rows", "range"))): "rows()/range() set the one window frame; a second call raises (C14 guard table)",
    ("bound", frozenset(("rows", "range"))): "rows()/range() set the one window frame; a second call raises (C14 guard table)",
}


def _accumulation(program: Program, run: Run) -> None:
    """R5: a builder method that accumulates into its clause (append / &= / x = x + ...) is called repeatedly by design;
    every other attribute it writes must be written monotonically (constant, or derived from its own old value) -- an
    overwrite computed from the latest argument alone silently discards what earlier calls recorded."""
    n = 0
    seen = set()
    for cn in BUILDER_CLASSES:
        c = program.cls(cn)
        names = []
        for k in c.mro:
            for nm, f in k.methods.items():
                if f.is_builder and nm not in names:
                    names.append(nm)
        for nm in names:
            f = c.resolve(nm)
            nm = api_name(c, f)
            d = _Dep(program, c)
            d.func(f, frozenset(), frozenset())
            if nm == "join":
                dj = c.resolve("do_join")
                if dj is not None:
                    d.func(dj, frozenset(), frozenset())
            acc = {a for a, fs in d.forms.items() if fs & {"mutate", "aug", "reads-self", "init"}}
            if not acc:
                continue
            for a, fs in sorted(d.forms.items()):
                if (nm, a) in seen:
                    continue
                seen.add((nm, a))
                n += 1
                bad = "overwrite" in fs and (nm, a) not in OVERWRITE_OK
                site = d.form_sites.get(a)
                run.ob("C13/R5 state written by a repeatable (accumulating) builder is written monotonically", f"{nm}:{a}", not bad,
                       detail=",".join(sorted(fs)), where=site[0].loc(site[1]) if site else f.loc())
                if bad:
                    run.finding(f"C13/overwrite-in-accumulating:{nm}:{a}",
                                f"{nm}() accumulates into {sorted(acc - {a})[:3]} (it is meant to be called repeatedly) but assigns {a} from the latest call alone: "
                                f"what an earlier {nm}() call recorded in {a} is discarded, so repeated calls do not accumulate and the call order matters",
                                where=site[0].loc(site[1]) if site else f.loc(), rule="R5")
    run.analysed["accumulating_writes"] = n

    # R6: two different builder methods of one class that plainly overwrite the same attribute do not commute (the last
    # call wins) unless both write the same constant.  Pairs that set the *same* clause are the documented last-wins
    # setters and are listed with their reason.
    seen6 = set()
    npairs = 0
    for c in program.all_classes():
        names = []
        for k in c.mro:
            for nm, f in k.methods.items():
                if f.is_builder and nm not in names:
                    names.append(nm)
        if len(names) < 2:
            continue
        writers: dict = {}
        for nm in names:
            f = c.resolve(nm)
            nm = api_name(c, f)
            d = _Dep(program, c)
            d.func(f, frozenset(), frozenset())
            # what else the method does: a method that accumulates into a clause, or fills a clause from what it is
            # given, *addresses* that clause; a constant it stores elsewhere at the same time is a side effect
            accum = {a2 for a2, fs2 in d.forms.items() if fs2 & {"mutate", "aug", "reads-self"}}
            computed = {a2 for a2, fs2 in d.forms.items() if "overwrite" in fs2}
            for a, fs in d.forms.items():
                if fs & {"overwrite", "const"} and not fs & {"mutate", "aug", "reads-self", "init"}:
                    is_const = fs == {"const"}
                    side = bool(accum - {a}) or (is_const and bool(computed - {a}))
                    writers.setdefault(a, {})[nm] = (f, frozenset(d.consts.get(a, ())) if is_const else None, d.form_sites.get(a), side)
        for a, ws in sorted(writers.items()):
            ms = sorted(ws)
            for i, m1 in enumerate(ms):
                for m2 in ms[i + 1:]:
                    f1, c1, _, side1 = ws[m1]
                    f2, c2, _, side2 = ws[m2]
                    key = (f1.qualname, f2.qualname, a)
                    if key in seen6:
                        continue
                    seen6.add(key)
                    npairs += 1
                    same_const = c1 is not None and c1 == c2 and len(c1) == 1
                    reviewed = SAME_CLAUSE_SETTERS.get((a, frozenset((m1, m2))))
                    # structural reading of "address the same clause": both methods fill the attribute from what they are
                    # given and neither does so as a side effect of addressing another clause (limit / slice / a new
                    # paginate()); or one of them is a pure reset (stores nothing but the empty constants) of that clause
                    EMPTY = {"None", "False", "0", "''", "[]", "()"}
                    same_clause = (not side1 and not side2) and (
                        (c1 is None and c2 is None)
                        or (c1 is not None and c2 is None and c1 <= EMPTY)
                        or (c2 is not None and c1 is None and c2 <= EMPTY))
                    if reviewed is None and same_clause:
                        reviewed = "both calls set this clause from their arguments (or one resets it): the same clause, last call wins by design"
                    ok = same_const or reviewed is not None
                    run.ob("C13/R6 two builder methods overwriting one attribute write the same constant or set the same clause", f"{f1.qualname}+{f2.qualname}:{a}", ok,
                           detail=reviewed or (f"both write {sorted(c1)[0]}" if same_const else f"{m1} writes {sorted(c1) if c1 else 'a computed value'}, {m2} writes {sorted(c2) if c2 else 'a computed value'}"),
                           where=f1.loc())
                    if not ok:
                        run.finding(f"C13/last-call-wins:{f1.cls.qualname if f1.cls else c.qualname}:{a}:{m1}+{m2}",
                                    f"{m1}() and {m2}() both overwrite {a} with different values: whichever is called last wins, so the two calls do not commute "
                                    "(state addressed by different builder calls must be kept apart and resolved at render time)", where=f2.loc(), rule="R6")
    run.analysed["overwrite_pairs"] = npairs
    if npairs < 5:
        raise AnalysisError(f"instance count below floor: overwrite pairs {npairs}")


def _couplings(program: Program, run: Run) -> None:
    joiner = program.find_cls("Joiner")
    classes = [program.cls(n) for n in BUILDER_CLASSES]
    # the DDL / LOAD builders are statements too (CREATE TABLE's temporary / unique / primary_key ... address different clauses)
    term_ = program.cls("Term")
    for k_ in program.all_classes():
        if k_ not in classes and k_.resolve("get_sql") is not None and not k_.is_subclass_of(term_) and sum(1 for f_ in k_.methods.values() if f_.is_builder) >= 2:
            classes.append(k_)
    per = {}
    for c in classes:
        names = []
        for k in c.mro:
            for n, f in k.methods.items():
                if f.is_builder and n not in names:
                    names.append(n)
        for n in names:
            f = c.resolve(n)
            n = api_name(c, f)
            pairs, writes = _reads_writes(program, f, c)
            if n == "join" and joiner is not None:
                dj = c.resolve("do_join")   # continuation: Joiner.on/using/cross -> query.do_join
                if dj is not None:
                    p2, w2 = _reads_writes(program, dj, c)
                    pairs |= p2
                    writes |= w2
            per[(c.qualname, n)] = (f, pairs, writes)
    clause_attrs = set()
    for (_, _), (f, pairs, writes) in per.items():
        clause_attrs |= writes
    infra = {"immutable", "_wrapper_cls", "wrap_set_operation_queries", "QUERY_CLS", "alias"}
    n = 0
    seen = set()
    for (cn, m), (f, pairs, writes) in sorted(per.items()):
        if (m, "*", "*") in BENIGN:
            continue
        for ra, wa in sorted(pairs):
            if ra in infra or wa in infra or ra not in clause_attrs:
                continue
            key = (m, ra, wa)
            if ra == wa and key not in ORDER_SENSITIVE and key not in BENIGN:
                continue   # same-clause accumulation in call order (documented)
            if key in seen:
                continue
            seen.add(key)
            n += 1
            if key in BENIGN:
                run.ob("C13/R4 cross-clause coupling reviewed (benign)", f"{m}: reads {ra} -> writes {wa}", True, detail=BENIGN[key], where=f.loc())
            elif key in ORDER_SENSITIVE:
                run.ob("C13/R4 cross-clause coupling reviewed (order-sensitive)", f"{m}: reads {ra} -> writes {wa}", False, detail=ORDER_SENSITIVE[key], where=f.loc())
                run.finding(f"C13/order-sensitive:{m}:{ra}->{wa}", f"{m}() reads {ra} while writing {wa}: {ORDER_SENSITIVE[key]}; calls addressing different clauses do not commute", where=f.loc(), rule="R4")
            else:
                run.ob("C13/R4 cross-clause coupling reviewed", f"{m}: reads {ra} -> writes {wa}", False, where=f.loc())
                run.finding(f"C13/unreviewed-coupling:{m}:{ra}->{wa}", f"{m}() reads the clause state {ra} while writing {wa} (data/control dependence): this coupling is not in the reviewed table, so the commutation argument no longer goes through for this pair",
                            where=f.loc(), rule="R4")
    run.analysed["coupling_triples"] = n
    run.analysed["builder_methods"] = len(per)
    if len(per) < 150:
        raise AnalysisError(f"instance count below floor: builder method x class pairs {len(per)}")
