"""L9: variant harness (thorough tier).

Each variant is a small edit of a scratch copy of the package (created under a mktemp directory outside /repo and
/verif, deleted before exit).  Variants are only parsed/compiled and *analysed*, never imported or executed.
 - 'break' variants must make the property's check report a new finding whose key matches `expect`;
 - 'keep' variants (behaviour-preserving edits) must leave the set of findings unchanged.
The baseline is the current /repo tree, so known findings do not count as detections.
"""
from __future__ import annotations

import importlib
import json
import os
import re
import shutil
import sys
import tempfile
import traceback
from concurrent.futures import ProcessPoolExecutor
from pathlib import Path

from .model import AnalysisError, Program, repo_root
from .report import Run

PKG = "pypika_tortoise"


def _apply(root: Path, edits) -> str | None:
    """edits: list of (relative file, old, new).  Returns an error string if an anchor is missing/ambiguous."""
    if isinstance(edits, str):
        # a stored behaviour-preserving refactoring (seeded_keep/<name>/patch.diff), applied as a patch
        import subprocess
        r = subprocess.run(["git", "apply", "-p1", edits], cwd=root, capture_output=True, text=True)
        return None if r.returncode == 0 else f"patch does not apply: {r.stderr.strip()[:120]}"
    for rel, old, new in edits:
        p = root / PKG / rel
        if not p.exists():
            return f"file missing: {rel}"
        s = p.read_text()
        n = s.count(old)
        if n != 1:
            return f"anchor matches {n} times in {rel}: {old[:50]!r}"
        p.write_text(s.replace(old, new))
    return None


def _findings(pid: str, root: Path):
    mod = importlib.import_module(f"sa.props.{pid.lower()}")
    run = Run(pid, "thorough")
    prog = Program(root)
    mod.check(prog, run)
    return {f.key: f.what for f in run.findings if not f.info}


def _run_variant(args):
    pid, name, kind, edits, expect, src_root, base_keys = args
    tmp = Path(tempfile.mkdtemp(prefix="verif-variant-"))
    try:
        shutil.copytree(Path(src_root) / PKG, tmp / PKG, ignore=shutil.ignore_patterns("__pycache__"))
        err = _apply(tmp, edits)
        if err:
            return (pid, name, kind, "skipped", err, [])
        for rel, _, _ in ([] if isinstance(edits, str) else edits):
            try:
                compile((tmp / PKG / rel).read_text(), rel, "exec")
            except SyntaxError as e:
                return (pid, name, kind, "skipped", f"variant does not compile: {e}", [])
        try:
            keys = _findings(pid, tmp)
        except AnalysisError as e:
            # fail-closed counts as detection for breaking variants, as a false alarm for preserving ones
            return (pid, name, kind, "analysis-error", str(e), [])
        new = sorted(k for k in keys if k not in base_keys)
        if kind == "break":
            hit = [k for k in new if re.search(expect, k)]
            return (pid, name, kind, "detected" if hit else "MISSED", "", new[:6])
        if kind == "break-only":
            hit = [k for k in new if re.search(expect, k)]
            extra = [k for k in new if not re.search(expect, k)]
            if extra:
                return (pid, name, kind, "FALSE-ALARM", "findings beyond the reviewed ones", extra[:6])
            return (pid, name, kind, "detected" if hit else "MISSED", "", new[:6])
        gone = sorted(k for k in base_keys if k not in keys)
        return (pid, name, kind, "silent" if not new else "FALSE-ALARM", "", new[:6] + ([f"(resolved: {g})" for g in gone[:2]] if gone else []))
    except Exception:
        return (pid, name, kind, "harness-error", traceback.format_exc()[-400:], [])
    finally:
        shutil.rmtree(tmp, ignore_errors=True)


# (property, keep-variant of another property) pairs that are *not* behaviour-preserving for that property, one reason each
CROSS_EXEMPT: dict = {}


def run_selftest(pid: str, run: Run, seed: int = 0, jobs: int | None = None) -> None:
    from .variants import VARIANTS
    todo = [v for v in VARIANTS if v[0] == pid]
    # behaviour-preserving edits written for the other properties must leave this check silent as well
    own_names = {v[1] for v in todo}
    seen_cross = set()
    for v in VARIANTS:
        if v[0] != pid and v[2] == "keep" and v[1] not in own_names and v[1] not in seen_cross and (pid, v[1]) not in CROSS_EXEMPT:
            seen_cross.add(v[1])
            todo.append((pid, "x:" + v[1], "keep", v[3], ""))
    # ... and so must the stored refactorings that independent sub-agents produced (confirmed behaviour-preserving)
    kd = Path(__file__).resolve().parent.parent / "seeded_keep"
    if kd.is_dir():
        for d in sorted(kd.iterdir()):
            mf, pf = d / "meta.json", d / "patch.diff"
            if mf.exists() and pf.exists() and (pid, d.name) not in CROSS_EXEMPT:
                meta = json.loads(mf.read_text())
                if not meta.get("confirmed"):
                    continue
                # `fail_closed`: reviewed reports that are NOT demonstrated violations -- the rule refuses to vouch for a
                # construct it has no reviewed entry for (a new call-time coupling) and says so; kept apart from the true
                # sibling violations, expected just as exactly
                sib = dict(meta.get("sibling_violations", {}).get(pid) or {})
                sib.update(meta.get("fail_closed", {}).get(pid) or {})
                if sib:
                    # an extension whose author vouched for another property and which was confirmed by hand to violate
                    # this one: the reviewed findings must be reported, and nothing else
                    todo.append((pid, "r:" + d.name, "break-only", str(pf), "^(?:" + "|".join(re.escape(k) for k in sorted(sib)) + ")$"))
                else:
                    todo.append((pid, "r:" + d.name, "keep", str(pf), ""))
    # the changes independent sub-agents seeded against this property (confirmed breaking: suite green, demonstration
    # fails with / passes without) and which this check reported when they were evaluated: each must still be reported
    sd = Path(__file__).resolve().parent.parent / "seeded"
    if sd.is_dir():
        for d in sorted(sd.iterdir()):
            mf, pf = d / "meta.json", d / "patch.diff"
            if not (mf.exists() and pf.exists()):
                continue
            meta = json.loads(mf.read_text())
            if meta.get("property") != pid or not meta.get("confirmed") or not meta.get("detected_by", {}).get(pid):
                continue
            todo.append((pid, "s:" + d.name, "break", str(pf), "."))
    src_root = repo_root()
    base = _findings(pid, src_root)
    jobs = jobs or min(16, max(1, os.cpu_count() or 1))
    args = [(pid, name, kind, edits, expect, str(src_root), set(base)) for (_, name, kind, edits, expect) in todo]
    results = []
    if args:
        with ProcessPoolExecutor(max_workers=jobs) as ex:
            results = list(ex.map(_run_variant, args))
    summary = {"variants": len(results), "detected": 0, "silent": 0, "skipped": 0, "missed": [], "false_alarms": [], "errors": [], "details": []}
    for pid_, name, kind, status, msg, new in results:
        summary["details"].append({"variant": name, "kind": kind, "status": status, "new_findings": new, "note": msg[:200]})
        if status == "detected" or (status == "analysis-error" and kind == "break"):
            summary["detected"] += 1
        elif status == "silent":
            summary["silent"] += 1
        elif status == "skipped":
            summary["skipped"] += 1
        elif status == "MISSED":
            summary["missed"].append(name)
        elif status in ("FALSE-ALARM",) or (status == "analysis-error" and kind in ("keep", "break-only")):
            summary["false_alarms"].append(name)
        else:
            summary["errors"].append(f"{name}: {msg[:200]}")
    run.selftest = summary
    for d in summary["details"]:
        okv = d["status"] in ("detected", "silent", "skipped") or (d["status"] == "analysis-error" and d["kind"] == "break")
        run.ob(f"{pid}/selftest {'breaking edit is reported' if d['kind'] == 'break' else ('extension: exactly the reviewed sibling violations are reported' if d['kind'] == 'break-only' else 'behaviour-preserving edit stays silent')}",
               d["variant"], okv, detail=f"{d['status']} {d['new_findings'][:3]} {d['note'][:80]}", nontrivial=True)
    print(f"[{pid}] selftest: {summary['variants']} variants, detected={summary['detected']} silent={summary['silent']} skipped={summary['skipped']} "
          f"missed={summary['missed']} false_alarms={summary['false_alarms']} errors={len(summary['errors'])}")
    if summary["missed"] or summary["false_alarms"] or summary["errors"]:
        raise AnalysisError(f"self-test failed for {pid}: missed={summary['missed']} false_alarms={summary['false_alarms']} errors={summary['errors'][:2]}")
