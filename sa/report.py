"""L8: findings, known-findings matching, evidence and replay files."""
from __future__ import annotations

import json
import os
import time
from dataclasses import dataclass, field
from pathlib import Path

VERIF = Path(__file__).resolve().parent.parent
EVIDENCE_DIR = Path(os.environ.get("VERIF_EVIDENCE_DIR", str(VERIF / "evidence")))
KNOWN_FILE = VERIF / "known_findings.json"


@dataclass
class Finding:
    prop: str
    key: str              # rule + construct, never a line number
    what: str             # human sentence: what fails
    where: str = ""       # file:line (diagnostic only, not part of the key)
    rule: str = ""
    path: list = field(default_factory=list)     # entry -> offending site
    excerpt: str = ""
    info: bool = False     # observation, not judged


@dataclass
class Obligation:
    rule: str
    subject: str
    ok: bool
    detail: str = ""
    where: str = ""


class Run:
    def __init__(self, prop: str, tier: str):
        self.prop = prop
        self.tier = tier
        self.t0 = time.time()
        self.findings: list[Finding] = []
        self.obligations: list[Obligation] = []
        self.analysed: dict = {}
        self.rules: list[str] = []
        self.explanation = ""
        self.assumptions: list[str] = []
        self.exhaustive = False
        self.extra: dict = {}
        self.nontrivial: set = set()
        self.selftest: dict = {}

    def rule(self, text: str) -> None:
        self.rules.append(text)

    def ob(self, rule: str, subject: str, ok: bool, detail: str = "", where: str = "", nontrivial: bool = True) -> bool:
        self.obligations.append(Obligation(rule, subject, ok, detail, where))
        if nontrivial:
            self.nontrivial.add((rule, subject))
        return ok

    def finding(self, key: str, what: str, **kw) -> None:
        if any(f.key == key for f in self.findings):
            return
        self.findings.append(Finding(self.prop, key, what, **kw))

    def info(self, key: str, what: str, **kw) -> None:
        self.finding(key, what, info=True, **kw)


def load_known() -> dict:
    if not KNOWN_FILE.exists():
        return {"findings": [], "fixed": []}
    return json.loads(KNOWN_FILE.read_text())


def finish(run: Run, seed: int = 0) -> int:
    """Write evidence + replay files, print the verdict lines, return exit code."""
    known = {(k["property"], k["key"]): k for k in load_known().get("findings", [])}
    EVIDENCE_DIR.mkdir(parents=True, exist_ok=True)
    replay_dir = EVIDENCE_DIR / "replay"
    replay_dir.mkdir(exist_ok=True)
    for old in replay_dir.glob(f"{run.prop}-*.json"):
        old.unlink()
    violations, matched, infos = [], [], []
    for f in run.findings:
        if f.info:
            infos.append(f)
        elif (f.prop, f.key) in known:
            matched.append(f)
        else:
            violations.append(f)
    lines = []
    for f in matched:
        lines.append(f"KNOWN-FINDING: property={f.prop} {f.key} {known[(f.prop, f.key)].get('what_fails', f.what)}")
    for i, f in enumerate(violations):
        rp = replay_dir / f"{run.prop}-{i}.json"
        rp.write_text(json.dumps({
            "property": f.prop, "key": f.key, "rule": f.rule, "what": f.what, "where": f.where,
            "path": f.path, "excerpt": f.excerpt}, indent=1))
        lines.append(f"VIOLATION property={f.prop} replay={rp}")
        lines.append(f"  {f.key}: {f.what} [{f.where}]")
    # stale known findings (listed but no longer reported) are only noted
    stale = [k for (p, k) in known if p == run.prop and not any(f.key == k for f in run.findings)]
    discharged = sum(1 for o in run.obligations if o.ok)
    samples = [
        {"rule": o.rule, "subject": o.subject, "ok": o.ok, "detail": o.detail[:300], "where": o.where}
        for o in (run.obligations[:12] + [o for o in run.obligations if not o.ok][:12])
    ]
    ev = {
        "property_id": run.prop,
        "tier": run.tier,
        "seed": seed,
        "level": "other",
        "coverage": {
            "explanation": run.explanation,
            "rules": run.rules,
            "analysed": run.analysed,
            "obligations": len(run.obligations),
            "discharged": discharged,
            "evaluations": max(1, len(run.obligations)),
            "distinct_nontrivial": len(run.nontrivial),
            "rule": "one obligation per rule instance (rule x construct) extracted from the current source; "
                    "non-trivial = the instance involves at least one effect, render slot, context copy or table cell; "
                    "distinct = distinct (rule, construct) pairs",
            "samples": samples or [{"note": "no obligations"}],
            "exhaustive": run.exhaustive,
            "known_findings_matched": [f.key for f in matched],
            "known_findings_stale": stale,
            "observations": [{"key": f.key, "what": f.what} for f in infos][:40],
            "violations": [{"key": f.key, "what": f.what, "where": f.where} for f in violations],
            "selftest": run.selftest,
            **run.extra,
        },
        "assumptions": run.assumptions,
        "wall_s": round(time.time() - run.t0, 3),
        "violations": len(violations),
    }
    (EVIDENCE_DIR / f"{run.prop}.json").write_text(json.dumps(ev, indent=1, default=str))
    for ln in lines:
        print(ln)
    print(f"[{run.prop}] tier={run.tier} obligations={len(run.obligations)} discharged={discharged} "
          f"known={len(matched)} violations={len(violations)} observations={len(infos)} "
          f"wall={ev['wall_s']}s")
    return 1 if violations else 0
