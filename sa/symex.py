"""L5-L7: symbolic evaluator for the renderer subset.

Turns renderer functions into *skeletons* (abstract strings made of literals, holes, nested
render slots with their abstract SqlContext, optional/alternative/repeated parts) without
executing anything.  With concrete finite inputs (enum members, None / present objects) the
same evaluator folds constants and serves as the finite evaluator (L7).

Unsupported constructs inside an evaluated function raise AnalysisError (fail closed).
"""
from __future__ import annotations

import ast
import string
from dataclasses import dataclass, field, replace as dc_replace

from .model import AnalysisError, ClassInfo, FuncInfo, Module, Program

CTX_FIELDS = ("quote_char", "secondary_quote_char", "alias_quote_char", "dialect", "as_keyword", "subquery",
              "with_alias", "with_namespace", "subcriterion", "parameterizer", "groupby_alias", "orderby_alias")


# ----------------------------------------------------------------------------- values
class V:
    pass


@dataclass(frozen=True)
class Const(V):
    value: object

    def __repr__(self):
        return f"{self.value!r}"


@dataclass(frozen=True)
class EnumV(V):
    cls: str
    name: str
    value: object

    def __repr__(self):
        return f"{self.cls}.{self.name}"


@dataclass(frozen=True)
class ClassRef(V):
    cls: ClassInfo

    def __repr__(self):
        return f"<class {self.cls.qualname}>"


@dataclass(frozen=True)
class FuncRef(V):
    func: FuncInfo
    bound: object = None      # V receiver
    recv_cls: object = None   # ClassInfo used for resolution

    def __repr__(self):
        return f"<func {self.func.qualname}>"


@dataclass(frozen=True)
class Builtin(V):
    name: str


@dataclass(frozen=True)
class Sym(V):
    kind: str
    args: tuple = ()

    def __repr__(self):
        return show(self)


@dataclass(frozen=True)
class Inh(V):
    """field of the incoming SqlContext, passed on unchanged"""
    name: str

    def __repr__(self):
        return f"ctx.{self.name}"


@dataclass(frozen=True)
class InhOr(V):
    """incoming field if a context was passed, else the builder's own default"""
    name: str
    default: object

    def __repr__(self):
        return f"(ctx.{self.name} | default {self.default!r})"


class Obj(V):
    """symbolic instance of a known class (self, or a supplied child)"""
    _n = 0

    def __init__(self, cls: ClassInfo, attrs: dict | None = None, name: str = "self", root: bool = False):
        self.cls = cls
        self.attrs = dict(attrs or {})
        self.name = name
        self.root = root
        Obj._n += 1
        self.id = Obj._n

    def __repr__(self):
        return self.name if self.root else f"<{self.cls.qualname} {self.name}>"

    def __eq__(self, other):
        return self is other

    def __hash__(self):
        return self.id


@dataclass(frozen=True)
class Phi(V):
    cond: object
    a: object
    b: object

    def __repr__(self):
        return f"({show(self.a)} if {show(self.cond)} else {show(self.b)})"


@dataclass(frozen=True)
class PartialV(V):
    """functools.partial(callee, *args, **kwargs)"""
    callee: object
    args: tuple = ()
    kwargs: tuple = ()      # ((name, value), ...)


class LambdaV(V):
    def __init__(self, node, env, fr):
        self.node, self.env, self.fr = node, env, fr

    def __repr__(self):
        return "<" + ast.unparse(self.node) + ">"


class LocalFuncV(V):
    """a function defined inside the function under evaluation (`def render(field, order, /): ...`): a closure over the
    enclosing frame, evaluated like any other function when it is called"""
    def __init__(self, node, fr):
        self.node, self.fr = node, fr
        self.info = None

    def __repr__(self):
        return f"<local function {self.node.name}>"


@dataclass(frozen=True)
class RaiseV(V):
    exc: str
    func: str = ""
    loc: str = ""


class CtxV(V):
    def __init__(self, fields: dict, maybe_none: bool = False, origin: str = "param"):
        self.fields = dict(fields)
        self.maybe_none = maybe_none
        self.origin = origin

    @staticmethod
    def incoming(maybe_none: bool = False) -> "CtxV":
        return CtxV({f: Inh(f) for f in CTX_FIELDS}, maybe_none, "param")

    def with_(self, **kw) -> "CtxV":
        f = dict(self.fields)
        f.update(kw)
        return CtxV(f, False, self.origin)

    def __eq__(self, other):
        return isinstance(other, CtxV) and self.fields == other.fields and self.maybe_none == other.maybe_none

    def __hash__(self):
        return hash(tuple(sorted((k, repr(v)) for k, v in self.fields.items())))

    def changed(self) -> dict:
        return {k: v for k, v in self.fields.items() if v != Inh(k) and not (isinstance(v, InhOr) and v.name == k)}

    def __repr__(self):
        ch = self.changed()
        return "ctx" + ("{" + ", ".join(f"{k}={show(v)}" for k, v in ch.items()) + "}" if ch else "")


# ----------------------------------------------------------------------------- string parts
class Part:
    pass


@dataclass(frozen=True)
class Lit(Part):
    text: str
    src: tuple = field(default=(), compare=False)


@dataclass(frozen=True)
class Hole(Part):
    value: object
    via: str = "format"          # format | str | fstring | concat
    src: tuple = field(default=(), compare=False)


@dataclass(frozen=True)
class SlotP(Part):
    recv: object
    method: str
    ctx: object          # CtxV | None (no context argument passed)
    idx: int = field(default=0, compare=False)
    src: tuple = field(default=(), compare=False)
    args: tuple = ()


@dataclass(frozen=True)
class Alt(Part):
    cond: object
    a: "Str"
    b: "Str"


@dataclass(frozen=True)
class Rep(Part):
    body: "Str"
    sep: "Str"
    source: object
    broke: bool = False
    filt: object = None


@dataclass(frozen=True)
class JoinP(Part):
    sep: "Str"
    items: tuple       # of One / RepI


@dataclass(frozen=True)
class Opaque(Part):
    name: str
    inner: tuple       # of Str
    src: tuple = field(default=(), compare=False)
    extra: tuple = ()


@dataclass(frozen=True)
class Str(V):
    parts: tuple = ()

    def __repr__(self):
        return show(self)


EMPTY = Str(())


@dataclass(frozen=True)
class One:
    value: object
    cond: object = None


@dataclass(frozen=True)
class RepI:
    body: tuple        # items
    source: object
    broke: bool = False
    filt: object = None


@dataclass(frozen=True)
class CondI:
    cond: object
    items: tuple


@dataclass(frozen=True)
class ListV(V):
    items: tuple = ()
    kind: str = "list"

    def __repr__(self):
        return show(self)


@dataclass(frozen=True)
class DictV(V):
    items: tuple = ()   # ((key V, value V), ...)


def slots_in(v, out=None, depth: int = 0) -> list:
    """every SlotP (render call) reachable inside a value"""
    if out is None:
        out = []
    if depth > 80:
        return out
    if isinstance(v, SlotP):
        out.append(v)
    elif isinstance(v, (tuple, list)):
        for i in v:
            slots_in(i, out, depth + 1)
    elif isinstance(v, CtxV):
        pass
    elif hasattr(v, "__dataclass_fields__"):
        for n in v.__dataclass_fields__:
            if n in ("src", "ctx", "cond", "source", "filt"):
                continue
            slots_in(getattr(v, n), out, depth + 1)
    return out


def map_slots(v, mp: dict, depth: int = 0):
    """rebuild a value with the evaluation index of its render calls renumbered through mp"""
    if depth > 80:
        return v
    if isinstance(v, SlotP):
        return dc_replace(v, idx=mp.get(v.idx, v.idx))
    if isinstance(v, tuple):
        out = tuple(map_slots(i, mp, depth + 1) for i in v)
        return out if any(a is not b for a, b in zip(out, v)) else v
    if isinstance(v, CtxV) or not hasattr(v, "__dataclass_fields__"):
        return v
    ch = {}
    for n in v.__dataclass_fields__:
        if n in ("src", "ctx", "cond", "source", "filt"):
            continue
        old = getattr(v, n)
        new = map_slots(old, mp, depth + 1)
        if new is not old:
            ch[n] = new
    return dc_replace(v, **ch) if ch else v


# ----------------------------------------------------------------------------- pretty printer
def show(v, depth: int = 0) -> str:
    if depth > 8:
        return "..."
    d = depth + 1
    if isinstance(v, Str):
        return "".join(show(p, d) for p in v.parts) if v.parts else "''"
    if isinstance(v, Lit):
        return v.text
    if isinstance(v, Hole):
        return "{" + show(v.value, d) + ("!" + v.via if v.via in ("str",) else "") + "}"
    if isinstance(v, SlotP):
        c = "" if v.ctx is None else ("|" + ",".join(f"{k}={show(x, d)}" for k, x in v.ctx.changed().items()) if isinstance(v.ctx, CtxV) and v.ctx.changed() else "")
        if v.ctx is None:
            c = "|NOCTX"
        return "<" + show(v.recv, d) + "." + v.method + c + ">"
    if isinstance(v, Alt):
        if not v.b.parts:
            return "[" + show(v.a, d) + " if " + show(v.cond, d) + "]"
        if not v.a.parts:
            return "[" + show(v.b, d) + " unless " + show(v.cond, d) + "]"
        return "[" + show(v.a, d) + " if " + show(v.cond, d) + " else " + show(v.b, d) + "]"
    if isinstance(v, Rep):
        return "(" + show(v.body, d) + ")*" + ("?" if v.broke else "") + repr(show(v.sep, d)) + "@" + show(v.source, d)
    if isinstance(v, JoinP):
        return "join(" + repr(show(v.sep, d)) + ": " + "; ".join(show(i, d) for i in v.items) + ")"
    if isinstance(v, One):
        return show(v.value, d) + (" if " + show(v.cond, d) if v.cond is not None else "")
    if isinstance(v, RepI):
        return "(" + "; ".join(show(i, d) for i in v.body) + ")*" + ("?" if v.broke else "") + "@" + show(v.source, d)
    if isinstance(v, CondI):
        return "{" + "; ".join(show(i, d) for i in v.items) + " if " + show(v.cond, d) + "}"
    if isinstance(v, Opaque):
        return v.name + "(" + ", ".join(show(s, d) for s in v.inner) + ")"
    if isinstance(v, ListV):
        return "[" + "; ".join(show(i, d) for i in v.items) + "]"
    if isinstance(v, Sym):
        k, a = v.kind, v.args
        if k == "attr":
            return show(a[0], d) + "." + a[1]
        if k == "param":
            return a[0]
        if k == "typed":
            return "<" + a[0] + ":" + "|".join(sorted(a[1])) + ">"
        if k == "elem":
            return show(a[0], d) + "[]"
        if k == "item":
            return show(a[0], d) + "[" + show(a[1], d) + "]"
        if k == "call":
            return str(a[0]) + "(" + ", ".join(show(x, d) for x in a[1:]) + ")"
        if k == "op":
            if a[0] == "not":
                return "not " + show(a[1], d)
            if len(a) == 3:
                return "(" + show(a[1], d) + " " + a[0] + " " + show(a[2], d) + ")"
            return a[0] + "(" + ", ".join(show(x, d) for x in a[1:]) + ")"
        return k + "(" + ", ".join(show(x, d) for x in a) + ")"
    if isinstance(v, (tuple, list)):
        return "(" + ", ".join(show(x, d) for x in v) + ")"
    return repr(v)


# ----------------------------------------------------------------------------- helpers
def s_lit(text: str, src=()) -> Str:
    return Str((Lit(text, src),)) if text else EMPTY


def concat(a: Str, b: Str) -> Str:
    if not a.parts:
        return b
    if not b.parts:
        return a
    pa, pb = a.parts, b.parts
    if isinstance(pa[-1], Lit) and isinstance(pb[0], Lit):
        return Str(pa[:-1] + (Lit(pa[-1].text + pb[0].text, pa[-1].src or pb[0].src),) + pb[1:])
    return Str(pa + pb)


def _is_default_ctx_field(v, k: str) -> bool:
    """`<something>.SQL_CONTEXT.<k>`: the field of a default context record that is only known at run time"""
    return (isinstance(v, Sym) and v.kind == "attr" and v.args[1] == k and isinstance(v.args[0], Sym)
            and v.args[0].kind == "attr" and v.args[0].args[1] == "SQL_CONTEXT")


def s_alt(cond, a: Str, b: Str) -> Str:
    if a == b:
        return a
    # `x if not flag else y` and `y if flag else x` are the same alternative: a test on a bare context flag is kept positive
    if isinstance(cond, Sym) and cond.kind == "op" and cond.args[0] == "not" and isinstance(cond.args[1], (Inh, InhOr)):
        cond, a, b = cond.args[1], b, a
    # factor common prefix / suffix so clause sequences stay linear
    pa, pb = a.parts, b.parts
    i = 0
    while i < len(pa) and i < len(pb) and pa[i] == pb[i]:
        i += 1
    j = 0
    while j < len(pa) - i and j < len(pb) - i and pa[len(pa) - 1 - j] == pb[len(pb) - 1 - j]:
        j += 1
    mid_a = Str(pa[i:len(pa) - j])
    mid_b = Str(pb[i:len(pb) - j])
    pre, suf = pa[:i], (pa[len(pa) - j:] if j else ())
    # the shared parts were evaluated once per alternative (two calls of the same helper): as one text they stand before /
    # after both alternatives, so their render calls take the earlier (prefix) resp. later (suffix) evaluation index
    if i:
        sa_, sb_ = slots_in(pre), slots_in(pb[:i])
        if len(sa_) == len(sb_) and any(x.idx != y.idx for x, y in zip(sa_, sb_)):
            mp = {x.idx: min(x.idx, y.idx) for x, y in zip(sa_, sb_)}
            pre = map_slots(pre, mp)
    if j:
        sa_, sb_ = slots_in(suf), slots_in(pb[len(pb) - j:])
        if len(sa_) == len(sb_) and any(x.idx != y.idx for x, y in zip(sa_, sb_)):
            mp = {x.idx: max(x.idx, y.idx) for x, y in zip(sa_, sb_)}
            suf = map_slots(suf, mp)
    return Str(pre + (Alt(cond, mid_a, mid_b),) + suf)


def negate(c):
    if isinstance(c, Const):
        return Const(not c.value)
    if isinstance(c, Sym) and c.kind == "op" and c.args[0] == "not":
        return c.args[1]
    return Sym("op", ("not", c))


def conj(conds: list):
    conds = [c for c in conds if not (isinstance(c, Const) and c.value is True)]
    if not conds:
        return Const(True)
    if len(conds) == 1:
        return conds[0]
    return Sym("op", ("and",) + tuple(conds))


def simplify_under(v, cond, val: bool, depth: int = 0):
    """rewrite v knowing that `cond` evaluates to `val` (resolves nested Phi/Alt on the same condition)"""
    if depth > 6:
        return v
    ncond = negate(cond)
    if isinstance(v, Phi):
        if v.cond == cond:
            return simplify_under(v.a if val else v.b, cond, val, depth + 1)
        if v.cond == ncond:
            return simplify_under(v.b if val else v.a, cond, val, depth + 1)
        return v
    if isinstance(v, Str):
        changed = False
        out = []
        for p in v.parts:
            if isinstance(p, Alt):
                if p.cond == cond:
                    out.extend(simplify_under(p.a if val else p.b, cond, val, depth + 1).parts)
                    changed = True
                    continue
                if p.cond == ncond:
                    out.extend(simplify_under(p.b if val else p.a, cond, val, depth + 1).parts)
                    changed = True
                    continue
            out.append(p)
        if changed:
            r = EMPTY
            for p in out:
                r = concat(r, Str((p,)))
            return r
    return v


class _Return(Exception):
    pass


def _own_nodes(fn: ast.AST):
    """nodes of a function body without descending into nested function definitions"""
    stack = list(ast.iter_child_nodes(fn))
    while stack:
        n = stack.pop()
        yield n
        if not isinstance(n, (ast.FunctionDef, ast.AsyncFunctionDef, ast.Lambda, ast.ClassDef)):
            stack.extend(ast.iter_child_nodes(n))


class Frame:
    def __init__(self, func: FuncInfo, recv_cls: ClassInfo | None, self_v, module: Module):
        self.func = func
        self.recv_cls = recv_cls
        self.self_v = self_v
        self.module = module
        self.env: dict[str, object] = {}
        self.done: list[tuple] = []     # (cond, value) terminated paths
        self.live = True
        self.live_cond: list = []
        self.in_loop = 0
        self.breaks: list = []
        self.continues: list = []


class Evaluator:
    """One evaluator per analysis question; `slot_children=True` keeps get_sql calls on
    child objects as slots instead of inlining them."""

    def __init__(self, program: Program, max_depth: int = 40, inline_self: bool = True):
        self.p = program
        self.inline_self = inline_self
        self.idx = 0
        self.eager: list = []   # (SlotP, construct, src): render calls evaluated whose result may be thrown away
        self.stack: list[FuncInfo] = []
        self.max_depth = max_depth
        self.notes: list = []        # diagnostics: writes seen inside renderers, etc.
        self._const_cache: dict = {}
        self.enum_classes = {c for c in program.all_classes() if c.has_extern_base("Enum") or any(
            b.has_extern_base("Enum") for b in c.mro)}

    def mutated_class_state(self) -> set:
        """names of class-level attributes bound to a mutable display ({}, [], set()) that some function in the package
        writes into (subscript store, mutating method): their initial value says nothing about their contents"""
        cached = getattr(self.p, "_mutated_class_state", None)
        if cached is not None:
            return cached
        cand = set()
        for c in self.p.all_classes():
            for n_, v_ in c.class_attrs.items():
                if isinstance(v_, (ast.Dict, ast.List, ast.Set)) or (isinstance(v_, ast.Call) and isinstance(v_.func, ast.Name) and v_.func.id in ("dict", "list", "set", "defaultdict", "OrderedDict")):
                    cand.add(n_)
        out = set()
        MUT = {"append", "add", "update", "setdefault", "pop", "popitem", "clear", "extend", "insert", "remove", "discard", "__setitem__"}
        for f in self.p.all_functions():
            for n in ast.walk(f.node):
                tgt = None
                if isinstance(n, (ast.Assign, ast.AugAssign, ast.AnnAssign)):
                    for t in (n.targets if isinstance(n, ast.Assign) else [n.target]):
                        for sub in ast.walk(t):
                            if isinstance(sub, ast.Subscript) and isinstance(sub.value, ast.Attribute) and sub.value.attr in cand:
                                out.add(sub.value.attr)
                elif isinstance(n, ast.Call) and isinstance(n.func, ast.Attribute) and n.func.attr in MUT and isinstance(n.func.value, ast.Attribute) and n.func.value.attr in cand:
                    # instance attributes of the same name assigned in __init__ shadow the class attribute: only count
                    # receivers that are not plainly instance state is not decidable here, so be conservative
                    out.add(n.func.value.attr)
        self.p._mutated_class_state = out
        return out

    # ------------------------------------------------------------------ entry points
    def self_obj(self, cls: ClassInfo, attrs: dict | None = None) -> Obj:
        return Obj(cls, attrs, "self", root=True)

    def call_method(self, obj: Obj, name: str, args: list | None = None, kwargs: dict | None = None):
        f = obj.cls.resolve(name)
        if f is None:
            raise AnalysisError(f"anchor vanished: {obj.cls.qualname}.{name}")
        return self.call_function(f, obj.cls, obj, list(args or []), dict(kwargs or {}))

    # ------------------------------------------------------------------ function inlining
    def call_function(self, f: FuncInfo, recv_cls: ClassInfo | None, self_v, args: list, kwargs: dict, call_src=(), closure_env: dict | None = None):
        if self.stack.count(f) >= 2 or len(self.stack) > self.max_depth:
            return Sym("call", ("rec:" + f.qualname,) + tuple(args))
        if f.is_builder:
            return Sym("call", ("builder:" + f.qualname, self_v) + tuple(args))
        fr = Frame(f, recv_cls, self_v, f.module)
        if closure_env:
            fr.env.update(closure_env)       # a function defined inside another one sees the enclosing names
        params = list(f.params)
        node = f.node
        if f.cls is not None and not f.is_static and params:
            fr.env[params[0]] = ClassRef(recv_cls) if f.is_classmethod and recv_cls is not None else self_v
            params = params[1:]
        defaults = node.args.defaults
        pos = node.args.posonlyargs + node.args.args
        pos = pos[len(pos) - len(params):]
        dmap = {}
        for a, d in zip(pos[len(pos) - len(defaults):], defaults):
            dmap[a.arg] = d
        for a, d in zip(node.args.kwonlyargs, node.args.kw_defaults):
            if d is not None:
                dmap[a.arg] = d
        extra = []
        if args and isinstance(args[-1], Sym) and args[-1].kind == "starred" and len(args) - 1 < len(params) and not f.vararg:
            # f(*row) with a symbolic row: the remaining positional parameters are its items
            row = args[-1].args[0]
            args = list(args[:-1]) + [self.item(row, Const(i)) for i in range(len(params) - (len(args) - 1))]
        for i, v in enumerate(args):
            if i < len(params):
                fr.env[params[i]] = v
            else:
                extra.append(v)
        if f.vararg:
            fr.env[f.vararg] = ListV(tuple(One(x) for x in extra), "tuple")
        kw_extra = {}
        for k, v in kwargs.items():
            if k in params or k in f.kwonly:
                fr.env[k] = v
            else:
                kw_extra[k] = v
        if f.kwarg:
            fr.env[f.kwarg] = DictV(tuple((Const(k), v) for k, v in kw_extra.items()))
        for prm in params + f.kwonly:
            if prm not in fr.env:
                if prm in dmap:
                    fr.env[prm] = self.eval_in_module(dmap[prm], f.module)
                else:
                    fr.env[prm] = Sym("param", (prm,))
        is_gen = any(isinstance(n, (ast.Yield, ast.YieldFrom)) for n in _own_nodes(node))
        if is_gen:
            fr.yields = []
        self.stack.append(f)
        try:
            self.exec_block(node.body, fr)
        finally:
            self.stack.pop()
        if is_gen:
            # a generator function: what it yields, in order, consumed lazily by the caller (join / list / for)
            return ListV(tuple(fr.yields), "gen")
        if fr.live:
            fr.done.append((conj(fr.live_cond), Const(None)))
        return self.combine(fr.done)

    def e_Yield(self, e, fr):
        if not hasattr(fr, "yields"):
            self.unsupported(e, fr, "yield outside an inlined generator function")
        v = self.eval(e.value, fr) if e.value is not None else Const(None)
        extra = [c for c in fr.live_cond if not (isinstance(c, Const) and c.value is True)]
        fr.yields.append(One(v, conj(extra)) if extra else One(v))
        return Const(None)

    def e_YieldFrom(self, e, fr):
        if not hasattr(fr, "yields"):
            self.unsupported(e, fr, "yield from outside an inlined generator function")
        v = self.consume_lazy(self.eval(e.value, fr))
        if isinstance(v, ListV):
            fr.yields.extend(v.items)
        else:
            fr.yields.append(RepI((One(Sym("elem", (v,))),), v))
        return Const(None)

    def combine(self, done: list):
        """fold terminated paths (in order) into one value"""
        if not done:
            return Const(None)
        vals = [d for d in done if not isinstance(d[1], RaiseV)]
        if len(vals) < len(done) and vals and all(isinstance(d[1], (ListV, DictV, CtxV)) for d in vals):
            # a helper handing back a container (fragment list, context) on every path that returns: the raising
            # paths hand back nothing, the caller goes on with the container (the raise is kept as a note)
            for c_, r_ in done:
                if isinstance(r_, RaiseV):
                    self.notes.append(("raise", (r_.func, 0, "", (r_.func,)), f"{r_.exc} at {r_.loc}"))
            done = vals
        result = done[-1][1]
        for cond, val in reversed(done[:-1]):
            result = self.merge(cond, val, result)
        return result

    def merge(self, cond, a, b):
        if isinstance(cond, Const):
            return a if cond.value else b
        if a is b or (not isinstance(a, (Obj, CtxV)) and type(a) is type(b) and a == b):
            return a
        a = simplify_under(a, cond, True)
        b = simplify_under(b, cond, False)
        sa, sb = self.as_str_or_none(a), self.as_str_or_none(b)
        if (isinstance(a, Str) or isinstance(b, Str)):
            if sa is None and isinstance(a, (Sym, Obj, Inh, InhOr, EnumV)):
                sa = Str((Hole(a, "raw"),))
            if sb is None and isinstance(b, (Sym, Obj, Inh, InhOr, EnumV)):
                sb = Str((Hole(b, "raw"),))
            if sa is None and isinstance(a, Phi):
                sa = self.phi_to_str(a)
            if sb is None and isinstance(b, Phi):
                sb = self.phi_to_str(b)
        if sa is not None and sb is not None and (isinstance(a, (Str, Phi)) or isinstance(b, (Str, Phi))):
            return s_alt(cond, sa, sb)
        if isinstance(a, CtxV) and isinstance(b, CtxV):
            return self.merge_ctx(cond, a, b)
        if isinstance(a, ListV) and isinstance(b, ListV):
            ia, ib = a.items, b.items
            i = 0
            while i < len(ia) and i < len(ib) and ia[i] == ib[i]:
                i += 1
            ra, rb = ia[i:], ib[i:]
            if not rb and all(isinstance(x, One) for x in ra):
                return ListV(ia[:i] + tuple(One(x.value, cond if x.cond is None else conj([cond, x.cond])) for x in ra), a.kind)
            if not ra and all(isinstance(x, One) for x in rb):
                nc = negate(cond)
                return ListV(ia[:i] + tuple(One(x.value, nc if x.cond is None else conj([nc, x.cond])) for x in rb), a.kind)
            tail = ()
            if ra:
                tail += (CondI(cond, ra),)
            if rb:
                tail += (CondI(negate(cond), rb),)
            return ListV(ia[:i] + tail, a.kind)
        return Phi(cond, a, b)

    def phi_to_str(self, v):
        """a Phi whose leaves are all strings / symbolic values (no None) as an abstract string"""
        if isinstance(v, Str):
            return v
        if isinstance(v, Const):
            return s_lit(v.value) if isinstance(v.value, str) else None
        if isinstance(v, (Sym, Obj, Inh, InhOr, EnumV)):
            return Str((Hole(v, "raw"),))
        if isinstance(v, Phi):
            x, y = self.phi_to_str(v.a), self.phi_to_str(v.b)
            if x is None or y is None:
                return None
            return s_alt(v.cond, x, y)
        return None

    def merge_ctx(self, cond, a: CtxV, b: CtxV) -> CtxV:
        fields = {}
        # `if not ctx: ctx = DEFAULT` / `ctx = ctx or DEFAULT`
        none_test = self.is_ctx_none_test(cond)
        for k in CTX_FIELDS:
            fa, fb = a.fields[k], b.fields[k]
            if fa == fb:
                fields[k] = fa
            elif none_test is True and fb == Inh(k) and (isinstance(fa, (Const, EnumV)) or _is_default_ctx_field(fa, k)):
                fields[k] = InhOr(k, fa)
            elif none_test is False and fa == Inh(k) and (isinstance(fb, (Const, EnumV)) or _is_default_ctx_field(fb, k)):
                fields[k] = InhOr(k, fb)
            else:
                fields[k] = Phi(cond, fa, fb)
        return CtxV(fields, False, "merged")

    def is_ctx_none_test(self, cond):
        """True if cond means 'no context was passed', False if it means one was passed"""
        if isinstance(cond, Sym) and cond.kind == "ctx-present":
            return False
        if isinstance(cond, Sym) and cond.kind == "op" and cond.args[0] == "not":
            inner = self.is_ctx_none_test(cond.args[1])
            return None if inner is None else (not inner)
        return None

    def as_str_or_none(self, v):
        if isinstance(v, Str):
            return v
        if isinstance(v, Const) and isinstance(v.value, str):
            return s_lit(v.value)
        return None

    # ------------------------------------------------------------------ statements
    def unsupported(self, node, fr: Frame, what: str = ""):
        raise AnalysisError(f"symex: unsupported construct {what or type(node).__name__} in {fr.func.qualname} at {fr.func.loc(node)}")

    def src(self, fr: Frame, node) -> tuple:
        return (fr.func.qualname, getattr(node, "lineno", 0), fr.func.module.relpath,
                tuple(f.qualname for f in self.stack))

    def exec_block(self, stmts, fr: Frame):
        for st in stmts:
            if not fr.live:
                return
            self.exec_stmt(st, fr)

    def exec_stmt(self, st, fr: Frame):
        if isinstance(st, ast.Expr):
            if isinstance(st.value, ast.Constant):
                return
            self.eval_effect_expr(st.value, fr)
        elif isinstance(st, ast.Assign):
            v = self.eval(st.value, fr)
            for t in st.targets:
                self.assign(t, v, fr, st)
        elif isinstance(st, ast.AnnAssign):
            if st.value is not None:
                self.assign(st.target, self.eval(st.value, fr), fr, st)
        elif isinstance(st, ast.AugAssign):
            if not isinstance(st.target, ast.Name):
                self.notes.append(("write", self.src(fr, st), ast.unparse(st)))
                self.eval(st.value, fr)
                return
            cur = fr.env.get(st.target.id, Sym("param", (st.target.id,)))
            rhs = self.eval(st.value, fr)
            if isinstance(st.op, ast.Add):
                fr.env[st.target.id] = self.add(cur, rhs, fr, st)
            else:
                fr.env[st.target.id] = Sym("op", (type(st.op).__name__, cur, rhs))
        elif isinstance(st, ast.Return):
            v = self.eval(st.value, fr) if st.value is not None else Const(None)
            fr.done.append((conj(fr.live_cond), v))
            fr.live = False
        elif isinstance(st, ast.Raise):
            exc = ast.unparse(st.exc.func if isinstance(st.exc, ast.Call) else st.exc) if st.exc is not None else "reraise"
            fr.done.append((conj(fr.live_cond), RaiseV(exc, fr.func.qualname, fr.func.loc(st))))
            fr.live = False
        elif isinstance(st, ast.If):
            self.exec_if(st, fr)
        elif isinstance(st, ast.For):
            self.exec_for(st, fr)
        elif isinstance(st, ast.While):
            self.exec_while(st, fr)
        elif isinstance(st, ast.Try):
            self.exec_try(st, fr)
        elif isinstance(st, ast.With):
            # `with suppress(X): body` / any context manager: the body runs (an exception it swallows leaves the names the
            # body binds at their earlier values: the alternative is kept)
            for item in st.items:
                v = self.eval(item.context_expr, fr)
                if item.optional_vars is not None:
                    self.assign(item.optional_vars, Sym("with", (v,)), fr, st)
            self._alternatives(st.body, [[]], fr, ("with", fr.func.loc(st)))
        elif isinstance(st, ast.Pass):
            return
        elif isinstance(st, ast.Import):
            # function-local `import copy`: the name is bound in the frame
            for al in st.names:
                fr.env[al.asname or al.name.split(".")[0]] = Sym("extern", (al.name if al.asname else al.name.split(".")[0],))
            return
        elif isinstance(st, ast.ImportFrom):
            for al in st.names:
                if st.module and not st.level and f"{st.module}.{al.name}" in ("typing.cast", "copy.copy", "copy.deepcopy", "functools.reduce"):
                    fr.env[al.asname or al.name] = Builtin(al.name)
            return
        elif isinstance(st, ast.Break):
            fr.breaks.append((list(fr.live_cond), dict(fr.env)))
            fr.live = False
        elif isinstance(st, ast.Continue):
            fr.continues.append((list(fr.live_cond), dict(fr.env)))
            fr.live = False
        elif isinstance(st, ast.FunctionDef):
            fr.env[st.name] = LocalFuncV(st, fr) if not any(isinstance(n, (ast.Yield, ast.YieldFrom)) for n in ast.walk(st)) or True else Sym("localfunc", (st.name,))
        elif isinstance(st, ast.Assert):
            return
        else:
            self.unsupported(st, fr)

    def eval_effect_expr(self, e, fr: Frame):
        """expression statement: list.append / extend on local lists; anything else evaluated for slots"""
        if isinstance(e, ast.Call) and isinstance(e.func, ast.Attribute) and isinstance(e.func.value, ast.Name):
            name = e.func.value.id
            cur = fr.env.get(name)
            if isinstance(cur, ListV) and e.func.attr == "insert" and len(e.args) == 2 and isinstance(e.args[0], ast.Constant) and e.args[0].value == 0:
                fr.env[name] = ListV((One(self.eval(e.args[1], fr)),) + cur.items, cur.kind)
                return
            if isinstance(cur, ListV) and e.func.attr in ("append", "extend", "add"):
                arg = self.eval(e.args[0], fr)
                if e.func.attr == "extend":
                    if isinstance(arg, ListV):
                        fr.env[name] = ListV(cur.items + arg.items, cur.kind)
                    else:
                        fr.env[name] = ListV(cur.items + (RepI((One(Sym("elem", (arg,))),), arg),), cur.kind)
                else:
                    fr.env[name] = ListV(cur.items + (One(arg),), cur.kind)
                return
        if isinstance(e, ast.Call) and isinstance(e.func, ast.Attribute) and e.func.attr in (
                "append", "extend", "add", "remove", "pop", "clear", "update", "insert", "discard"):
            base = self.eval(e.func.value, fr)
            if not isinstance(base, (ListV, DictV)):
                self.notes.append(("write", self.src(fr, e), ast.unparse(e)))
        v = self.eval(e, fr)
        if isinstance(v, Str):
            for sp in slots_in(v):
                self.eager.append((sp, "expression statement", self.src(fr, e)))

    def assign(self, t, v, fr: Frame, st):
        if isinstance(t, ast.Name):
            old = fr.env.get(t.id)
            if old is not None and old is not v and isinstance(old, (Str, Phi)):
                # a rendered text bound to a local and overwritten before anything used it: the render ran for nothing
                olds = slots_in(old)
                if olds:
                    keep = {sp.idx for sp in slots_in(v)}
                    for k_, w_ in fr.env.items():
                        if k_ != t.id and w_ is not old:
                            keep |= {sp.idx for sp in slots_in(w_)}
                    for _c, dv in fr.done:
                        keep |= {sp.idx for sp in slots_in(dv)}
                    for sp in olds:
                        if sp.idx not in keep:
                            self.eager.append((sp, f"value of the local `{t.id}`, overwritten before it is used", self.src(fr, st)))
            fr.env[t.id] = v
        elif isinstance(t, (ast.Tuple, ast.List)):
            star = [i for i, e in enumerate(t.elts) if isinstance(e, ast.Starred)]
            if len(star) == 1:
                # `first, *rest = seq` / `for a, b, *more in rows`
                k, n = star[0], len(t.elts)
                v = self.consume_lazy(v)
                concrete = isinstance(v, ListV) and all(isinstance(i, One) and i.cond is None for i in v.items) and len(v.items) >= n - 1
                for i, e in enumerate(t.elts):
                    if i < k:
                        self.assign(e, v.items[i].value if concrete else self.item(v, Const(i)), fr, st)
                    elif i == k:
                        if concrete:
                            rest = ListV(v.items[k:len(v.items) - (n - k - 1)], "list")
                        elif isinstance(v, ListV) and all(isinstance(x, One) and x.cond is None for x in v.items[:k]) and n - k - 1 == 0:
                            rest = ListV(v.items[k:], "list")      # a known head followed by a repetition: the tail keeps the repetition
                        else:
                            rest = Sym("rest", (v, k))
                        self.assign(e.value, rest, fr, st)
                    else:
                        self.assign(e, v.items[len(v.items) - (n - i)].value if concrete else self.item(v, Const(i - n)), fr, st)
                return
            for i, e in enumerate(t.elts):
                self.assign(e, self.item(v, Const(i)), fr, st)
        elif isinstance(t, ast.Attribute) and getattr(self, "apply_writes", False):
            # constructor mode: stores to the analysed object are applied (only on fully decided paths)
            base = self.eval(t.value, fr)
            if isinstance(base, Obj) and base.root:
                if any(not (isinstance(c, Const) and c.value is True) for c in fr.live_cond):
                    self.unsupported(st, fr, "store to self under an undecided condition (constructor mode)")
                base.attrs[t.attr] = v
                return
            self.notes.append(("write", self.src(fr, st), ast.unparse(st)))
        elif isinstance(t, (ast.Attribute, ast.Subscript)):
            self.notes.append(("write", self.src(fr, st), ast.unparse(st)))
        else:
            self.unsupported(t, fr)

    def exec_if(self, st: ast.If, fr: Frame):
        cond = self.as_cond(self.eval(st.test, fr))
        tv = self.truth(cond)
        if tv is True:
            return self.exec_block(st.body, fr)
        if tv is False:
            return self.exec_block(st.orelse, fr)
        env0 = dict(fr.env)
        lc0 = list(fr.live_cond)
        fr.live_cond = lc0 + [cond]
        ref_then, ref_else = self._none_refinement(st.test, fr)
        fr.env.update(ref_then)
        self.exec_block(st.body, fr)
        live_a, env_a = fr.live, fr.env
        fr.env, fr.live = dict(env0), True
        fr.env.update(ref_else)
        fr.live_cond = lc0 + [negate(cond)]
        self.exec_block(st.orelse, fr)
        live_b, env_b = fr.live, fr.env
        if live_a and live_b:
            fr.env = self.join_env(cond, env_a, env_b)
            fr.live_cond = lc0
            fr.live = True
        elif live_a:
            fr.env, fr.live = env_a, True
            fr.live_cond = lc0 + [cond]
        elif live_b:
            fr.env, fr.live = env_b, True
            fr.live_cond = lc0 + [negate(cond)]
        else:
            fr.live = False
            fr.live_cond = lc0

    def exec_try(self, st: ast.Try, fr: Frame):
        """try / except / else / finally: the protected block followed by the else block, or -- under an opaque condition
        per handler -- the handler started from the state before the try (what the protected block had already bound is
        not kept: an under-approximation of the handler's view, stated here); finally runs after either"""
        self._alternatives(list(st.body) + list(st.orelse), [list(h.body) for h in st.handlers], fr, ("raises", fr.func.loc(st)))
        if st.finalbody and fr.live:
            self.exec_block(st.finalbody, fr)

    def _alternatives(self, main: list, others: list, fr: Frame, tag: tuple):
        """run `main`, or one of `others` (each started from the state before `main`) under an opaque condition"""
        env0 = dict(fr.env)
        lc0 = list(fr.live_cond)
        conds = [Sym("alt", tag + (i,)) for i in range(len(others))]
        fr.live_cond = lc0 + [negate(c) for c in conds]
        self.exec_block(main, fr)
        acc_live, acc_env = fr.live, fr.env
        for c, body in zip(conds, others):
            fr.env, fr.live = dict(env0), True
            fr.live_cond = lc0 + [c]
            self.exec_block(body, fr)
            if fr.live and acc_live:
                acc_env = self.join_env(c, fr.env, acc_env)
            elif fr.live:
                acc_env, acc_live = fr.env, True
        fr.env, fr.live = acc_env, acc_live
        fr.live_cond = lc0

    def _none_refinement(self, test, fr: Frame):
        """`if x is None:` / `if (x := e) is None:` / `if not x:` on a local whose value is `A or None` by construction:
        inside the branches the local is the None / the non-None alternative (path sensitivity for the commonest idiom)"""
        neg = False
        t = test
        if isinstance(t, ast.UnaryOp) and isinstance(t.op, ast.Not):
            neg, t = True, t.operand
        name = None
        is_none_test = None
        if isinstance(t, ast.Compare) and len(t.ops) == 1 and isinstance(t.comparators[0], ast.Constant) and t.comparators[0].value is None:
            l_ = t.left.target if isinstance(t.left, ast.NamedExpr) else t.left
            if isinstance(l_, ast.Name) and isinstance(t.ops[0], (ast.Is, ast.IsNot)):
                name, is_none_test = l_.id, isinstance(t.ops[0], ast.Is)
        elif isinstance(t, ast.Name):
            name, is_none_test = t.id, False      # `if x:` -> then-branch: not None
        if name is None or name not in fr.env:
            return {}, {}
        v = fr.env[name]
        if not isinstance(v, Phi):
            return {}, {}
        a_none = isinstance(v.a, Const) and v.a.value is None
        b_none = isinstance(v.b, Const) and v.b.value is None
        if a_none == b_none:
            return {}, {}
        none_v, other = (v.a, v.b) if a_none else (v.b, v.a)
        if isinstance(t, ast.Name) and not isinstance(other, (Str, Obj)):
            return {}, {}          # truthiness only separates None from text / objects
        then_is_none = is_none_test != neg
        return ({name: none_v}, {name: other}) if then_is_none else ({name: other}, {name: none_v})

    def _rejoin_continues(self, fr: Frame, nc: int, lc_it: list) -> None:
        """paths that left the loop body through `continue` meet the path that reached its end"""
        mine = fr.continues[nc:]
        del fr.continues[nc:]
        for cconds, cenv in mine:
            cc = conj(cconds[len(lc_it):])
            if fr.live:
                fr.env = self.join_env(cc, cenv, fr.env)
            else:
                fr.env, fr.live = cenv, True
            fr.live_cond = list(lc_it)

    def join_env(self, cond, a: dict, b: dict) -> dict:
        out = {}
        for k in set(a) | set(b):
            if k in a and k in b:
                out[k] = self.merge(cond, a[k], b[k])
            else:
                out[k] = a.get(k, b.get(k))
        return out

    def exec_for(self, st: ast.For, fr: Frame):
        if st.orelse:
            self.unsupported(st, fr, "for-else")
        it = self.consume_lazy(self.eval(st.iter, fr))
        # concrete finite iteration (constant lists / tuples): unroll
        if isinstance(it, ListV) and all(isinstance(i, One) and i.cond is None for i in it.items) and len(it.items) <= 12:
            for i in it.items:
                if not fr.live:
                    return
                self.assign(st.target, i.value, fr, st)
                nb = len(fr.breaks)
                nc = len(fr.continues)
                lc_it = list(fr.live_cond)
                self.exec_block(st.body, fr)
                if len(fr.breaks) != nb:
                    self.unsupported(st, fr, "break in unrolled loop")
                self._rejoin_continues(fr, nc, lc_it)
            return
        self._abstract_loop(st, fr, it)

    def exec_while(self, st: ast.While, fr: Frame):
        """`while <test>: body` -- an unknown number of iterations: the body is evaluated once for an arbitrary iteration,
        text / list accumulators become repetitions, every other name the body rebinds holds an unknown value of that
        iteration (`loopvar`) while the body runs and an unknown value (`loopval`) or the value before the loop afterwards"""
        if st.orelse:
            self.unsupported(st, fr, "while-else")
        tv = self.truth(self.as_cond(self.eval(st.test, fr)))
        if tv is False:
            return
        self.idx_while = getattr(self, "idx_while", 0) + 1
        it = Sym("while", (ast.unparse(st.test), self.idx_while))
        self._abstract_loop(st, fr, it, test=st.test)

    def _abstract_loop(self, st, fr: Frame, it, test=None):
        # abstract iteration: body once, accumulators recognised
        stores = set()
        for n in ast.walk(st):
            if isinstance(n, ast.Name) and isinstance(n.ctx, ast.Store):
                stores.add(n.id)
            if isinstance(n, ast.Call) and isinstance(n.func, ast.Attribute) and isinstance(n.func.value, ast.Name) \
                    and n.func.attr in ("append", "extend", "add", "insert"):
                stores.add(n.func.value.id)
        before = dict(fr.env)
        carry = {}
        for name in stores:
            cur = before.get(name)
            if isinstance(cur, (Str,)) or (isinstance(cur, Const) and isinstance(cur.value, str)):
                carry[name] = "str"
                fr.env[name] = Str((Hole(Sym("carry", (name,)), "carry"),))
            elif isinstance(cur, ListV):
                carry[name] = "list"
                fr.env[name] = ListV((One(Sym("carry", (name,))),), cur.kind)
            elif test is not None and cur is not None:
                # a name the body of a while loop rebinds (`node = node.parent`): its value in an arbitrary iteration
                fr.env[name] = Sym("loopvar", (name, cur, it))
        if test is None:
            self.assign(st.target, Sym("elem", (it,)), fr, st)
        done0 = len(fr.done)
        lc0 = list(fr.live_cond)
        fr.live_cond = lc0 + [Sym("in-loop", (it,))]
        if test is not None:
            tc = self.as_cond(self.eval(test, fr))
            if not (isinstance(tc, Const) and tc.value is True):
                fr.live_cond = fr.live_cond + [tc]
        fr.in_loop += 1
        nb = len(fr.breaks)
        nc = len(fr.continues)
        depth = len(fr.live_cond)
        lc_it = list(fr.live_cond)
        self.exec_block(st.body, fr)
        self._rejoin_continues(fr, nc, lc_it)
        fr.in_loop -= 1
        my_breaks = fr.breaks[nb:]
        del fr.breaks[nb:]
        broke = bool(my_breaks)
        end_env = fr.env if fr.live else None
        for bconds, benv in my_breaks:
            bc = conj(bconds[depth:])
            end_env = benv if end_env is None else self.join_env(bc, benv, end_env)
        fr.env = end_env if end_env is not None else dict(before)
        fr.live = True
        fr.live_cond = lc0
        after = fr.env
        # a rendering context bound before the loop and rebound inside it: every later iteration sees the rebound one
        for name in stores:
            b_, a_ = before.get(name), after.get(name)
            if isinstance(b_, CtxV) and a_ is not None and a_ is not b_ and a_ != b_:
                self.notes.append(("ctx-loop-carried", self.src(fr, st), name))
        newenv = dict(before)
        for name in stores:
            val = after.get(name)
            kind = carry.get(name)
            if kind == "str" and isinstance(val, Str):
                base = self.as_str_or_none(before[name]) or EMPTY
                parts = val.parts
                if parts and isinstance(parts[0], Hole) and parts[0].via == "carry":
                    newenv[name] = concat(base, Str((Rep(Str(parts[1:]), EMPTY, it, broke),)))
                else:
                    newenv[name] = concat(base, Str((Opaque("loop-rebound", (val,)),)))
            elif kind == "list" and isinstance(val, ListV):
                items = val.items
                if items and isinstance(items[0], One) and isinstance(items[0].value, Sym) and items[0].value.kind == "carry":
                    body = items[1:]
                    newenv[name] = ListV(before[name].items + ((RepI(body, it, broke),) if body else ()), before[name].kind)
                elif items and isinstance(items[-1], One) and isinstance(items[-1].value, Sym) and items[-1].value.kind == "carry":
                    body = items[:-1]      # built by insert(0, ...): the repetition precedes what was there
                    newenv[name] = ListV(((RepI(body, it, broke),) if body else ()) + before[name].items, before[name].kind)
                else:
                    newenv[name] = Sym("loopval", (name,))
            elif name in after and (name not in before or after[name] is not before.get(name)):
                prev = before.get(name)
                newenv[name] = Phi(Sym("loop-ran", (it,)), Sym("loopval", (name, after[name])), prev) if prev is not None else Sym("loopval", (name, after[name]))
        fr.env = newenv

    # ------------------------------------------------------------------ expressions
    def eval_in_module(self, e: ast.expr, m: Module, cls: ClassInfo | None = None):
        fr = Frame(FuncInfo.__new__(FuncInfo), cls, None, m)
        fr.func = _ModuleFunc(m)
        return self.eval(e, fr)

    def eval(self, e, fr: Frame):
        m = getattr(self, "e_" + type(e).__name__, None)
        if m is None:
            self.unsupported(e, fr)
        return m(e, fr)

    def e_Constant(self, e, fr):
        return Const(e.value)

    def e_Name(self, e, fr):
        if e.id in fr.env:
            return fr.env[e.id]
        return self.global_name(e.id, fr.module, fr)

    def global_name(self, name: str, m: Module, fr=None):
        r = self.p.resolve_global(m, name)
        if r is None:
            if fr is not None and fr.recv_cls is not None and name in getattr(fr.recv_cls, "nested", {}):
                return ClassRef(fr.recv_cls.nested[name])
            # a class attribute expression naming an earlier attribute of the same class body (class scope)
            if fr is not None and isinstance(getattr(fr, "func", None), _ModuleFunc) and fr.recv_cls is not None and name in fr.recv_cls.class_attrs \
                    and name not in getattr(self, "_class_scope_busy", set()):
                busy = self.__dict__.setdefault("_class_scope_busy", set())
                busy.add(name)
                try:
                    return self.eval_in_module(fr.recv_cls.class_attrs[name], fr.recv_cls.module, fr.recv_cls)
                finally:
                    busy.discard(name)
            return Builtin(name)
        if r[0] == "class":
            return ClassRef(r[1])
        if r[0] == "func":
            return FuncRef(r[1])
        if r[0] == "const":
            key = (r[1].name, name)
            if key not in self._const_cache:
                self._const_cache[key] = Sym("global", (name,))
                if isinstance(r[2], ast.Call) and isinstance(r[2].func, ast.Name) and r[2].func.id == "object" and not r[2].args and not r[2].keywords:
                    # a module-level sentinel: one object, identical to itself and to nothing else
                    self._const_cache[key] = Sym("sentinel", (r[1].name, name))
                else:
                    self._const_cache[key] = self.eval_in_module(r[2], r[1])
            return self._const_cache[key]
        if r[0] == "module":
            return Sym("module", (r[1].name,))
        if r[1] in ("typing.cast", "copy.copy", "copy.deepcopy", "functools.reduce"):
            return Builtin(r[1].split(".")[-1])
        if r[1] == "dataclasses.fields":
            return Builtin("dcfields")
        return Sym("extern", (r[1],))

    def e_Attribute(self, e, fr):
        base = self.eval(e.value, fr)
        return self.getattr(base, e.attr, fr, e)

    def getattr(self, base, name: str, fr, node=None):
        if isinstance(base, Sym) and base.kind == "dcfield" and name == "name":
            return Const(base.args[0])
        if isinstance(base, Sym) and base.kind == "extern" and f"{base.args[0]}.{name}" in ("typing.cast", "copy.copy", "copy.deepcopy", "functools.reduce"):
            return Builtin(name)
        if isinstance(base, CtxV):
            if name in base.fields:
                return base.fields[name]
            if name == "copy":
                return Sym("ctx-copy", (base,))
            return Sym("attr", (base, name))
        if isinstance(base, Phi):
            return self.merge(base.cond, self.getattr(base.a, name, fr, node), self.getattr(base.b, name, fr, node))
        if isinstance(base, Obj):
            if name in base.attrs:
                return base.attrs[name]
            f = base.cls.resolve(name)
            if f is not None:
                if f.is_property:
                    if base.root and self.stack.count(f) == 0 and len(self.stack) < self.max_depth:
                        # a property of the object being analysed is just a parameterless helper: inline its getter
                        return self.call_function(f, base.cls, base, [], {}, self.src(fr, node) if node is not None and fr is not None else ())
                    return Sym("attr", (base, name))
                return FuncRef(f, base, base.cls)
            inst_kinds = {k for k in self.p.attr_kinds(base.cls).get(name, set()) if not k.startswith("class:")}
            ca = base.cls.class_attr(name)
            if ca is not None and not inst_kinds:
                if name in self.mutated_class_state():
                    return Sym("attr", (base, name))      # a class-level container that some function writes: contents unknown
                return self.eval_in_module(ca[1], ca[0].module, ca[0])
            if name == "__class__":
                return ClassRef(base.cls)
            return Sym("attr", (base, name))
        if isinstance(base, ClassRef):
            c = base.cls
            if c in self.enum_classes and name in c.class_attrs:
                ce = c.class_attrs[name]
                if isinstance(ce, ast.Constant):
                    return EnumV(c.name, name, ce.value)
            f = c.resolve(name)
            if f is not None:
                return FuncRef(f, None if f.is_static else base, c)
            ca = c.class_attr(name)
            if ca is not None:
                return self.eval_in_module(ca[1], ca[0].module, ca[0])
            if name in c.nested:
                return ClassRef(c.nested[name])
            if name == "__name__":
                return Const(c.name)
            return Sym("attr", (base, name))
        if isinstance(base, EnumV):
            if name == "value":
                return Const(base.value)
            if name == "name":
                return Const(base.name)
        if isinstance(base, Const) and base.value is None:
            return Sym("attr", (base, name))
        if isinstance(base, Sym) and base.kind == "module":
            m = self.p.modules.get(base.args[0])
            if m is not None:
                return self.global_name(name, m)
        if isinstance(base, Sym) and base.kind == "super":
            return Sym("super-attr", (base, name))
        if isinstance(base, Sym) and base.kind == "typed" and name == "value" and "Enum" in base.args[1]:
            return Sym("typed", (base.args[0] + ".value", base.args[2], frozenset()))
        if name == "SQL_CONTEXT" and isinstance(base, Sym):
            # the context record of a query class only known symbolically: every field is re-derived from it
            rec = Sym("attr", (base, name))
            return CtxV({f: Sym("attr", (rec, f)) for f in CTX_FIELDS}, False, "rederived")
        return Sym("attr", (base, name))

    def e_Subscript(self, e, fr):
        base = self.eval(e.value, fr)
        if isinstance(e.slice, ast.Slice):
            lo = self.eval(e.slice.lower, fr) if e.slice.lower is not None else None
            hi = self.eval(e.slice.upper, fr) if e.slice.upper is not None else None
            s = self.as_str_or_none(base)
            if s is not None:
                return Str((Opaque("slice", (s,), self.src(fr, e), (lo, hi)),))
            return Sym("slice", (base, lo, hi))
        return self.item(base, self.eval(e.slice, fr))

    def item(self, base, key):
        if isinstance(base, ListV) and isinstance(key, Const) and isinstance(key.value, int):
            ones = [i for i in base.items]
            if all(isinstance(i, One) and i.cond is None for i in ones) and -len(ones) <= key.value < len(ones):
                return ones[key.value].value
        if isinstance(base, DictV):
            for k, v in base.items:
                if k == key:
                    return v
        if isinstance(base, Phi):
            return self.merge(base.cond, self.item(base.a, key), self.item(base.b, key))
        return Sym("item", (base, key))

    def e_Tuple(self, e, fr):
        items = []
        for x in e.elts:
            if isinstance(x, ast.Starred):
                v = self.consume_lazy(self.eval(x.value, fr))
                if isinstance(v, ListV):
                    items.extend(v.items)
                else:
                    items.append(RepI((One(Sym("elem", (v,))),), v))
            else:
                items.append(One(self.eval(x, fr)))
        return ListV(tuple(items), "tuple")

    def e_List(self, e, fr):
        items = []
        for x in e.elts:
            if isinstance(x, ast.Starred):
                v = self.eval(x.value, fr)
                if isinstance(v, ListV):
                    items.extend(v.items)
                else:
                    items.append(RepI((One(Sym("elem", (v,))),), v))
            else:
                items.append(One(self.eval(x, fr)))
        return ListV(tuple(items), "list")

    def e_Set(self, e, fr):
        return ListV(tuple(One(self.eval(x, fr)) for x in e.elts), "set")

    def e_Dict(self, e, fr):
        items = []
        for k, v in zip(e.keys, e.values):
            if k is None:                       # {**other}
                o = self.eval(v, fr)
                if not isinstance(o, DictV):
                    self.unsupported(e, fr, "dict display spreading a non-constant mapping")
                for kk, vv in o.items:
                    items = [(a, b) for a, b in items if self.concrete(a) is _NO or self.concrete(a) != self.concrete(kk)] + [(kk, vv)]
            else:
                items.append((self.eval(k, fr), self.eval(v, fr)))
        return DictV(tuple(items))

    def e_Lambda(self, e, fr):
        return LambdaV(e, dict(fr.env), fr)

    def e_NamedExpr(self, e, fr):
        v = self.eval(e.value, fr)
        self.assign(e.target, v, fr, e)
        return v

    def e_IfExp(self, e, fr):
        c = self.as_cond(self.eval(e.test, fr))
        t = self.truth(c)
        if t is True:
            return self.eval(e.body, fr)
        if t is False:
            return self.eval(e.orelse, fr)
        return self.merge(c, self.eval(e.body, fr), self.eval(e.orelse, fr))

    def e_UnaryOp(self, e, fr):
        v = self.eval(e.operand, fr)
        if isinstance(e.op, ast.Not):
            if isinstance(v, CtxV) and v.maybe_none:
                return negate(Sym("ctx-present", ()))
            t = self.truth(v)
            return Const(not t) if t is not None else negate(v)
        if isinstance(v, Const) and isinstance(v.value, (int, float)):
            return Const(-v.value if isinstance(e.op, ast.USub) else +v.value)
        return Sym("op", (type(e.op).__name__, v))

    def e_BoolOp(self, e, fr):
        is_and = isinstance(e.op, ast.And)
        vals = []
        for x in e.values:
            v = self.eval(x, fr)
            t = self.truth(v)
            if is_and:
                if t is False:
                    return v if not vals else self._boolop(True, vals + [v])
                if t is True and x is not e.values[-1]:
                    continue
            else:
                if t is True:
                    return v if not vals else self._boolop(False, vals + [v])
                if t is False and x is not e.values[-1]:
                    continue
            vals.append(v)
        if len(vals) == 1:
            return vals[0]
        return self._boolop(is_and, vals)

    def _boolop(self, is_and: bool, vals: list):
        if not is_and and len(vals) == 2:
            a, b = vals
            if isinstance(a, CtxV) and a.maybe_none and isinstance(b, CtxV):
                return self.merge_ctx(Sym("ctx-present", ()), a.with_(), b)
            if isinstance(a, CtxV) and a.maybe_none and isinstance(b, Sym) and b.kind == "attr" and b.args[1] == "SQL_CONTEXT":
                # `ctx or <query class held in an attribute>.SQL_CONTEXT`: a default context whose record is not known here
                return self.merge_ctx(Sym("ctx-present", ()), a.with_(), CtxV({k: Sym("attr", (b, k)) for k in CTX_FIELDS}, False, "default-of-unknown-class"))
            r = self._or2(a, b)
            if r is not None:
                return r
        if len(vals) == 2 and (show(negate(vals[0]), -20) == show(vals[1], -20)):
            return Const(not is_and)          # `x or not x` / `x and not x`
        return Sym("op", ("and" if is_and else "or",) + tuple(vals))

    def _or2(self, a, b, depth=0):
        """`a or b` where a is a conditional value / rendered text: the choice is kept visible as an alternative"""
        if depth > 6:
            return None
        if isinstance(a, Phi):
            x = self._or2(a.a, b, depth + 1) if self.truth(a.a) is None else (a.a if self.truth(a.a) else b)
            y = self._or2(a.b, b, depth + 1) if self.truth(a.b) is None else (a.b if self.truth(a.b) else b)
            if x is None or y is None:
                return None
            return self.merge(a.cond, x, y)
        if isinstance(a, Str) and isinstance(b, Str):
            return s_alt(Sym("op", ("truthy", a)), a, b)
        return None

    def e_Compare(self, e, fr):
        left = self.eval(e.left, fr)
        out = []
        for op, rhs in zip(e.ops, e.comparators):
            right = self.eval(rhs, fr)
            r = self.compare(op, left, right)
            out.append(r)
            left = right
        if len(out) == 1:
            return out[0]
        return conj(out)

    def compare(self, op, a, b):
        name = {ast.Eq: "==", ast.NotEq: "!=", ast.Is: "is", ast.IsNot: "is not", ast.In: "in", ast.NotIn: "not in",
                ast.Lt: "<", ast.LtE: "<=", ast.Gt: ">", ast.GtE: ">="}[type(op)]
        ka, kb = self.concrete(a), self.concrete(b)
        if ka is not _NO and kb is not _NO:
            try:
                if name == "==":
                    return Const(ka == kb)
                if name == "!=":
                    return Const(ka != kb)
                if name == "is":
                    return Const(ka is kb or (ka == kb and (ka is None or isinstance(ka, (bool, _EnumKey)))))
                if name == "is not":
                    return Const(not (ka is kb or (ka == kb and (ka is None or isinstance(ka, (bool, _EnumKey))))))
                if name == "in":
                    return Const(ka in kb)
                if name == "not in":
                    return Const(ka not in kb)
                if name == "<":
                    return Const(ka < kb)
                if name == "<=":
                    return Const(ka <= kb)
                if name == ">":
                    return Const(ka > kb)
                if name == ">=":
                    return Const(ka >= kb)
            except TypeError:
                pass
        # membership in a mapping whose keys are all known
        if name in ("in", "not in") and isinstance(b, DictV) and ka is not _NO:
            keys = [self.concrete(k_) for k_, _ in b.items]
            if all(k_ is not _NO for k_ in keys):
                try:
                    return Const((ka in keys) == (name == "in"))
                except TypeError:
                    pass
        # a module-level sentinel (`_UNSET = object()`) is identical to itself and to no other value
        if name in ("is", "is not") and any(isinstance(x, Sym) and x.kind == "sentinel" for x in (a, b)):
            if isinstance(a, Sym) and isinstance(b, Sym) and a.kind == b.kind == "sentinel":
                return Const((a.args == b.args) == (name == "is"))
            other = b if isinstance(a, Sym) and a.kind == "sentinel" else a
            if not (isinstance(other, Sym) and other.kind in ("getattr-default", "global")) and not isinstance(other, Phi):
                return Const(name == "is not")
        # object vs None
        if name in ("is", "is not") and isinstance(b, Const) and b.value is None and self._is_plain_value(a):
            return Const(name == "is not")
        # `(x or self.name) is None`: an `or` answers with its last operand when the others are falsy; a last operand that is
        # declared a (non-optional) scalar is never None
        if (name in ("is", "is not") and isinstance(b, Const) and b.value is None and isinstance(a, Sym) and a.kind == "op" and a.args[0] == "or"
                and isinstance(a.args[-1], Sym) and a.args[-1].kind == "attr" and isinstance(a.args[-1].args[0], Obj)
                and self._declared_scalar_attr(a.args[-1].args[0].cls, a.args[-1].args[1], allow_none=False)):
            return Const(name == "is not")
        # `value is True` / `value is False` on a value of known kind: only a bool can be one of the two singletons
        if name in ("is", "is not") and isinstance(b, Const) and isinstance(b.value, bool) and (
                isinstance(a, Str) or (isinstance(a, Sym) and a.kind == "call" and self._is_plain_value(a))):
            return Const(name == "is not")       # text (str(), .isoformat(), .replace() of a value) is never True / False
        if name in ("is", "is not") and isinstance(b, Const) and isinstance(b.value, bool) and isinstance(a, Sym) and a.kind == "typed":
            if "bool" not in a.args[1]:
                return Const(name == "is not")
            if a.args[1] == frozenset({"bool"}):
                r = Sym("op", ("is", a, Const(True)))        # one atom for both singletons: `is False` is its negation
                if b.value is False:
                    r = negate(r)
                return r if name == "is" else negate(r)
        if name in ("is", "is not") and isinstance(b, Const) and b.value is None and isinstance(a, (Obj, Str, ListV, EnumV, ClassRef, CtxV, LambdaV, FuncRef, LocalFuncV, PartialV, DictV)):
            if isinstance(a, CtxV) and a.maybe_none:
                r = Sym("ctx-present", ())
                return r if name == "is not" else negate(r)
            return Const(name == "is not")
        return Sym("op", (name, a, b))

    def _declared_scalar_attr(self, cls, name: str, allow_none: bool = True) -> bool:
        """every store `self.<name> = ...` in the class hierarchy is declared as a plain scalar (`self.x: str = ...`, or
        `self.x = <parameter annotated str>`); an undeclared store answers False.  allow_none=False: `str | None` does not
        count (the attribute is never None)"""
        memo = self.p.__dict__.setdefault("_declared_scalar_attr", {})
        key = (cls, name, allow_none)
        if key in memo:
            return memo[key]
        SCALARS = {"str", "int", "bool", "float", "bytes"}

        def scalar(anno) -> bool:
            if anno is None:
                return False
            if isinstance(anno, ast.Constant) and isinstance(anno.value, str):
                try:
                    anno = ast.parse(anno.value, mode="eval").body
                except SyntaxError:
                    return False
            if isinstance(anno, ast.Name):
                return anno.id in SCALARS
            if isinstance(anno, ast.BinOp) and isinstance(anno.op, ast.BitOr):
                parts = [anno.left, anno.right]
                if not allow_none and any(isinstance(x, ast.Constant) and x.value is None for x in parts):
                    return False
                return all(scalar(x) or (isinstance(x, ast.Constant) and x.value is None) for x in parts) and any(scalar(x) for x in parts)
            return False
        stores = ok = 0
        for k in cls.mro:
            for f in k.methods.values():
                if not f.params or f.is_static:
                    continue
                sn = f.params[0]
                a_ = f.node.args
                annos = {x.arg: x.annotation for x in list(a_.posonlyargs) + list(a_.args) + list(a_.kwonlyargs)}
                for n in ast.walk(f.node):
                    tgt = val = anno = None
                    if isinstance(n, ast.AnnAssign):
                        tgt, val, anno = n.target, n.value, n.annotation
                    elif isinstance(n, ast.Assign) and len(n.targets) == 1:
                        tgt, val = n.targets[0], n.value
                    if not (isinstance(tgt, ast.Attribute) and tgt.attr == name and isinstance(tgt.value, ast.Name) and tgt.value.id == sn):
                        continue
                    stores += 1
                    if anno is not None:
                        ok += scalar(anno)
                    elif isinstance(val, ast.Name) and val.id in annos:
                        ok += scalar(annos[val.id])
                    elif isinstance(val, ast.Constant) and isinstance(val.value, (str, int, float, bool)):
                        ok += 1
        memo[key] = stores > 0 and ok == stores
        return memo[key]

    @staticmethod
    def _is_plain_value(v) -> bool:
        """a typed symbolic Python value, or text derived from one: not None, no get_sql"""
        if isinstance(v, Sym) and v.kind == "typed":
            return True
        if isinstance(v, Sym) and v.kind == "call" and v.args and v.args[0] == ".replace" and len(v.args) == 4 and not any(isinstance(a, Sym) and a.kind == "kw" for a in v.args):
            r = v.args[1]      # str.replace(old, new) on a str-kinded value or on text derived from one
            return (isinstance(r, Sym) and r.kind == "typed" and "str" in r.args[1]) or (isinstance(r, Sym) and r.kind == "call" and Evaluator._is_plain_value(r))
        return isinstance(v, Sym) and v.kind == "call" and bool(v.args) and v.args[0] in (".isoformat", "str", ".dumps", ".lower", ".upper") and len(v.args) > 1 \
            and (Evaluator._is_plain_value(v.args[1]) or (isinstance(v.args[1], Sym) and v.args[1].kind == "extern" and len(v.args) > 2 and Evaluator._is_plain_value(v.args[2])))

    def concrete(self, v):
        if isinstance(v, Const):
            return v.value
        if isinstance(v, EnumV):
            return _EnumKey(v.cls, v.name)
        if isinstance(v, ListV) and all(isinstance(i, One) and i.cond is None for i in v.items):
            xs = [self.concrete(i.value) for i in v.items]
            if all(x is not _NO for x in xs):
                return tuple(xs) if v.kind != "set" else frozenset(xs)
        return _NO

    def e_BinOp(self, e, fr):
        a, b = self.eval(e.left, fr), self.eval(e.right, fr)
        if isinstance(e.op, ast.Add):
            return self.add(a, b, fr, e)
        if isinstance(e.op, ast.BitOr) and isinstance(a, DictV) and isinstance(b, DictV):
            keys_b = [k for k, _ in b.items]
            return DictV(tuple((k, v) for k, v in a.items if k not in keys_b) + tuple(b.items))
        if isinstance(e.op, ast.Mod) and isinstance(a, Const) and isinstance(a.value, str):
            return Str((Opaque("%-format", (s_lit(a.value),), self.src(fr, e), (b,)),))
        if isinstance(e.op, ast.Mult) and isinstance(a, Const) and isinstance(b, Const):
            try:
                return Const(a.value * b.value)
            except TypeError:
                pass
        if isinstance(a, Const) and isinstance(b, Const) and isinstance(a.value, (int, float)) and isinstance(b.value, (int, float)):
            try:
                return Const({ast.Sub: lambda x, y: x - y, ast.Mult: lambda x, y: x * y}[type(e.op)](a.value, b.value))
            except Exception:
                pass
        return Sym("op", (type(e.op).__name__, a, b))

    def add(self, a, b, fr, node):
        if isinstance(a, ListV) and isinstance(b, ListV):
            return ListV(a.items + b.items, a.kind)
        sa, sb = self.as_str_or_none(a), self.as_str_or_none(b)
        if sa is not None or sb is not None:
            return concat(sa if sa is not None else self.to_str(a, "concat", fr, node),
                          sb if sb is not None else self.to_str(b, "concat", fr, node))
        if isinstance(a, Const) and isinstance(b, Const):
            try:
                return Const(a.value + b.value)
            except TypeError:
                pass
        if isinstance(a, Phi) or isinstance(b, Phi):
            if isinstance(a, Phi):
                return self.merge(a.cond, self.add(a.a, b, fr, node), self.add(a.b, b, fr, node))
            return self.merge(b.cond, self.add(a, b.a, fr, node), self.add(a, b.b, fr, node))
        return Sym("op", ("+", a, b))

    def to_str(self, v, via: str, fr, node) -> Str:
        """value interpolated into a string"""
        if isinstance(v, Str):
            return v
        if isinstance(v, Const):
            return s_lit(str(v.value) if not isinstance(v.value, str) else v.value, self.src(fr, node))
        if isinstance(v, Phi):
            return s_alt(v.cond, self.to_str(v.a, via, fr, node), self.to_str(v.b, via, fr, node))
        return Str((Hole(v, via, self.src(fr, node)),))

    def e_JoinedStr(self, e, fr):
        out = EMPTY
        for v in e.values:
            if isinstance(v, ast.Constant):
                out = concat(out, s_lit(str(v.value), self.src(fr, e)))
            else:
                val = self.eval(v.value, fr)
                out = concat(out, self.to_str(val, "str" if v.conversion == 115 else "fstring", fr, v))
        return out

    def e_FormattedValue(self, e, fr):
        return self.to_str(self.eval(e.value, fr), "fstring", fr, e)

    def _comp(self, e, fr, kind):
        if len(e.generators) != 1:
            self.unsupported(e, fr, "multi-generator comprehension")
        g = e.generators[0]
        it = self.eval(g.iter, fr)
        saved = dict(fr.env)
        if isinstance(it, ListV) and all(isinstance(i, One) and i.cond is None for i in it.items) and len(it.items) <= 12 and not g.ifs:
            items = []
            for i in it.items:
                self.assign(g.target, i.value, fr, e)
                items.append(One(self.eval(e.elt, fr)))
            fr.env = saved
            return ListV(tuple(items), kind)
        if isinstance(it, ListV) and all(isinstance(i, One) and i.cond is None for i in it.items) and len(it.items) <= 12 and g.ifs:
            # concrete iteration with filters: keep the element when every filter folds to a truth value
            items = []
            decided = True
            for i in it.items:
                self.assign(g.target, i.value, fr, e)
                conds_ = [self.as_cond(self.eval(c, fr)) for c in g.ifs]
                tv = [self.truth(c_) for c_ in conds_]
                if any(t is False for t in tv):
                    continue
                open_ = [c_ for c_, t in zip(conds_, tv) if t is None]
                if open_:
                    # a known element kept under a test that is not decided here: a conditional item
                    lc0 = list(fr.live_cond)
                    fr.live_cond = lc0 + open_
                    items.append(One(self.eval(e.elt, fr), conj(open_)))
                    fr.live_cond = lc0
                else:
                    items.append(One(self.eval(e.elt, fr)))
            fr.env = dict(saved)
            if decided:
                return ListV(tuple(items), kind)
        self.assign(g.target, Sym("elem", (it,)), fr, e)
        filt = conj([self.eval(c, fr) for c in g.ifs]) if g.ifs else None
        elt = self.eval(e.elt, fr)
        fr.env = saved
        return ListV((RepI((One(elt),), it, False, filt),), kind)

    def e_ListComp(self, e, fr):
        return self._comp(e, fr, "list")

    def e_GeneratorExp(self, e, fr):
        return self._comp(e, fr, "gen")

    def e_SetComp(self, e, fr):
        return self._comp(e, fr, "set")

    def e_DictComp(self, e, fr):
        if len(e.generators) != 1:
            self.unsupported(e, fr, "multi-generator comprehension")
        g = e.generators[0]
        it = self.consume_lazy(self.eval(g.iter, fr))
        saved = dict(fr.env)
        if isinstance(it, ListV) and all(isinstance(i, One) and i.cond is None for i in it.items) and len(it.items) <= 16:
            pairs = []
            decided = True
            for i in it.items:
                self.assign(g.target, i.value, fr, e)
                keep = True
                for c_ in g.ifs:
                    tv = self.truth(self.as_cond(self.eval(c_, fr)))
                    if tv is None:
                        decided = False
                        break
                    keep = keep and tv
                if not decided:
                    break
                if keep:
                    pairs.append((self.eval(e.key, fr), self.eval(e.value, fr)))
            fr.env = dict(saved)
            if decided:
                return DictV(tuple(pairs))
        self.assign(g.target, Sym("elem", (it,)), fr, e)
        filt = conj([self.eval(c, fr) for c in g.ifs]) if g.ifs else None
        k = self.eval(e.key, fr)
        v = self.eval(e.value, fr)
        fr.env = saved
        return Sym("dictcomp", (k, v, it, filt))

    def dict_get(self, base, key, default, fr, e):
        if isinstance(base, Phi):
            return self.merge(base.cond, self.dict_get(base.a, key, default, fr, e), self.dict_get(base.b, key, default, fr, e))
        if isinstance(base, DictV):
            result = default
            conc = self.concrete(key)
            if conc is not _NO:
                for k, v in base.items:
                    if self.concrete(k) == conc:
                        return v
                return default
            for k, v in reversed(base.items):
                result = self.merge(Sym("op", ("==", key, k)), v, result)
            return result
        if isinstance(base, Sym) and base.kind == "dictcomp":
            return self.merge(Sym("op", ("in", key, base)), base.args[1], default)
        return None

    def e_Starred(self, e, fr):
        return Sym("starred", (self.eval(e.value, fr),))

    # ------------------------------------------------------------------ calls
    def e_Call(self, e: ast.Call, fr: Frame):
        fn = e.func
        # super().m(...)
        if (isinstance(fn, ast.Attribute) and isinstance(fn.value, ast.Call) and isinstance(fn.value.func, ast.Name)
                and fn.value.func.id == "super"):
            if fr.recv_cls is None or fr.func.cls is None:
                self.unsupported(e, fr, "super() outside a method")
            tgt = fr.recv_cls.resolve_after(fr.func.cls, fn.attr)
            args, kwargs = self.eval_args(e, fr)
            if tgt is None:
                return Sym("call", ("super." + fn.attr,) + tuple(args))
            return self.call_function(tgt, fr.recv_cls, fr.self_v, args, kwargs, self.src(fr, e))
        if isinstance(fn, ast.Attribute):
            base = self.eval(fn.value, fr)
            return self.call_attr(base, fn.attr, e, fr)
        callee = self.eval(fn, fr)
        args, kwargs = self.eval_args(e, fr)
        return self.call_value(callee, args, kwargs, e, fr)

    def eval_args(self, e: ast.Call, fr):
        args = []
        for a in e.args:
            if isinstance(a, ast.Starred):
                v = self.eval(a.value, fr)
                if isinstance(v, ListV) and all(isinstance(i, One) and i.cond is None for i in v.items):
                    args.extend(i.value for i in v.items)
                else:
                    args.append(Sym("starred", (v,)))
            else:
                args.append(self.eval(a, fr))
        kwargs = {}
        for k in e.keywords:
            if k.arg is None:
                v = self.eval(k.value, fr)
                if isinstance(v, DictV):
                    for kk, vv in v.items:
                        if isinstance(kk, Const):
                            kwargs[kk.value] = vv
                else:
                    kwargs["**"] = v
            else:
                kwargs[k.arg] = self.eval(k.value, fr)
        return args, kwargs

    def call_value(self, callee, args, kwargs, e, fr):
        if isinstance(callee, Sym) and callee.kind == "extern" and str(callee.args[0]).rsplit(".", 1)[-1] == "partial" and args:
            return PartialV(args[0], tuple(args[1:]), tuple(kwargs.items()))
        if isinstance(callee, PartialV):
            kw = dict(callee.kwargs)
            kw.update(kwargs)
            return self.call_value(callee.callee, list(callee.args) + list(args), kw, e, fr)
        if isinstance(callee, FuncRef):
            return self.call_function(callee.func, callee.recv_cls, callee.bound, args, kwargs, self.src(fr, e))
        if isinstance(callee, Builtin):
            return self.call_builtin(callee.name, args, kwargs, e, fr)
        if isinstance(callee, LocalFuncV):
            if callee.info is None:
                callee.info = FuncInfo(callee.fr.func.module if hasattr(callee.fr.func, "module") else callee.fr.module, callee.node, None)
                callee.info.__dict__["_local_of"] = callee.fr.func
            qn = f"{getattr(callee.fr.func, 'qualname', '?')}.<locals>.{callee.node.name}"
            callee.info.__dict__["_qualname"] = qn
            return self.call_function(callee.info, callee.fr.recv_cls, callee.fr.self_v, args, kwargs, self.src(fr, e), closure_env=dict(callee.fr.env))
        if isinstance(callee, LambdaV):
            if len(self.stack) > self.max_depth:
                return Sym("call", (callee,) + tuple(args))
            fr2 = Frame(callee.fr.func, callee.fr.recv_cls, callee.fr.self_v, callee.fr.module)
            fr2.env = dict(callee.env)
            for prm, v in zip([a.arg for a in callee.node.args.args], args):
                fr2.env[prm] = v
            return self.eval(callee.node.body, fr2)
        if isinstance(callee, ClassRef) and callee.cls.name == "SqlContext" and "copy" in callee.cls.methods:
            fields = {}
            for k in CTX_FIELDS:
                if k in kwargs:
                    fields[k] = kwargs[k]
                elif k in callee.cls.class_attrs:
                    fields[k] = self.eval_in_module(callee.cls.class_attrs[k], callee.cls.module)
                else:
                    fields[k] = Sym("missing-ctx-field", (k,))
            extra = [k for k in kwargs if k not in CTX_FIELDS]
            if extra:
                self.notes.append(("ctx-unknown-field", self.src(fr, e), extra))
            return CtxV(fields, False, "const")
        if isinstance(callee, ClassRef) and self._is_record_class(callee.cls):
            # typing.NamedTuple / @dataclass without a constructor of its own: the arguments are the fields, in declaration order
            names = []
            for kk in reversed(callee.cls.mro):
                for n_ in kk.class_annos:
                    if n_ not in names:
                        names.append(n_)
            attrs = {}
            for n_, v_ in zip(names, args):
                attrs[n_] = v_
            for k_, v_ in kwargs.items():
                if k_ in names:
                    attrs[k_] = v_
            for n_ in names:
                if n_ not in attrs and n_ in callee.cls.class_attrs:
                    attrs[n_] = self.eval_in_module(callee.cls.class_attrs[n_], callee.cls.module)
            if all(n_ in attrs for n_ in names):
                return Obj(callee.cls, attrs, "new " + callee.cls.name)
        if isinstance(callee, ClassRef):
            return Sym("new", (callee.cls.qualname,) + tuple(args) + tuple(Sym("kw", (k, v)) for k, v in kwargs.items()))
        if isinstance(callee, Phi):
            return self.merge(callee.cond, self.call_value(callee.a, args, kwargs, e, fr), self.call_value(callee.b, args, kwargs, e, fr))
        return Sym("call", (callee,) + tuple(args))

    @staticmethod
    def _is_record_class(c) -> bool:
        if any(k.methods.get("__init__") is not None or k.methods.get("__new__") is not None for k in c.mro):
            return False
        ext = {b.rsplit(".", 1)[-1] for k in c.mro for b in k.extern_bases}
        decos = {d.rsplit(".", 1)[-1] for d in getattr(c, "decorators", [])}
        return "NamedTuple" in ext or "dataclass" in decos

    def call_builtin(self, name, args, kwargs, e, fr):
        a0 = args[0] if args else None
        if (name == "getattr" and len(args) == 3) or (name == "next" and len(args) == 2):
            for sp in slots_in(args[-1]):
                self.eager.append((sp, f"default of {name}()", self.src(fr, e)))
        if name == "str":
            if isinstance(a0, (Str,)):
                return a0
            if isinstance(a0, Const):
                return Const(str(a0.value))
            if isinstance(a0, Obj) and a0.root:
                sf = a0.cls.resolve("__str__")
                if sf is not None:
                    return self.call_function(sf, a0.cls, a0, [], {}, self.src(fr, e))
            return Str((Hole(a0, "str", self.src(fr, e)),))
        if name == "dcfields" and len(args) == 1 and isinstance(a0, (ClassRef, Obj)):
            k_ = a0.cls
            names_ = []
            for kk in reversed(k_.mro):
                for n_ in kk.class_annos:
                    if n_ not in names_:
                        names_.append(n_)
            return ListV(tuple(One(Sym("dcfield", (n_,))) for n_ in names_), "tuple")
        if name == "reduce" and len(args) in (2, 3):
            seq = self.consume_lazy(args[1])
            if isinstance(seq, ListV) and all(isinstance(i, One) and i.cond is None for i in seq.items) and len(seq.items) <= 16:
                vals = [i.value for i in seq.items]
                if len(args) == 3:
                    acc = args[2]
                elif vals:
                    acc, vals = vals[0], vals[1:]
                else:
                    acc = None
                if acc is not None:
                    for v_ in vals:
                        acc = self.call_value(args[0], [acc, v_], {}, e, fr)
                    return acc
        if name in ("copy", "deepcopy") and len(args) == 1:
            # a duplicate renders like its original; a concrete object is cloned so that stores to the clone stay on it
            if isinstance(a0, Obj) and not a0.root:
                return Obj(a0.cls, dict(a0.attrs), a0.name)
            if isinstance(a0, (ListV, DictV, CtxV, Sym, Phi, Const)):
                return a0
        if name == "cast" and len(args) == 2:
            return args[1]
        if name == "len":
            if isinstance(a0, ListV) and all(isinstance(i, One) and i.cond is None for i in a0.items):
                return Const(len(a0.items))
            if isinstance(a0, Const) and isinstance(a0.value, (str, tuple, list)):
                return Const(len(a0.value))
            return Sym("op", ("len", a0))
        if name == "bool":
            t = self.truth(a0)
            return Const(t) if t is not None else Sym("op", ("bool", a0))
        if name == "isinstance" and len(args) == 2:
            return self.isinstance(a0, args[1])
        if name == "setattr" and len(args) == 3 and getattr(self, "apply_writes", False) and isinstance(a0, Obj) and a0.root and isinstance(args[1], Const):
            if any(not (isinstance(c, Const) and c.value is True) for c in fr.live_cond):
                self.unsupported(e, fr, "setattr on self under an undecided condition (constructor mode)")
            a0.attrs[args[1].value] = args[2]
            return Const(None)
        if name == "hasattr" and len(args) == 2 and isinstance(args[1], Const):
            if (self._is_plain_value(a0) or isinstance(a0, (Str, Const))) and args[1].value in ("get_sql", "nodes_", "replace_table"):
                return Const(False)
            if args[1].value in ("get_sql", "nodes_", "replace_table"):
                b0 = a0
                if isinstance(b0, Sym) and b0.kind == "attr" and b0.args[1] == "value" and isinstance(b0.args[0], Sym):
                    b0 = b0.args[0]         # the value of a member of a str/int-mixin Enum is of the mixed-in type
                if isinstance(b0, Sym) and b0.kind == "attr" and isinstance(b0.args[0], Obj) and self._declared_scalar_attr(b0.args[0].cls, b0.args[1]):
                    return Const(False)     # `self.escape: str`: the declared type of the attribute has no such method
                if isinstance(a0, Sym) and a0.kind == "call" and a0.args and a0.args[0] in (".isoformat", ".dumps"):
                    return Const(False)     # datetime.isoformat() / json.dumps(): text whatever the receiver is
            if isinstance(a0, Obj):
                nm = args[1].value
                if nm in getattr(a0, "absent", ()):
                    return Const(False)
                if nm in a0.attrs or a0.cls.resolve(nm) is not None or a0.cls.class_attr(nm) is not None:
                    return Const(True)
                if self.p.attr_kinds(a0.cls).get(nm):
                    return Sym("op", ("hasattr", a0, args[1]))
                return Const(False) if not a0.cls.resolve("__getattr__") else Sym("op", ("hasattr", a0, args[1]))
            return Sym("op", ("hasattr", a0, args[1]))
        if name == "getattr" and len(args) >= 2 and isinstance(args[1], Const):
            nm = args[1].value
            if isinstance(a0, Obj) and len(args) == 3 and nm in getattr(a0, "absent", ()):
                return args[2]
            if isinstance(a0, Obj):
                known = nm in a0.attrs or a0.cls.resolve(nm) is not None or a0.cls.class_attr(nm) is not None or self.p.attr_kinds(a0.cls).get(nm)
                if not known and len(args) == 3 and not a0.cls.resolve("__getattr__"):
                    return args[2]
                v = self.getattr(a0, nm, fr, e)
                if len(args) == 3 and isinstance(v, Sym) and not (nm in a0.attrs):
                    # attribute may be absent on some instances (set conditionally): keep the default visible
                    always = self.always_assigned(a0.cls, nm)
                    return v if always else Sym("getattr-default", (a0, nm, args[2]))
                return v
            if len(args) == 3:
                return Sym("getattr-default", (a0, nm, args[2]))
            return Sym("attr", (a0, nm))
        if name in ("any", "all"):
            if isinstance(a0, ListV) and all(isinstance(i, One) and i.cond is None for i in a0.items):
                ts = [self.truth(i.value) for i in a0.items]
                if name == "any":
                    if any(t is True for t in ts):
                        return Const(True)
                    if all(t is False for t in ts):
                        return Const(False)
                    return Sym("op", ("any",) + tuple(i.value for i, t in zip(a0.items, ts) if t is None))
                if any(t is False for t in ts):
                    return Const(False)
                if all(t is True for t in ts):
                    return Const(True)
                return Sym("op", ("all",) + tuple(i.value for i, t in zip(a0.items, ts) if t is None))
            return Sym("op", (name, a0))
        if name in ("list", "tuple", "sorted", "set", "frozenset"):
            if a0 is None:
                return ListV((), name if name in ("set", "tuple") else "list")
            if isinstance(a0, ListV):
                a0 = self.consume_lazy(a0)
                return ListV(a0.items, "list" if name in ("list", "sorted") else a0.kind)
            return ListV((RepI((One(Sym("elem", (a0,))),), a0),), "list")
        if name == "type" and len(args) == 1 and isinstance(a0, Obj):
            return ClassRef(a0.cls)
        if name == "zip" and any(isinstance(a, DictV) for a in args):
            args = [ListV(tuple(One(k) for k, _ in a.items), "list") if isinstance(a, DictV) else a for a in args]   # iterating a dict yields its keys
        if name == "zip" and args and all(isinstance(a, ListV) and all(isinstance(i, One) and i.cond is None for i in a.items) for a in args):
            n_ = min(len(a.items) for a in args)
            return ListV(tuple(One(ListV(tuple(One(a.items[k].value) for a in args), "tuple")) for k in range(n_)), "list")
        if name == "abs" and isinstance(a0, Const) and isinstance(a0.value, (int, float)):
            return Const(abs(a0.value))
        if name in ("max", "min") and args and all(isinstance(a, Const) and isinstance(a.value, (int, float)) for a in args) and len(args) > 1:
            return Const((max if name == "max" else min)(a.value for a in args))
        if name == "int" and isinstance(a0, Const):
            try:
                return Const(int(a0.value))
            except Exception:
                pass
        if name == "super":
            return Sym("super", ())
        return Sym("call", (name,) + tuple(args))

    def always_assigned(self, c: ClassInfo, attr: str) -> bool:
        """attr is assigned unconditionally at the top level of some __init__ along the MRO"""
        for k in c.mro:
            f = k.methods.get("__init__")
            if f is None:
                continue
            for st in f.node.body:
                if isinstance(st, (ast.Assign, ast.AnnAssign)):
                    ts = st.targets if isinstance(st, ast.Assign) else [st.target]
                    for t in ts:
                        if isinstance(t, ast.Attribute) and t.attr == attr and isinstance(t.value, ast.Name) and t.value.id == f.params[0]:
                            return True
        return False

    @staticmethod
    def typed(name: str, tags, member_tags=("str",)):
        """a symbolic value of known Python kind(s): isinstance() folds on it (used for exhaustive value-kind tables)"""
        return Sym("typed", (name, frozenset(tags), frozenset(member_tags)))

    def _spec_names(self, spec):
        """type names denoted by the second argument of isinstance(), or None when not all are known"""
        items = [i.value for i in spec.items if isinstance(i, One)] if isinstance(spec, ListV) else [spec]
        if isinstance(spec, ListV) and len(items) != len(spec.items):
            return None
        out = set()
        for it in items:
            if isinstance(it, ClassRef):
                out.add(it.cls.name)
            elif isinstance(it, Builtin):
                out.add(it.name)
            elif isinstance(it, Sym) and it.kind == "extern":
                out.add(str(it.args[0]).rsplit(".", 1)[-1])
            elif isinstance(it, Sym) and it.kind == "attr" and isinstance(it.args[0], Sym) and it.args[0].kind in ("extern", "module"):
                out.add(str(it.args[1]))
            else:
                return None
        return out

    def isinstance(self, v, spec):
        if isinstance(v, (ListV, DictV)) and not (isinstance(v, ListV) and v.kind == "gen"):
            # a container built by the code under evaluation: its Python type is known
            names = self._spec_names(spec)
            if names is not None:
                own = {"dict", "Mapping", "MutableMapping"} if isinstance(v, DictV) else {{"list": "list", "tuple": "tuple", "set": "set"}.get(v.kind, "list"), "Sequence", "Iterable", "Collection"}
                if isinstance(v, ListV) and v.kind == "set":
                    own = {"set", "Iterable", "Collection"}
                return Const(bool(names & own))
        if isinstance(v, Sym) and v.kind == "typed":
            names = self._spec_names(spec)
            if names is not None:
                return Const(bool(names & v.args[1]))
        if isinstance(v, (Str, Const)):
            names = self._spec_names(spec)
            if names is not None:
                if isinstance(v, Str):
                    return Const("str" in names)
                return Const(bool({k.__name__ for k in type(v.value).__mro__} & names))
        if self._is_plain_value(v) or (isinstance(v, Sym) and v.kind == "call" and v.args and v.args[0] == ".replace" and len(v.args) > 1 and self._is_plain_value(v.args[1])):
            names = self._spec_names(spec)      # text derived from a typed value is an exact str
            if names is not None and not (isinstance(v, Sym) and v.kind == "typed"):
                return Const("str" in names)
        if isinstance(v, Obj) and not v.root:
            # a supplied child of a known package class: builtin / stdlib types it does not inherit from are excluded
            ext = {b.rsplit(".", 1)[-1] for k in v.cls.mro for b in k.extern_bases}
            items = [i.value for i in spec.items if isinstance(i, One)] if isinstance(spec, ListV) else [spec]
            if (not isinstance(spec, ListV) or len(items) == len(spec.items)) and items:
                verdicts = []
                for it in items:
                    if isinstance(it, ClassRef):
                        verdicts.append(v.cls.is_subclass_of(it.cls) or v.cls is it.cls)
                    else:
                        nm = self._spec_names(it)
                        verdicts.append(None if nm is None else bool(nm & ext))
                if all(x is not None for x in verdicts):
                    return Const(any(verdicts))
        classes = []
        if isinstance(spec, ClassRef):
            classes = [spec.cls]
        elif isinstance(spec, ListV):
            for i in spec.items:
                if isinstance(i, One) and isinstance(i.value, ClassRef):
                    classes.append(i.value.cls)
                else:
                    return Sym("op", ("isinstance", v, spec))
        else:
            if isinstance(v, (Const, Str)) and isinstance(spec, Builtin):
                pyt = {"str": str, "int": int, "bool": bool, "float": float, "tuple": tuple, "list": list, "dict": dict}.get(spec.name)
                if pyt is not None and isinstance(v, Const):
                    return Const(isinstance(v.value, pyt))
                if isinstance(v, Str) and pyt is not None:
                    return Const(pyt is str)
            if isinstance(v, Str) and isinstance(spec, Sym) and spec.kind == "extern":
                return Const(False)   # an abstract string is not an Enum / date / UUID instance
            if isinstance(v, Sym) and v.kind == "call" and v.args and v.args[0] in (".isoformat", "str", ".replace") and isinstance(spec, Builtin):
                return Const(spec.name == "str")
            return Sym("op", ("isinstance", v, spec))
        if isinstance(v, Obj):
            return Const(any(v.cls.is_subclass_of(c) for c in classes))
        if isinstance(v, (Const, EnumV, Str, ListV)):
            return Const(False)
        if isinstance(v, Sym) and v.kind == "call" and v.args and v.args[0] in (".isoformat", "str", ".replace", ".lower", ".upper", ".dumps"):
            return Const(False)  # a str is never an instance of a package class
        return Sym("op", ("isinstance", v, spec))

    def call_attr(self, base, m: str, e: ast.Call, fr: Frame):
        if isinstance(base, Sym) and base.kind == "extern" and f"{base.args[0]}.{m}" in ("typing.cast", "copy.copy", "copy.deepcopy"):
            args, kwargs = self.eval_args(e, fr)
            return self.call_builtin(m, args, kwargs, e, fr)
        if isinstance(base, Phi) and m in ("get", "pop", "setdefault") and not isinstance(base.a, CtxV):
            return self._call_attr(base, m, e, fr)
        if isinstance(base, Phi) and not isinstance(base.a, CtxV) and (
                self.as_str_or_none(base.a) is not None or self.as_str_or_none(base.b) is not None
                or isinstance(base.a, (DictV, Phi, LambdaV)) or isinstance(base.b, (DictV, Phi, LambdaV))):
            args, kwargs = self.eval_args(e, fr)
            return self._apply_phi(base, m, args, kwargs, e, fr)
        return self._call_attr(base, m, e, fr)

    def _apply_phi(self, base, m, args, kwargs, e, fr, depth=0):
        if isinstance(base, Phi) and depth < 12:
            return self.merge(base.cond, self._apply_phi(base.a, m, args, kwargs, e, fr, depth + 1),
                              self._apply_phi(base.b, m, args, kwargs, e, fr, depth + 1))
        s = self.as_str_or_none(base)
        if s is not None and m == "format":
            return self.format(base if isinstance(base, Const) else s, args, kwargs, fr, e)
        if s is not None and m == "join":
            return self.join(s, args[0], fr, e)
        return Sym("call", ("." + m, base) + tuple(args))

    def _call_attr(self, base, m: str, e: ast.Call, fr: Frame):
        # ---- string methods
        s = self.as_str_or_none(base)
        if s is not None and not isinstance(base, Phi):
            if m == "format":
                args, kwargs = self.eval_args(e, fr)
                return self.format(base, args, kwargs, fr, e)
            if m == "join":
                args, _ = self.eval_args(e, fr)
                return self.join(s, args[0], fr, e)
            args, _ = self.eval_args(e, fr)
            if isinstance(base, Const) and all(isinstance(a, Const) for a in args):
                try:
                    return Const(getattr(base.value, m)(*[a.value for a in args]))
                except Exception:
                    pass
            return Str((Opaque("." + m, (s,), self.src(fr, e), tuple(args)),))
        if isinstance(base, Phi) and m in ("format", "join"):
            args, kwargs = self.eval_args(e, fr)

            def app(b):
                bs = self.as_str_or_none(b)
                if bs is None:
                    return Sym("call", ("." + m, b) + tuple(args))
                return self.format(b, args, kwargs, fr, e) if m == "format" else self.join(bs, args[0], fr, e)
            return self.merge(base.cond, app(base.a), app(base.b))
        # ---- context copy
        if isinstance(base, CtxV) and m == "copy":
            args, kwargs = self.eval_args(e, fr)
            if args or "**" in kwargs:
                self.unsupported(e, fr, "ctx.copy with positional/**kwargs")
            bad = [k for k in kwargs if k not in CTX_FIELDS]
            if bad:
                self.notes.append(("ctx-unknown-field", self.src(fr, e), bad))
            return base.with_(**{k: v for k, v in kwargs.items() if k in CTX_FIELDS})
        # ---- any other method the context class itself defines (helper wrapping copy): inlined
        if isinstance(base, CtxV):
            cc = self.p.cls("SqlContext")
            hf = cc.resolve(m)
            if hf is not None:
                args, kwargs = self.eval_args(e, fr)
                return self.call_function(hf, cc, base, args, kwargs, self.src(fr, e))
        # ---- dict.get on constant tables
        if m in ("get", "pop", "setdefault") and len(e.args) == 2 and not e.keywords and not isinstance(base, (Obj, ClassRef, CtxV)):
            # the default of a lookup is evaluated whether or not it is used: render calls inside it are recorded
            args, _ = self.eval_args(e, fr)
            for sp in slots_in(args[1]):
                self.eager.append((sp, f"default of .{m}()", self.src(fr, e)))
            if m == "get":
                r = self.dict_get(base, args[0], args[1], fr, e)
                if r is not None:
                    return r
            return Sym("call", ("." + m, base) + tuple(args))
        if isinstance(base, (DictV, Phi)) and m == "get" and e.args:
            args, _ = self.eval_args(e, fr)
            r = self.dict_get(base, args[0], args[1] if len(args) > 1 else Const(None), fr, e)
            if r is not None:
                return r
        # ---- dict.fromkeys(keys, value)
        if isinstance(base, Builtin) and base.name == "dict" and m == "fromkeys" and e.args:
            args, _ = self.eval_args(e, fr)
            ks = self.consume_lazy(args[0])
            if isinstance(ks, ListV) and all(isinstance(i, One) and i.cond is None for i in ks.items):
                val = args[1] if len(args) > 1 else Const(None)
                return DictV(tuple((i.value, val) for i in ks.items))
        # ---- views of a constant table
        if isinstance(base, DictV) and m in ("items", "keys", "values") and not e.args:
            if m == "items":
                return ListV(tuple(One(ListV((One(k), One(v)), "tuple")) for k, v in base.items), "list")
            return ListV(tuple(One(k if m == "keys" else v) for k, v in base.items), "list")
        # ---- local list methods used as expressions
        if isinstance(base, ListV) and m in ("copy",):
            return base
        # ---- methods on self / known objects
        if isinstance(base, Obj):
            f = base.cls.resolve(m)
            if f is not None:
                args, kwargs = self.eval_args(e, fr)
                if base.root and not self.inline_self and any(isinstance(a, CtxV) for a in list(args) + list(kwargs.values())):
                    return self.slot(base, m, args, kwargs, fr, e)   # own helper kept as a slot (function-local analysis)
                if base.root or not self.is_render_name(m):
                    return self.call_function(f, base.cls, base, args, kwargs, self.src(fr, e))
                return self.slot(base, m, args, kwargs, fr, e)
            if m in base.attrs:
                args, kwargs = self.eval_args(e, fr)
                return self.call_value(base.attrs[m], args, kwargs, e, fr)
        if isinstance(base, ClassRef):
            f = base.cls.resolve(m)
            args, kwargs = self.eval_args(e, fr)
            if f is not None:
                return self.call_function(f, base.cls, None if f.is_static else base, args, kwargs, self.src(fr, e))
            return Sym("call", (f"{base.cls.qualname}.{m}",) + tuple(args))
        if isinstance(base, FuncRef):
            pass
        # ---- date/time.replace(**fields) on a typed value keeps its kind
        if isinstance(base, Sym) and base.kind == "typed" and m == "replace" and base.args[1] & {"time", "date", "datetime"} and e.keywords and not e.args:
            return base
        # ---- unknown receiver
        args, kwargs = self.eval_args(e, fr)
        if isinstance(base, Phi):
            pass
        ctxs = [a for a in list(args) + list(kwargs.values()) if isinstance(a, CtxV)]
        if ctxs or self.is_render_name(m):
            return self.slot(base, m, args, kwargs, fr, e)
        if isinstance(base, Sym) and base.kind == "attr" and isinstance(base.args[0], Sym) and base.args[0].kind == "extern":
            pass
        return Sym("call", ("." + m, base) + tuple(args) + tuple(Sym("kw", (k, v)) for k, v in kwargs.items()))

    RENDER_NAMES = ("get_sql", "get_name_sql", "get_parameterized_sql")

    def is_render_name(self, m: str) -> bool:
        return m in self.RENDER_NAMES

    def slot(self, recv, m, args, kwargs, fr, e) -> Str:
        ctx = None
        rest = []
        for a in list(args) + list(kwargs.values()):
            if isinstance(a, CtxV) and ctx is None:
                ctx = a
            else:
                rest.append(a)
        if ctx is None:
            for a in list(args) + list(kwargs.values()):
                if isinstance(a, Phi) and (isinstance(a.a, CtxV) or isinstance(a.b, CtxV)):
                    ctx = a
        self.idx += 1
        return Str((SlotP(recv, m, ctx, self.idx, self.src(fr, e), tuple(rest)),))

    # ------------------------------------------------------------------ str.format / join
    def format(self, template, args, kwargs, fr, e) -> Str:
        if not (isinstance(template, Const) and isinstance(template.value, str)):
            t = self.as_str_or_none(template)
            return Str((Opaque("format-of-nonconst", (t or EMPTY,), self.src(fr, e), tuple(args)),))
        out = EMPTY
        auto = 0
        try:
            parsed = list(string.Formatter().parse(template.value))
        except ValueError:
            self.unsupported(e, fr, "unparsable format template")
        for lit, fieldname, spec, conv in parsed:
            if lit:
                out = concat(out, s_lit(lit, self.src(fr, e)))
            if fieldname is None:
                continue
            if fieldname == "":
                key = auto
                auto += 1
            elif fieldname.isdigit():
                key = int(fieldname)
            else:
                key = fieldname
            if isinstance(key, int):
                v = args[key] if key < len(args) else Sym("missing-format-arg", (key,))
            else:
                head = key.split(".")[0].split("[")[0]
                v = kwargs.get(head, Sym("missing-format-arg", (key,)))
                if head != key:
                    v = Sym("format-field", (key, v))
            out = concat(out, self.to_str(v, "str" if conv == "s" else "format", fr, e))
        return out

    def consume_lazy(self, seq):
        """a generator expression runs when it is consumed, not where it is written: its render calls are evaluated now"""
        if isinstance(seq, ListV) and seq.kind == "gen":
            order = sorted({sp.idx for sp in slots_in(seq)})
            if order:
                mp = {}
                for o in order:
                    self.idx += 1
                    mp[o] = self.idx
                seq = map_slots(seq, mp)
            return ListV(seq.items, "list")
        return seq

    def join(self, sep: Str, seq, fr, e) -> Str:
        if isinstance(seq, Phi):
            return s_alt(seq.cond, self.join(sep, seq.a, fr, e), self.join(sep, seq.b, fr, e))
        seq = self.consume_lazy(seq)
        if not isinstance(seq, ListV):
            return Str((Rep(Str((Hole(Sym("elem", (seq,)), "format", self.src(fr, e)),)), sep, seq),))
        items = seq.items
        if all(isinstance(i, One) and i.cond is None for i in items):
            out = EMPTY
            for n, i in enumerate(items):
                if n:
                    out = concat(out, sep)
                out = concat(out, self.to_str(i.value, "format", fr, e))
            return out
        if len(items) == 1 and isinstance(items[0], RepI) and len(items[0].body) == 1 and isinstance(items[0].body[0], One) \
                and items[0].body[0].cond is None:
            r = items[0]
            return Str((Rep(self.to_str(r.body[0].value, "format", fr, e), sep, r.source, r.broke, r.filt),))
        conv = []
        for i in items:
            conv.append(self._conv_item(i, fr, e))
        return Str((JoinP(sep, tuple(conv)),))

    def _conv_item(self, i, fr, e):
        if isinstance(i, One):
            return One(self.to_str(i.value, "format", fr, e), i.cond)
        if isinstance(i, CondI):
            return CondI(i.cond, tuple(self._conv_item(x, fr, e) for x in i.items))
        return RepI(tuple(self._conv_item(x, fr, e) for x in i.body), i.source, i.broke, i.filt)

    # ------------------------------------------------------------------ truthiness
    def truth(self, v):
        if isinstance(v, Const):
            return bool(v.value)
        if isinstance(v, (EnumV, ClassRef, FuncRef, Builtin)):
            return True
        if isinstance(v, Obj):
            if v.cls.resolve("__bool__") is None and v.cls.resolve("__len__") is None:
                return True
            return None
        if isinstance(v, Str):
            if not v.parts:
                return False
            if any(isinstance(p, Lit) and p.text for p in v.parts):
                return True
            return None
        if isinstance(v, ListV):
            if not v.items:
                return False
            if any(isinstance(i, One) and i.cond is None for i in v.items):
                return True
            return None
        if isinstance(v, CtxV):
            return None if v.maybe_none else True
        if isinstance(v, Sym) and v.kind == "nonempty":
            return True
        if isinstance(v, Phi):
            ta, tb = self.truth(v.a), self.truth(v.b)
            if ta is not None and ta == tb:
                return ta
        if isinstance(v, Sym) and v.kind == "op" and v.args and v.args[0] in ("and", "or"):
            ts = [self.truth(x) for x in v.args[1:]]
            if v.args[0] == "and":
                if any(t is False for t in ts):
                    return False
                if all(t is True for t in ts):
                    return True
            else:
                if any(t is True for t in ts):
                    return True
                if all(t is False for t in ts):
                    return False
        return None

    def as_cond(self, v):
        """simplify a value used as a condition: Phi(c, truthy, falsy) -> c"""
        if isinstance(v, CtxV) and v.maybe_none:
            return Sym("ctx-present", ())
        if isinstance(v, Phi):
            ta, tb = self.truth(v.a), self.truth(v.b)
            if ta is True and tb is False:
                return v.cond
            if ta is False and tb is True:
                return negate(v.cond)
        if isinstance(v, Str) and len(v.parts) == 1 and isinstance(v.parts[0], Alt):
            alt = v.parts[0]
            ta, tb = self.truth(alt.a), self.truth(alt.b)
            if ta is True and tb is False:
                return alt.cond
            if ta is False and tb is True:
                return negate(alt.cond)
        return v


class _ModuleFunc:
    """pseudo function for module/class-level expression evaluation"""

    def __init__(self, m: Module):
        self.module = m
        self.qualname = f"<module {m.short}>"
        self.cls = None

    def loc(self, node=None):
        return f"{self.module.relpath}:{getattr(node, 'lineno', 0)}"


class _EnumKey(tuple):
    def __new__(cls, c, n):
        return super().__new__(cls, (c, n))


_NO = object()


# ----------------------------------------------------------------------------- traversal helpers
def walk_parts(s, path_conds=(), visit=None, in_rep=False):
    """yield (part, conds, in_rep) for every leaf part in textual order, descending into Alt/Rep/Join/Opaque"""
    if isinstance(s, Str):
        for p in s.parts:
            yield from walk_parts(p, path_conds, visit, in_rep)
    elif isinstance(s, Alt):
        yield from walk_parts(s.a, path_conds + (s.cond,), visit, in_rep)
        yield from walk_parts(s.b, path_conds + (negate(s.cond),), visit, in_rep)
    elif isinstance(s, Rep):
        yield from walk_parts(s.body, path_conds, visit, True)
        yield from walk_parts(s.sep, path_conds, visit, True)
    elif isinstance(s, JoinP):
        for i in s.items:
            yield from walk_parts(i, path_conds, visit, in_rep)
        yield from walk_parts(s.sep, path_conds, visit, True)
    elif isinstance(s, One):
        yield from walk_parts(s.value, path_conds + ((s.cond,) if s.cond is not None else ()), visit, in_rep)
    elif isinstance(s, RepI):
        for i in s.body:
            yield from walk_parts(i, path_conds, visit, True)
    elif isinstance(s, CondI):
        for i in s.items:
            yield from walk_parts(i, path_conds + (s.cond,), visit, in_rep)
    elif isinstance(s, Opaque):
        for i in s.inner:
            yield from walk_parts(i, path_conds, visit, in_rep)
        yield (s, path_conds, in_rep)
    elif isinstance(s, (Lit, Hole, SlotP)):
        yield (s, path_conds, in_rep)
    elif isinstance(s, Phi):
        yield from walk_parts(s.a, path_conds + (s.cond,), visit, in_rep)
        yield from walk_parts(s.b, path_conds + (negate(s.cond),), visit, in_rep)
    elif isinstance(s, Const) and isinstance(s.value, str):
        yield (Lit(s.value), path_conds, in_rep)


def slots_of(v) -> list:
    return [(p, c, r) for p, c, r in walk_parts(v) if isinstance(p, SlotP)]


def values_in(v, kinds=(Str,), _seen=None):
    """all Str values nested anywhere inside a value (through Phi, Sym args, lists, conditions)"""
    out = []

    def rec(x, d=0):
        if d > 12:
            return
        if isinstance(x, Str):
            out.append(x)
            for p in x.parts:
                rec(p, d + 1)
        elif isinstance(x, (Alt,)):
            rec(x.cond, d + 1); rec(x.a, d + 1); rec(x.b, d + 1)
        elif isinstance(x, Rep):
            rec(x.body, d + 1); rec(x.sep, d + 1)
        elif isinstance(x, JoinP):
            for i in x.items:
                rec(i, d + 1)
        elif isinstance(x, One):
            rec(x.value, d + 1)
        elif isinstance(x, RepI):
            for i in x.body:
                rec(i, d + 1)
        elif isinstance(x, CondI):
            rec(x.cond, d + 1)
            for i in x.items:
                rec(i, d + 1)
        elif isinstance(x, Opaque):
            for i in x.inner:
                rec(i, d + 1)
            for i in x.extra:
                rec(i, d + 1)
        elif isinstance(x, Hole):
            rec(x.value, d + 1)
        elif isinstance(x, SlotP):
            rec(x.recv, d + 1)
            for a in x.args:
                rec(a, d + 1)
        elif isinstance(x, Phi):
            rec(x.cond, d + 1); rec(x.a, d + 1); rec(x.b, d + 1)
        elif isinstance(x, Sym):
            for a in x.args:
                rec(a, d + 1)
        elif isinstance(x, ListV):
            for i in x.items:
                rec(i, d + 1)
        elif isinstance(x, (tuple, list)):
            for i in x:
                rec(i, d + 1)
    rec(v)
    return out
