"""Shared name families (confirmed by reading the code; one reason each)."""
from __future__ import annotations

import re

from .model import ClassInfo, FuncInfo, Program

# observers: everything a user can call to *look at* an object without asking for a new one
_OBS_RE = re.compile(r"^(get_\w*sql|_\w+_sql|\w+_clauses?|get_\w+_value|get_table_name)$")
_OBS_NAMES = {
    "get_sql", "get_parameterized_sql", "__str__", "__repr__", "__hash__", "__eq__", "__ne__",
    "nodes_", "find_", "fields_", "tables_", "is_aggregate", "get_formatted_value", "get_value_sql",
    "needs_brackets", "left_needs_parens", "right_needs_parens", "_list_aliases", "is_joined",
    "should_parameterize", "_top_sql", "_rollup_sql", "_recursive_get_sql", "_get_dict_sql",
    "_get_list_sql", "_get_str_sql", "get_arg_sql", "_orderby_field", "_apply_pagination",
    "get_name_sql",
}


def is_observer(f: FuncInfo) -> bool:
    return f.name in _OBS_NAMES or bool(_OBS_RE.match(f.name))


def observers(program: Program) -> list[tuple[FuncInfo, ClassInfo | None]]:
    out = []
    for c in program.all_classes():
        names = []
        for k in c.mro:
            for n in k.methods:
                if n not in names:
                    names.append(n)
        for n in names:
            f = c.resolve(n)
            if f is not None and is_observer(f) and not f.is_builder:
                out.append((f, c))
    for m in program.modules.values():
        for f in m.functions.values():
            if is_observer(f) or f.name in ("format_quotes", "format_alias_sql", "resolve_is_aggregate"):
                out.append((f, None))
    return out
