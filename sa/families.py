"""Shared name families (confirmed by reading the code; one reason each)."""
from __future__ import annotations

import ast

import re

from .model import ClassInfo, FuncInfo, Program

# observers: everything a user can call to *look at* an object without asking for a new one
_OBS_RE = re.compile(r"^(get_\w*sql|_\w+_sql|\w+_clauses?|get_\w+_value|get_table_name)$")
_OBS_NAMES = {
    "get_sql", "get_parameterized_sql", "__str__", "__repr__", "__hash__", "__eq__", "__ne__",
    "nodes_", "find_", "fields_", "tables_", "is_aggregate", "get_formatted_value", "get_value_sql",
    "needs_brackets", "left_needs_parens", "right_needs_parens", "_list_aliases", "is_joined",
    "should_parameterize", "_top_sql", "_rollup_sql", "_recursive_get_sql", "_get_dict_sql",
    "_get_list_sql", "_get_str_sql", "get_arg_sql", "_orderby_field", "_apply_pagination",
    "get_name_sql",
}


def is_observer(f: FuncInfo) -> bool:
    if f.name in _OBS_NAMES:
        return True
    # a name of the rendering family, and the signature of a renderer: (self) or (self, ..., ctx, ...); a method that is
    # handed tables to exchange or terms to add is not an observer whatever it is called
    return bool(_OBS_RE.match(f.name)) and (has_ctx_param(f) or len(f.params) <= 1)


def has_ctx_param(f: FuncInfo) -> bool:
    """a rendering-context parameter: named ctx / <something>_ctx, or annotated SqlContext"""
    a = f.node.args
    for p in list(a.posonlyargs) + list(a.args) + list(a.kwonlyargs):
        if p.arg == "ctx" or p.arg.endswith("_ctx"):
            return True
        if p.annotation is not None and "SqlContext" in ast.unparse(p.annotation):
            return True
    return False


def observers(program: Program) -> list[tuple[FuncInfo, ClassInfo | None]]:
    out = []
    for c in program.all_classes():
        names = []
        for k in c.mro:
            for n in k.methods:
                if n not in names:
                    names.append(n)
        for n in names:
            f = c.resolve(n)
            if f is not None and is_observer(f) and not f.is_builder:
                out.append((f, c))
    for m in program.modules.values():
        for f in m.functions.values():
            if is_observer(f) or f.name in ("format_quotes", "format_alias_sql", "resolve_is_aggregate"):
                out.append((f, None))
    return out


def memo_methods(program):
    """methods decorated with a memoising decorator (value stored on / keyed by the instance)"""
    MEMO = {"cached_property", "lru_cache", "cache"}
    return [(f, sorted(MEMO & set(f.decorators))[0]) for c in program.all_classes() for f in c.methods.values() if MEMO & set(f.decorators)]


def one_shot_reuse_sites(program):
    """local variables bound to a one-shot iterator (generator expression, map/filter/zip/iter/itertools.*, call of a
    generator function) that are consumed more than once or inside a loop that does not re-create them:
    (function, variable, description, node of the second/looped use)"""
    import ast
    LAZY = {"map", "filter", "zip", "iter", "reversed", "enumerate", "chain", "from_iterable", "islice", "starmap", "takewhile", "dropwhile", "groupby", "accumulate", "product"}
    gens = set()
    for f in program.all_functions():
        nested = {id(y) for d in ast.walk(f.node) if isinstance(d, (ast.FunctionDef, ast.Lambda)) and d is not f.node for y in ast.walk(d) if isinstance(y, (ast.Yield, ast.YieldFrom))}
        if any(isinstance(y, (ast.Yield, ast.YieldFrom)) and id(y) not in nested for y in ast.walk(f.node)):
            gens.add(f.name)

    def lazy(e):
        if isinstance(e, ast.GeneratorExp):
            return "a generator expression"
        if isinstance(e, ast.Call):
            fn = e.func
            nm = fn.id if isinstance(fn, ast.Name) else (fn.attr if isinstance(fn, ast.Attribute) else None)
            if nm in LAZY:
                return f"{nm}(...)"
            if nm in gens and isinstance(fn, ast.Attribute):
                return f"a call of the generator function {nm}"
        return None
    out = []
    for f in program.all_functions():
        parents = {}
        for n in ast.walk(f.node):
            for ch in ast.iter_child_nodes(n):
                parents[ch] = n
        for n in ast.walk(f.node):
            if not (isinstance(n, ast.Assign) and len(n.targets) == 1 and isinstance(n.targets[0], ast.Name)):
                continue
            desc = lazy(n.value)
            if not desc:
                continue
            var = n.targets[0].id
            # loops enclosing the assignment
            def loops_of(x):
                ls = []
                while x in parents:
                    x = parents[x]
                    if isinstance(x, (ast.For, ast.While, ast.ListComp, ast.SetComp, ast.GeneratorExp, ast.DictComp)):
                        ls.append(x)
                return ls
            own_loops = set(map(id, loops_of(n)))
            uses = [u for u in ast.walk(f.node) if isinstance(u, ast.Name) and u.id == var and isinstance(u.ctx, ast.Load) and getattr(u, "lineno", 0) >= n.lineno]
            # re-assignments of the same name make this too imprecise to judge
            if sum(1 for a in ast.walk(f.node) if isinstance(a, ast.Assign) and any(isinstance(t, ast.Name) and t.id == var for t in a.targets)) > 1:
                continue
            def once(lp, u):
                """the use sits in the part of the loop construct that is evaluated once (the iterable of a for statement,
                the first iterable of a comprehension / generator expression)"""
                it = lp.iter if isinstance(lp, ast.For) else (lp.generators[0].iter if isinstance(lp, (ast.ListComp, ast.SetComp, ast.GeneratorExp, ast.DictComp)) else None)
                return it is not None and any(x is u for x in ast.walk(it))
            looped = [u for u in uses if any(id(lp) not in own_loops and not once(lp, u) for lp in loops_of(u))]
            if looped:
                out.append((f, var, desc, looped[0], "is consumed inside a loop that does not re-create it: from the second iteration on it is empty"))
            elif len(uses) > 1:
                out.append((f, var, desc, uses[1], "is consumed at more than one place: the second consumer finds it empty"))
    return out


def api_name(c: ClassInfo, f: FuncInfo) -> str:
    """The public name under which a private @builder worker is reached: `def where(self, x): ... return self._where(x)`
    makes `_where` the body of `where`.  Reviewed tables keyed by method name use this name."""
    if not f.name.startswith("_") or f.name.startswith("__"):
        return f.name
    for k in c.mro:
        for n, g in k.methods.items():
            if g is f or g.is_builder or n.startswith("_") or not g.params:
                continue
            for node in ast.walk(g.node):
                if (isinstance(node, ast.Return) and isinstance(node.value, ast.Call) and isinstance(node.value.func, ast.Attribute)
                        and node.value.func.attr == f.name and isinstance(node.value.func.value, ast.Name) and node.value.func.value.id == g.params[0]):
                    return n
    return f.name



def is_module_function(program: Program, qual: str) -> bool:
    """qualified name of a module-level function (`utils.format_quotes`, `queries._cte_sql`) rather than of a method:
    findings inside such helpers are attributed to the method that calls them, so that moving a piece of a renderer
    into a helper function does not rename the finding"""
    if "." not in qual:
        return True
    memo = program.__dict__.setdefault("_is_module_function", {})
    head = qual.rsplit(".", 1)[0]
    if head not in memo:
        memo[head] = program.find_cls(head) is None
    return memo[head]


def early_drop_guards(program: Program):
    """`return` statements (without a value) in a method that come before the method accumulates its argument into a
    clause container (`self._xs.append(arg)`) or hands it to a validating helper (one that can raise), together with the
    tests that guard them: [(function, return node, [guard tests], [("acc", attr) | ("val", helper)], parameter attributes
    read by the guards)].  A guard that looks at a *projection* of the argument decides from that projection alone that
    the argument may be dropped / need not be validated."""
    cache = program.__dict__.get("_early_drop_guards")
    if cache is not None:
        return cache
    out = []

    def can_raise(g) -> bool:
        return any(isinstance(n, ast.Raise) for n in ast.walk(g.node))

    for f in program.all_functions():
        if f.cls is None or not f.params or f.is_static:
            continue
        sn = f.params[0]
        prms = set(f.params[1:]) | ({f.vararg} if f.vararg else set())
        if not prms:
            continue
        events = []

        def walk(stmts, guards):
            for st in stmts:
                if isinstance(st, ast.If):
                    walk(st.body, guards + [st.test])
                    walk(st.orelse, guards + [st.test])
                elif isinstance(st, ast.Return) and st.value is None:
                    events.append(("ret", st, list(guards)))
                elif isinstance(st, (ast.For, ast.While, ast.With, ast.Try)):
                    walk(getattr(st, "body", []), guards)
                else:
                    for n in ast.walk(st):
                        if isinstance(n, ast.Call) and isinstance(n.func, ast.Attribute) and isinstance(n.func.value, ast.Name) and n.func.value.id == sn:
                            g = f.cls.resolve(n.func.attr)
                            if g is not None and can_raise(g) and any(isinstance(a, ast.Name) and a.id in prms for a in n.args):
                                events.append(("val", st, n.func.attr))
                        if (isinstance(n, ast.Call) and isinstance(n.func, ast.Attribute) and n.func.attr in ("append", "add") and isinstance(n.func.value, ast.Attribute)
                                and isinstance(n.func.value.value, ast.Name) and n.func.value.value.id == sn and any(isinstance(a, ast.Name) and a.id in prms for a in n.args)):
                            events.append(("acc", st, n.func.value.attr))
        walk(f.node.body, [])
        for kind, st, guards in [e for e in events if e[0] == "ret"]:
            later = [(e[0], e[2]) for e in events if e[0] in ("val", "acc") and e[1].lineno > st.lineno]
            if not later or not guards:
                continue
            read = set()
            for g in guards:
                for n in ast.walk(g):
                    if isinstance(n, ast.Attribute) and isinstance(n.value, ast.Name) and n.value.id in prms:
                        read.add(n.attr)
            out.append((f, st, guards, later, read))
    program.__dict__["_early_drop_guards"] = out
    return out


def inherit_history_dependence(program, run, pid: str, func_pattern: str, consequence: str, floor: int = 1) -> int:
    """Shared by the properties whose statement is about one rendering of one object: their mechanism must not keep
    state between renderings (a memo on the term, on the class, on the parameterizer) -- otherwise what is printed depends
    on what was rendered before, and an object used in two statements (or twice in one) violates the property although a
    fresh object does not.  The facts are C02's (render purity, memoising decorators) and C01's (writes to the receiver
    outside a builder); here they are re-read for the functions of this property's mechanism (`func_pattern`, a regular
    expression over `Class.method`) and reported under this property's name with its own consequence.  Returns the number
    of C02/C01 obligations that concern those functions (an anchor floor for the caller)."""
    import re
    from .report import Run
    from .props import c01, c02
    rx = re.compile(func_pattern)
    memo = program.__dict__.setdefault("_history_sub", {})
    n = 0
    for mod, prefix_ok in ((c02, ("C02/render-write:", "C02/memo-on-copied-object:", "C02/nondeterministic:", "C02/one-shot-iterator-in-state:")),
                           (c01, ("C01/receiver-write-outside-builder:",))):
        sub = memo.get(mod.__name__)
        if sub is None:
            sub = Run(mod.__name__.rsplit(".", 1)[-1].upper(), run.tier)
            mod.check(program, sub)
            memo[mod.__name__] = sub
        for o in sub.obligations:
            if rx.search(o.subject or ""):
                n += 1
        for fd in sub.findings:
            if fd.info or not fd.key.startswith(prefix_ok):
                continue
            rest = fd.key.split(":", 1)[1]
            if not rx.search(rest):
                continue
            run.finding(f"{pid}/history-dependent:{rest}",
                        f"{consequence}: {fd.what}", where=fd.where, rule="history (inherited from C02/R1,R4,R6 and C01)")
    run.ob(f"{pid} the mechanism keeps no state between renderings (inherited from C02 / C01)", func_pattern, True,
           detail=f"{n} purity obligations of C02/C01 concern these functions", nontrivial=False)
    return n
