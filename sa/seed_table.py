#!/venv/bin/python
"""Maintenance tool: regenerate the seeded-change table in DESIGN.md (between the seeded-table markers) from
/verif/seeded/*/meta.json.  Not a registered check."""
import json
import re
from pathlib import Path

V = Path(__file__).resolve().parent.parent
BEGIN, END = "<!-- seeded-table:begin -->", "<!-- seeded-table:end -->"


def short(s: str, n: int) -> str:
    s = " ".join(str(s).split())
    return s if len(s) <= n else s[: n - 1].rsplit(" ", 1)[0] + " …"


def main() -> None:
    rows = []
    for d in sorted((V / "seeded").iterdir()):
        mf = d / "meta.json"
        if not mf.exists():
            continue
        m = json.loads(mf.read_text())
        det = m.get("detected_by", {})
        own = m.get("property", d.name[:3])
        parts = []
        for pid in sorted(det, key=lambda p: (p != own, p)):
            keys = det[pid]
            k0 = keys[0].split("/", 1)[1] if keys and "/" in keys[0] else (keys[0] if keys else "")
            parts.append(f"**{pid}** `{short(k0, 70)}`" + (f" (+{len(keys) - 1})" if len(keys) > 1 else ""))
        own_hit = own in det and not any(k.startswith("ANALYSIS-ERROR") for k in det[own])
        verdict = "own check" if own_hit else ("other check only" if det else "**MISSED**")
        note = m.get("note", "")
        rows.append(f"| {d.name} | {own} | {short(m.get('summary', ''), 230)} | {short(m.get('needs_to_manifest', ''), 150)} | {verdict} | {'; '.join(parts) or '—'}{(' — ' + note) if note else ''} |")
    table = ["| seed | property | change (agent's summary, shortened) | needs to manifest | caught by | findings (first key per check) |",
             "|---|---|---|---|---|---|"] + rows
    p = V / "DESIGN.md"
    s = p.read_text()
    block = BEGIN + "\n" + "\n".join(table) + "\n" + END
    if BEGIN in s:
        s = re.sub(re.escape(BEGIN) + r".*?" + re.escape(END), lambda _: block, s, flags=re.S)
    else:
        s = s.rstrip("\n") + "\n\n" + block + "\n"
    # behaviour-preserving refactorings (seeded_keep/): every check must stay silent on them
    KB, KE = "<!-- keep-table:begin -->", "<!-- keep-table:end -->"
    krows = []
    kd = V / "seeded_keep"
    for d in sorted(kd.iterdir()) if kd.is_dir() else []:
        mf = d / "meta.json"
        if not mf.exists():
            continue
        m = json.loads(mf.read_text())
        al = m.get("alarms", {})
        sib = m.get("sibling_violations", {})
        unrev = m.get("unreviewed_alarms", {k: v for k, v in al.items() if k not in sib})
        cell = "none" if not al else "; ".join(
            f"**{k}** `{short(v[0], 60)}`" + (" (reviewed: true violation of this sibling property by the new feature)" if k in sib and k not in unrev else " (**unreviewed**)")
            for k, v in sorted(al.items()))
        kind = "extension" if m.get("kind") == "keep-extension" else "refactoring"
        krows.append(f"| {d.name} | {kind} | {m.get('property', d.name[:3])} | {short(m.get('summary', ''), 260)} | {m.get('what_i_ran', {}).get('demo_output_lines', '?')} | "
                     f"{'yes' if m.get('confirmed') else '**no**'} | {cell} |")
    ktable = ["| change | kind | anchored in | what was restructured / added (agent's summary, shortened) | demo lines compared | output identical (extensions: Part A identical, Part B OK), suite green | alarms of the committed checks |",
              "|---|---|---|---|---|---|---|"] + krows
    kblock = KB + "\n" + "\n".join(ktable) + "\n" + KE
    if KB in s:
        s = re.sub(re.escape(KB) + r".*?" + re.escape(KE), lambda _: kblock, s, flags=re.S)
    else:
        s = s.rstrip("\n") + "\n\n**Behaviour-preserving refactorings (batches k, l): every check must stay silent.**\n\n" + kblock + "\n"
    p.write_text(s)
    print(f"{len(rows)} seeds tabulated, {len(krows)} refactorings tabulated")


if __name__ == "__main__":
    main()
