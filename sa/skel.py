"""Shared skeleton queries on top of symex (per-class renderer skeletons, slot/ctx classification)."""
from __future__ import annotations

import ast

from .families import is_module_function
from .model import AnalysisError, ClassInfo, Program
from .symex import (CondI, Alt, Const, CtxV, EnumV, Evaluator, Hole, Inh, InhOr, JoinP, Lit, Obj, One, Opaque, Phi, Rep,
                    RepI, SlotP, Str, Sym, show, walk_parts, negate)

BUILDER_CLASSES = ("QueryBuilder", "MySQLQueryBuilder", "PostgreSQLQueryBuilder", "SQLLiteQueryBuilder",
                   "MSSQLQueryBuilder", "OracleQueryBuilder")


def is_abstract_render(f) -> bool:
    body = [st for st in f.node.body if not (isinstance(st, ast.Expr) and isinstance(st.value, ast.Constant))]
    return len(body) == 1 and isinstance(body[0], ast.Raise) and "NotImplementedError" in ast.unparse(body[0])


def term_classes(program: Program) -> list[ClassInfo]:
    term = program.cls("Term")
    out = []
    for c in program.all_classes():
        if c.is_subclass_of(term):
            f = c.resolve("get_sql")
            if f is not None and not is_abstract_render(f):
                out.append(c)
    return out


def renderable_classes(program: Program) -> list[ClassInfo]:
    out = []
    for c in program.all_classes():
        f = c.resolve("get_sql")
        if f is not None and not is_abstract_render(f):
            out.append(c)
    return out


def render(program: Program, cls: ClassInfo, method: str = "get_sql", attrs: dict | None = None,
           ctx: CtxV | None = None, maybe_none: bool | None = None, extra_args: list | None = None, inline_self: bool = True):
    ev = Evaluator(program, inline_self=inline_self)
    o = ev.self_obj(cls, attrs)
    f = cls.resolve(method)
    if f is None:
        raise AnalysisError(f"anchor vanished: {cls.qualname}.{method}")
    args = []
    node_args = f.node.args
    defaults = dict(zip([a.arg for a in (node_args.posonlyargs + node_args.args)][-len(node_args.defaults):] if node_args.defaults else [],
                        node_args.defaults))
    extra = list(extra_args or [])
    for prm in f.params[1:] if not f.is_static else f.params:
        if prm == "ctx":
            mn = maybe_none if maybe_none is not None else (prm in defaults or "None" in (ast.unparse(next(a.annotation for a in node_args.args if a.arg == prm)) if next((a.annotation for a in node_args.args if a.arg == prm), None) is not None else ""))
            args.append(ctx if ctx is not None else CtxV.incoming(mn))
        elif extra:
            args.append(extra.pop(0))
        elif prm in defaults:
            break
        else:
            args.append(Sym("param", (prm,)))
    v = ev.call_function(f, cls, o, args, {})
    if method in ("get_sql", "get_name_sql") and isinstance(v, (Sym, Phi, Obj)):
        # a renderer returning a bare value (e.g. `return self.name`): it is the whole text
        ps = ev.phi_to_str(v)
        if ps is not None:
            v = ps
    return v, ev


def field_class(v) -> str:
    """classification of one context field at a slot"""
    if isinstance(v, (Inh, InhOr)):
        return "inherit"
    if isinstance(v, (Const, EnumV)):
        return "const"
    return "computed"


def recv_path(v) -> str:
    """short access path of a slot receiver relative to self, e.g. '_selects[]', 'left', '_cases[][0]'"""
    if isinstance(v, Obj):
        return "self" if v.root else v.name
    if isinstance(v, Sym):
        k, a = v.kind, v.args
        if k == "attr":
            b = recv_path(a[0])
            return a[1] if b == "self" else f"{b}.{a[1]}"
        if k == "elem":
            if not isinstance(a[0], (Sym, Obj, Phi)):
                import re as _re
                m = _re.search(r"self\.(\w+)", show(a[0]))
                return (m.group(1) if m else "local") + "[]"
            return recv_path(a[0]) + "[]"
        if k == "item":
            key = a[1].value if isinstance(a[1], Const) else "?"
            return f"{recv_path(a[0])}[{key}]"
        if k == "param":
            return a[0]
        if k == "nonempty":
            return a[0]
        if k == "call":
            head = a[0] if isinstance(a[0], str) else show(a[0])
            if head == "cast" and len(a) >= 3:
                return recv_path(a[2])
            if isinstance(head, str) and head.startswith(".") and len(a) >= 2:
                return f"{recv_path(a[1])}{head}()"
            return f"{head}()"
        if k == "new":
            return f"new {a[0]}"
        if k == "getattr-default":
            return f"{recv_path(a[0])}.{a[1]}"
        if k == "loopval":
            inner = [x for x in (a[1:] or ())]
            import re as _re
            m = _re.search(r"self\.(\w+)", show(inner[0])) if inner else None
            return f"all({m.group(1)})" if m else f"loop:{a[0]}"
    if isinstance(v, Phi):
        a, b = recv_path(v.a), recv_path(v.b)
        if a.startswith("new "):
            return b
        if b.startswith("new "):
            return a
        if a and b and root_attr(a) == root_attr(b) and root_attr(a):
            return min(a, b, key=len)      # alternatives derived from the same attribute (e.g. value.value | value)
        return f"({a}|{b})"
    return show(v)


def root_attr(path: str) -> str:
    for sep in ("[", ".", "("):
        if sep in path:
            path = path.split(sep)[0]
    return path


def count_marker(v, marker: str):
    """(min, max) number of occurrences of a marker literal over all paths of a skeleton; max capped at 9"""
    if isinstance(v, Str):
        lo = hi = 0
        for p in v.parts:
            a, b = count_marker(p, marker)
            lo, hi = lo + a, min(9, hi + b)
        return lo, hi
    if isinstance(v, Lit):
        n = v.text.count(marker)
        return n, n
    if isinstance(v, Alt):
        a, b = count_marker(v.a, marker), count_marker(v.b, marker)
        return min(a[0], b[0]), max(a[1], b[1])
    if isinstance(v, Rep):
        a = count_marker(v.body, marker)
        return 0, (9 if a[1] else 0)
    if isinstance(v, JoinP):
        lo = hi = 0
        for i in v.items:
            a, b = count_marker(i, marker)
            lo, hi = lo + a, min(9, hi + b)
        return lo, hi
    if isinstance(v, One):
        a, b = count_marker(v.value, marker)
        return (0 if v.cond is not None else a), b
    if isinstance(v, RepI):
        hi = max([count_marker(i, marker)[1] for i in v.body] or [0])
        return 0, (9 if hi else 0)
    if isinstance(v, CondI):
        hi = 0
        for i in v.items:
            hi = min(9, hi + count_marker(i, marker)[1])
        return 0, hi
    if isinstance(v, Opaque):
        lo = hi = 0
        for i in v.inner:
            a, b = count_marker(i, marker)
            lo, hi = lo + a, min(9, hi + b)
        return lo, hi
    if isinstance(v, Phi):
        a, b = count_marker(v.a, marker), count_marker(v.b, marker)
        return min(a[0], b[0]), max(a[1], b[1])
    if isinstance(v, Const) and isinstance(v.value, str):
        n = v.value.count(marker)
        return n, n
    if isinstance(v, Hole):
        return count_marker(v.value, marker) if isinstance(v.value, (Str, Phi, Const)) else (0, 0)
    return 0, 0


def cond_mentions(conds, pred) -> bool:
    """does any condition on the path satisfy pred (searched structurally)"""
    def rec(x, d=0):
        if d > 10:
            return False
        if pred(x):
            return True
        if isinstance(x, Sym):
            return any(rec(a, d + 1) for a in x.args)
        if isinstance(x, Phi):
            return rec(x.cond, d + 1) or rec(x.a, d + 1) or rec(x.b, d + 1)
        if isinstance(x, (tuple, list)):
            return any(rec(a, d + 1) for a in x)
        return False
    return any(rec(c) for c in conds)


# ----------------------------------------------------------------------------- all render sites
def render_sites(program: Program):
    """Every nested render call site reachable from the effective get_sql of every renderable class:
    list of dicts {cls, defcls, func, recv, ctx(CtxV|None|Phi), conds, part, in_rep}; de-duplicated by
    (source function, line, receiver path, ctx)."""
    cache = program.__dict__.setdefault("_render_sites", None)
    if cache is not None:
        return cache
    out = []
    seen = set()
    skeletons = {}
    for c in renderable_classes(program):
        try:
            sk, ev = render(program, c)
        except AnalysisError:
            raise
        skeletons[c] = (sk, ev)
        for part, conds, in_rep in walk_parts(sk):
            if not isinstance(part, SlotP):
                continue
            rp = recv_path(part.recv)
            key = (part.src[0] if part.src else "?", part.src[1] if part.src else 0, rp,
                   repr(part.ctx) if part.ctx is not None else None, c.qualname if not part.src else "")
            if key in seen:
                continue
            seen.add(key)
            func = part.src[0] if part.src else "?"
            if part.src and is_module_function(program, func):
                # a render call inside a module-level helper belongs to the method that calls the helper
                chain = part.src[3] if len(part.src) > 3 else ()
                func = next((q for q in reversed(chain) if not is_module_function(program, q)), func)
            out.append({"cls": c, "func": func, "deffunc": part.src[0] if part.src else "?", "line": part.src[1] if part.src else 0,
                        "file": part.src[2] if part.src else "", "recv": rp, "ctx": part.ctx, "conds": conds,
                        "part": part, "in_rep": in_rep, "method": part.method})
    program.__dict__["_render_sites"] = out
    program.__dict__["_skeletons"] = skeletons
    return out


def skeletons(program: Program):
    render_sites(program)
    return program.__dict__["_skeletons"]


# ----------------------------------------------------------------------------- statement kinds
def kind_states(program: Program) -> dict:
    """concrete valuations of the statement-kind predicates of QueryBuilder.get_sql (clause presence stays symbolic)"""
    tbl = program.cls("Table")

    def T(name):
        return Obj(tbl, {}, name)

    ne = lambda n: Sym("nonempty", (n,))  # noqa: E731
    from .symex import ListV
    empty = ListV((), "list")
    base = {"_update_table": Const(None), "_insert_table": Const(None), "_delete_from": Const(False),
            "_select_into": Const(False), "_replace": Const(False)}
    return {
        "SELECT": {**base, "_selects": ne("_selects"), "_on_conflict": Const(False)},
        "SELECT_INTO": {**base, "_selects": ne("_selects"), "_insert_table": T("_insert_table"), "_select_into": Const(True)},
        "INSERT_VALUES": {**base, "_insert_table": T("_insert_table"), "_values": ne("_values")},
        "INSERT_SELECT": {**base, "_insert_table": T("_insert_table"), "_values": empty, "_selects": ne("_selects")},
        "REPLACE": {**base, "_insert_table": T("_insert_table"), "_values": ne("_values"), "_replace": Const(True)},
        "UPDATE": {**base, "_update_table": T("_update_table"), "_updates": ne("_updates"), "_selects": empty},
        "DELETE": {**base, "_delete_from": Const(True), "_selects": empty},
    }


def dialect_init_consts(c: ClassInfo) -> dict:
    """attributes assigned to constants / empty lists in the own __init__ of the dialect classes along the MRO"""
    from .symex import ListV
    out = {}
    for k in c.mro:
        if not k.module.short.startswith("dialects."):
            continue
        f = k.methods.get("__init__")
        if f is None:
            continue
        for n in ast.walk(f.node):
            tv = None
            if isinstance(n, ast.Assign):
                tv = (n.targets, n.value)
            elif isinstance(n, ast.AnnAssign) and n.value is not None:
                tv = ([n.target], n.value)
            if tv is None:
                continue
            for t in tv[0]:
                if isinstance(t, ast.Attribute) and isinstance(t.value, ast.Name) and t.value.id == f.params[0]:
                    v = tv[1]
                    if isinstance(v, ast.Constant):
                        out.setdefault(t.attr, Const(v.value))
                    elif isinstance(v, (ast.List, ast.Tuple)) and not v.elts:
                        out.setdefault(t.attr, ListV((), "list"))
    return out


# ----------------------------------------------------------------------------- quoting recognition
def quoted_spans(flat):
    """for a flat path (list of Lit/Hole/SlotP), yield (i, j, quote_expr_text, kind) for spans flat[i+1:j] wrapped by
    identical quote holes (kind 'hole') or by literal quote characters (kind 'lit')"""
    out = []
    n = len(flat)
    for i, p in enumerate(flat):
        if isinstance(p, Hole) and _is_quote_expr(p.value):
            for j in range(i + 1, min(n, i + 8)):
                q = flat[j]
                if isinstance(q, Hole) and q.value == p.value and j > i + 1:
                    out.append((i, j, show(p.value), "hole"))
                    break
    for i, p in enumerate(flat):
        if isinstance(p, Lit) and p.text and p.text[-1] in "'\"`":
            ch = p.text[-1]
            for j in range(i + 1, min(n, i + 6)):
                q = flat[j]
                if isinstance(q, Lit):
                    if q.text.startswith(ch) and j > i + 1:
                        out.append((i, j, ch, "lit"))
                    break
    return out


def _is_quote_expr(v) -> bool:
    s = show(v)
    return "quote_char" in s or s in ("'\"'", '"\'"', "'`'")


def function_skeletons(program: Program):
    """function-local skeletons: every render-family method with a ctx parameter, evaluated on its defining class with
    calls to the object's own helpers kept as slots (small alternatives sets, full path enumeration possible)"""
    cache = program.__dict__.get("_function_skeletons")
    if cache is not None:
        return cache
    from .families import is_observer
    out = {}
    for c in program.all_classes():
        for name, f in c.methods.items():
            if f.is_builder or f.is_property or not is_observer(f) or name.startswith("__"):
                continue
            if "ctx" not in f.params:
                continue
            try:
                v, ev = render(program, c, name, inline_self=False)
            except AnalysisError:
                raise
            if isinstance(v, (Sym, Phi, Obj)):
                ps = ev.phi_to_str(v)
                if ps is not None:
                    v = ps
            out[f] = v
    program.__dict__["_function_skeletons"] = out
    return out


def node_child_formatted(program: Program, cls: ClassInfo, attr: str) -> bool:
    """Exact answer to `can a Node stored in self.<attr> reach a str()/format hole of this class's renderer?`:
    the renderer is evaluated with the attribute bound to a symbolic object of a Term class, of a renderable class that
    is not a Term (Table), and of a Node that is neither (Interval); isinstance()/hasattr() fold on it.  True when some
    probe ends up inside a hole instead of being rendered through its own get_sql(ctx)."""
    from .symex import Obj
    memo = program.__dict__.setdefault("_node_child_formatted", {})
    if (cls, attr) in memo:
        return memo[(cls, attr)]

    def contains(v, o, d=0):
        if v is o:
            return True
        if d > 14 or isinstance(v, (str, int, float, bool, type(None), CtxV)):
            return False
        if isinstance(v, (tuple, list, frozenset)):
            return any(contains(i, o, d + 1) for i in v)
        if hasattr(v, "__dataclass_fields__"):
            return any(contains(getattr(v, n), o, d + 1) for n in v.__dataclass_fields__ if n not in ("src", "ctx"))
        return False
    res = False
    for probe in ("Field", "Table", "Interval"):
        pc = program.find_cls(probe)
        if pc is None:
            continue
        o = Obj(pc, {}, name=f"<{probe} in {attr}>")
        try:
            v, _ev = render(program, cls, attrs={attr: o})
        except AnalysisError:
            res = True     # not decided for this probe: keep the candidate
            break
        for part, conds, in_rep in walk_parts(v):
            if isinstance(part, Hole) and contains(part.value, o):
                res = True
                break
        if res:
            break
    memo[(cls, attr)] = res
    return res



HARMLESS_TEXT_OPS = {".strip", ".lstrip", ".rstrip"}     # trim the ends only: the rendered children are delimited (quotes, brackets) or end in a name


def _first_text_op(v, depth: int = 0):
    """name of the outermost string operation (`.split`, `.replace`, ...) inside a symbolic value"""
    import dataclasses
    if depth > 8:
        return None
    if isinstance(v, Opaque) and v.name.startswith("."):
        return v.name
    if isinstance(v, Sym) and v.kind == "call" and v.args and isinstance(v.args[0], str) and v.args[0].startswith("."):
        return v.args[0]
    kids = []
    if isinstance(v, (tuple, list)):
        kids = list(v)
    elif isinstance(v, Sym):
        kids = list(v.args)
    elif dataclasses.is_dataclass(v):
        kids = [getattr(v, f.name) for f in dataclasses.fields(v) if f.name not in ("src", "cond", "ctx")]
    for k in kids:
        r = _first_text_op(k, depth + 1)
        if r:
            return r
    return None


def transformed_renderings(program: Program):
    """rendered children whose text passes through a string operation before it is printed
    (`sql.replace("  ", " ")`, `" ".join(sql.split())`, `sql.lower()`): [(class, function, operation, [slots])].
    The operation rewrites whatever the children printed -- string literals and quoted identifiers included."""
    cache = program.__dict__.get("_transformed_renderings")
    if cache is not None:
        return cache
    from .symex import slots_in
    out = []
    seen = set()
    for c, (sk, _ev) in skeletons(program).items():
        for part, _conds, _rep in walk_parts(sk):
            op = inner = None
            if isinstance(part, Opaque) and part.name.startswith(".") and part.name not in HARMLESS_TEXT_OPS:
                op, inner = part.name, slots_in(part.inner)
            elif isinstance(part, Hole):
                inner = slots_in(part.value)
                op = _first_text_op(part.value)
                if op is None:
                    continue           # list / tuple plumbing around rendered strings: no character of them is touched
                if op in (".format", ".format_map") or op in HARMLESS_TEXT_OPS:
                    inner = None       # a template that is data is C04's finding; trimming is harmless
            if not inner:
                continue
            fn = inner[0].src[0] if inner[0].src else c.qualname
            key = (fn, op)
            if key in seen:
                continue
            seen.add(key)
            out.append((c, fn, op, inner))
    program.__dict__["_transformed_renderings"] = out
    return out
