#!/venv/bin/python
"""CLI: check.py <ID> --tier quick|thorough   |   check.py --replay <file>   |   check.py all

Exit 0: property held on everything analysed (KNOWN-FINDING lines allowed).
Exit 1: VIOLATION property=<id> replay=<path>
Exit 2: ANALYSIS-ERROR (engine could not analyse: vanished anchor, unsupported construct,
        instance count below floor, parse error, internal error).
"""
from __future__ import annotations

import argparse
import importlib
import json
import os
import sys
import traceback
from pathlib import Path

sys.path.insert(0, str(Path(__file__).resolve().parent.parent))

from sa.model import AnalysisError, Program  # noqa: E402
from sa.report import Run, finish  # noqa: E402

ALL = ["C01", "C02", "C04", "C05", "C06", "C07", "C08", "C09", "C10", "C11", "C12", "C13",
       "C14", "C15", "C16", "C17", "C18"]


def run_one(pid: str, tier: str, seed: int) -> int:
    try:
        mod = importlib.import_module(f"sa.props.{pid.lower()}")
    except ModuleNotFoundError:
        print(f"ANALYSIS-ERROR property={pid} no check module")
        return 2
    run = Run(pid, tier)
    try:
        program = Program()
        mod.check(program, run)
        st_err = None
        if tier == "thorough":
            from sa.selftest import run_selftest
            try:
                run_selftest(pid, run, seed)
            except AnalysisError as e:
                st_err = e
        rc = finish(run, seed)
        if rc == 0 and st_err is not None:
            print(f"ANALYSIS-ERROR property={pid} {st_err}")
            return 2
        return rc
    except AnalysisError as e:
        # findings established before the analysis gave up are still findings: a violation outranks "could not analyse"
        if any(not f.info for f in run.findings):
            run.extra["analysis_error_after_findings"] = str(e)[:300]
            rc = finish(run, seed)
            if rc == 1:
                print(f"ANALYSIS-ERROR property={pid} (after the findings above) {e}")
                return 1
        print(f"ANALYSIS-ERROR property={pid} {e}")
        return 2
    except Exception:  # a traceback is never a verdict
        print(f"ANALYSIS-ERROR property={pid} internal error")
        traceback.print_exc()
        return 2


def replay(path: str) -> int:
    data = json.loads(Path(path).read_text())
    pid = data["property"]
    print(f"replay {pid}: {data['key']}\n  rule: {data.get('rule')}\n  what: {data.get('what')}\n  where: {data.get('where')}")
    for step in data.get("path", []):
        print(f"    via {step}")
    if data.get("excerpt"):
        print("  excerpt:\n" + data["excerpt"])
    # re-evaluate on the current tree: the finding is reproduced iff the same key is reported again
    run = Run(pid, "quick")
    try:
        mod = importlib.import_module(f"sa.props.{pid.lower()}")
        mod.check(Program(), run)
    except AnalysisError as e:
        print(f"ANALYSIS-ERROR property={pid} {e}")
        return 2
    hit = [f for f in run.findings if f.key == data["key"] and not f.info]
    if hit:
        print(f"REPRODUCED on current tree: {hit[0].key} [{hit[0].where}]")
        return 1
    print("not reproduced on current tree")
    return 0


def main() -> int:
    ap = argparse.ArgumentParser()
    ap.add_argument("prop", nargs="?")
    ap.add_argument("--tier", default=os.environ.get("VERIF_TIER", "quick"), choices=["quick", "thorough"])
    ap.add_argument("--replay")
    a = ap.parse_args()
    seed = int(os.environ.get("VERIF_SEED", "0") or 0)
    if a.replay:
        return replay(a.replay)
    if a.prop in (None, "all"):
        rc = 0
        for pid in ALL:
            rc = max(rc, run_one(pid, a.tier, seed))
        return rc
    return run_one(a.prop.upper(), a.tier, seed)


if __name__ == "__main__":
    rc = main()
    sys.stdout.flush()
    os._exit(rc)
