"""Helper inlining on the syntax tree.

The rules that read the *shape* of one function (guards before writes, which attributes a setter stores, which sources a
validation consults, what __copy__ re-copies ...) must not depend on whether a maintainer wrote the code in one function
or extracted part of it into a private helper.  `inlined(program, f)` returns a clone of `f` whose body has the calls to

  * functions defined locally inside f (closures),
  * private methods / static methods of f's class reached through `self._m(...)`, `cls._m(...)`, `Class._m(...)`,
  * private (underscore) module-level functions of the package,

replaced by the callee's body with parameters bound -- as an expression when the callee is a single `return <expr>`, as
spliced statements when the call is a whole statement, the value of an assignment or the value of a return.  Callees with
*args/**kwargs, generators, recursion, or returns inside loops/try/with are left alone (the rule then sees the call).
Public helpers (wrap_constant, format_quotes ...) are never inlined: rules name them.

Nothing is executed; the result is only ever read by other analyses.
"""
from __future__ import annotations

import ast
import copy

from .model import FuncInfo, Program

MAX_DEPTH = 5
MAX_STMTS = 60
# public helpers that rules refer to by name (or whose body is judged on its own): never inlined
NEVER_INLINE = {"format_quotes", "format_alias_sql", "builder", "ignore_copy", "copy", "deepcopy", "validate", "resolve_is_aggregate",
                "cast", "isinstance", "getattr", "setattr", "hasattr", "len", "set", "list", "tuple", "dict", "sorted", "any", "all", "map", "filter", "zip"}


def _body_wo_doc(fn: ast.FunctionDef) -> list:
    b = list(fn.body)
    if b and isinstance(b[0], ast.Expr) and isinstance(b[0].value, ast.Constant) and isinstance(b[0].value.value, str):
        b = b[1:]
    return b


def _always_returns(stmts: list) -> bool:
    if not stmts:
        return False
    s = stmts[-1]
    if isinstance(s, (ast.Return, ast.Raise)):
        return True
    if isinstance(s, ast.If):
        return _always_returns(s.body) and _always_returns(s.orelse)
    return False


def _has_return(node) -> bool:
    for n in ast.walk(node):
        if isinstance(n, ast.Return):
            return True
    return False


def _returns_only_structured(stmts: list) -> bool:
    """returns occur only at statement level of the body or of (nested) if/else branches"""
    for s in stmts:
        if isinstance(s, ast.Return):
            continue
        if isinstance(s, ast.If):
            if not (_returns_only_structured(s.body) and _returns_only_structured(s.orelse)):
                return False
            continue
        if isinstance(s, (ast.FunctionDef, ast.Lambda, ast.ClassDef)):
            continue
        if _has_return(s):
            return False
    return True


def _tailify(stmts: list, on_ret, fall: list) -> list:
    """rewrite a structured body so that every `return e` becomes on_ret(e) and nothing follows it; `fall` is emitted
    where control falls off the end of the body"""
    out = []
    for i, s in enumerate(stmts):
        if isinstance(s, ast.Return):
            out += on_ret(s.value)
            return out
        if isinstance(s, ast.Raise):
            out.append(s)
            return out
        if isinstance(s, ast.If) and _has_return(s):
            rest = stmts[i + 1:]
            body = _tailify(s.body + ([] if _always_returns(s.body) else rest), on_ret, fall)
            orelse = _tailify(s.orelse + ([] if _always_returns(s.orelse) else rest), on_ret, fall)
            new = ast.If(test=s.test, body=body or [ast.Pass()], orelse=orelse)
            out.append(ast.copy_location(new, s))
            return out
        out.append(s)
    return out + [copy.deepcopy(x) for x in fall]


def _as_expr(stmts: list):
    """a body made only of `if c: return a` / `return z` statements, as one conditional expression (else None)"""
    if not stmts:
        return ast.Constant(value=None)
    s = stmts[0]
    if isinstance(s, ast.Return):
        return s.value if s.value is not None else ast.Constant(value=None)
    if isinstance(s, ast.Expr) and isinstance(s.value, ast.Constant):
        return _as_expr(stmts[1:])      # docstring
    if (isinstance(s, ast.Assign) and len(s.targets) == 1 and isinstance(s.targets[0], ast.Name)) or (
            isinstance(s, ast.AnnAssign) and isinstance(s.target, ast.Name) and s.value is not None):
        # `flag = <expr>` used by the following returns: read as the expression itself (single binding, no later store)
        name = s.targets[0].id if isinstance(s, ast.Assign) else s.target.id
        rest = stmts[1:]
        if any(isinstance(n, ast.Name) and n.id == name and isinstance(n.ctx, (ast.Store, ast.Del)) for st in rest for n in ast.walk(st)):
            return None
        if any(isinstance(n, (ast.NamedExpr, ast.Yield, ast.YieldFrom, ast.Await)) for n in ast.walk(s.value)):
            return None
        loads = sum(1 for st in rest for n in ast.walk(st) if isinstance(n, ast.Name) and n.id == name and isinstance(n.ctx, ast.Load))
        if loads > 1 and any(isinstance(n, ast.Call) for n in ast.walk(s.value)):
            return None                 # the expression would be evaluated more than once
        sub = _Subst({name: s.value}, {})
        return _as_expr([sub.visit(copy.deepcopy(st)) for st in rest])
    if isinstance(s, ast.If):
        rest = stmts[1:]
        a = _as_expr(s.body + ([] if _always_returns(s.body) else rest))
        b = _as_expr(s.orelse + ([] if _always_returns(s.orelse) else rest))
        if a is None or b is None:
            return None
        return ast.IfExp(test=s.test, body=a, orelse=b)
    return None


class _Subst(ast.NodeTransformer):
    def __init__(self, mapping: dict, rename: dict):
        self.mapping = mapping
        self.rename = rename

    def visit_Name(self, n: ast.Name):
        if n.id in self.mapping and isinstance(n.ctx, ast.Load):
            return copy.deepcopy(self.mapping[n.id])
        if n.id in self.rename:
            return ast.copy_location(ast.Name(id=self.rename[n.id], ctx=n.ctx), n)
        return n

    def visit_FunctionDef(self, n):
        return n   # do not descend into nested definitions of the callee

    visit_Lambda = visit_FunctionDef


def _simple(e) -> bool:
    if isinstance(e, (ast.Name, ast.Constant)):
        return True
    if isinstance(e, ast.Attribute):
        return _simple(e.value)
    return False


class Inliner:
    def __init__(self, program: Program):
        self.p = program
        self.cache: dict = {}
        self.counter = 0
        self.recv = None     # receiver class for which self.<hook>() / super().<hook>() are resolved (default: the defining class)

    # ------------------------------------------------------------------ callee resolution
    def _resolve(self, call: ast.Call, f: FuncInfo, local_defs: dict, selfname: str | None):
        fn = call.func
        recv = self.recv if self.recv is not None else f.cls
        if isinstance(fn, ast.Name):
            if fn.id in local_defs:
                return ("local", local_defs[fn.id], None)
            if fn.id not in NEVER_INLINE and not fn.id.startswith("__"):
                r = self.p.resolve_global(f.module, fn.id)
                if r and r[0] == "func" and not r[1].decorators:
                    return ("func", r[1].node, r[1])
            return None
        if isinstance(fn, ast.Attribute) and fn.attr.startswith("_") and not fn.attr.startswith("__") and f.cls is not None and recv is not None:
            base = fn.value
            # super()._hook(...): the next definition after the class that defines the calling function
            if isinstance(base, ast.Call) and isinstance(base.func, ast.Name) and base.func.id == "super" and not base.args:
                g = recv.resolve_after(f.cls, fn.attr) if (recv.is_subclass_of(f.cls) or recv is f.cls) else None
                if g is None or g.is_builder or g.is_property or g.is_overload or g.is_static:
                    return None
                return ("super", g.node, g)
            is_self = isinstance(base, ast.Name) and base.id in (selfname, "cls")
            is_cls = isinstance(base, ast.Name) and self.p.find_cls(base.id) is not None and (
                f.cls.is_subclass_of(self.p.find_cls(base.id)) or f.cls is self.p.find_cls(base.id))
            if not (is_self or is_cls):
                return None
            g = recv.resolve(fn.attr) if is_self else self.p.find_cls(base.id).resolve(fn.attr)
            if g is None or g.is_builder or g.is_property or g.is_overload:
                return None
            return ("method", g.node, g)
        return None

    def _eligible(self, node: ast.FunctionDef) -> bool:
        a = node.args
        body = _body_wo_doc(node)
        if len(list(ast.walk(node))) > 900 or len(body) > MAX_STMTS:
            return False
        for n in ast.walk(node):
            if isinstance(n, (ast.Yield, ast.YieldFrom, ast.Await, ast.Global, ast.Nonlocal)):
                return False
        return _returns_only_structured(body)

    # ------------------------------------------------------------------ binding
    def _bind(self, kind, node: ast.FunctionDef, info, call: ast.Call, selfname):
        """-> (prelude statements, mapping param->expr, rename locals) or None"""
        a = node.args
        params = [x.arg for x in a.posonlyargs + a.args]
        defaults = dict(zip(params[len(params) - len(a.defaults):], a.defaults)) if a.defaults else {}
        for kw, d in zip(a.kwonlyargs, a.kw_defaults):
            params.append(kw.arg)
            if d is not None:
                defaults[kw.arg] = d
        mapping: dict = {}
        args = list(call.args)
        if any(isinstance(x, ast.Starred) for x in args) or any(k.arg is None for k in call.keywords):
            return None
        if kind == "super":
            mapping[params[0]] = ast.Name(id=selfname or "self", ctx=ast.Load())
            params_rest = params[1:]
        elif kind == "method" and info is not None and not info.is_static:
            recv = call.func.value if isinstance(call.func, ast.Attribute) else None
            if info.is_classmethod:
                mapping[params[0]] = ast.Call(func=ast.Name(id="type", ctx=ast.Load()), args=[ast.Name(id=selfname or "self", ctx=ast.Load())], keywords=[]) \
                    if isinstance(recv, ast.Name) and recv.id == selfname else recv
            else:
                mapping[params[0]] = recv
            params_rest = params[1:]
        else:
            params_rest = params
        npos = len([x for x in a.posonlyargs + a.args]) - (len(params) - len(a.kwonlyargs) - len(params_rest))
        pos_rest = params_rest[:len(params_rest) - len(a.kwonlyargs)] if a.kwonlyargs else params_rest
        if a.vararg is not None:
            # f(x, "a", "b") against def f(x, *names): the surplus positional arguments are the tuple `names`
            extra = args[len(pos_rest):]
            args = args[:len(pos_rest)]
            mapping[a.vararg.arg] = ast.Tuple(elts=list(extra), ctx=ast.Load())
        if len(args) > len(pos_rest):
            return None
        for p_, a_ in zip(pos_rest, args):
            mapping[p_] = a_
        surplus = []
        for k in call.keywords:
            if k.arg in mapping:
                return None
            if k.arg not in params_rest:
                if a.kwarg is None:
                    return None
                surplus.append(k)       # f(x=1, y=2) against def f(**kw): the dict `kw`
                continue
            mapping[k.arg] = k.value
        if a.kwarg is not None:
            mapping[a.kwarg.arg] = ast.Dict(keys=[ast.Constant(value=k.arg) for k in surplus], values=[k.value for k in surplus])
        for p_ in params_rest:
            if p_ not in mapping:
                if p_ not in defaults:
                    return None
                mapping[p_] = defaults[p_]
        self.counter += 1
        tag = f"__inl{self.counter}_"
        stored = {n.id for n in ast.walk(node) if isinstance(n, ast.Name) and isinstance(n.ctx, (ast.Store, ast.Del))}
        stored |= {n.name for n in ast.walk(node) if isinstance(n, (ast.FunctionDef,)) and n is not node}
        prelude = []
        final_map = {}
        for p_, e_ in mapping.items():
            if p_ in stored or not _simple(e_):
                uses = sum(1 for n in ast.walk(node) if isinstance(n, ast.Name) and n.id == p_ and isinstance(n.ctx, ast.Load))
                if p_ in stored or uses > 1:
                    prelude.append(ast.Assign(targets=[ast.Name(id=tag + p_, ctx=ast.Store())], value=copy.deepcopy(e_), lineno=call.lineno, col_offset=0))
                    final_map[p_] = ast.Name(id=tag + p_, ctx=ast.Load())
                    continue
            final_map[p_] = e_
        rename = {n: tag + n for n in stored if n not in mapping}
        rename.update({p_: tag + p_ for p_ in mapping if p_ in stored})
        return prelude, final_map, rename

    # ------------------------------------------------------------------ the transformation
    def inlined(self, f: FuncInfo, recv=None, exprs: bool = True) -> FuncInfo:
        key = (f, recv, exprs)
        if key in self.cache:
            return self.cache[key]
        self.exprs = exprs
        node = copy.deepcopy(f.node)
        selfname = f.params[0] if (f.cls is not None and f.params and not f.is_static) else None
        prev = self.recv
        self.recv = recv
        try:
            node.body = self._block(node.body, f, {}, selfname, (id(f.node),), 0)
            ast.fix_missing_locations(node)
        except RecursionError:
            node = f.node
        finally:
            self.recv = prev
        g = copy.copy(f)
        g.node = node
        g.inlined_from = f
        self.cache[key] = g
        return g

    def _block(self, stmts: list, f, local_defs: dict, selfname, stack: tuple, depth: int) -> list:
        local_defs = dict(local_defs)
        for s in stmts:
            if isinstance(s, ast.FunctionDef) and self._eligible(s):
                local_defs[s.name] = s
        out = []
        for s in stmts:
            out += self._stmt(s, f, local_defs, selfname, stack, depth)
        return out

    def _splice(self, call: ast.Call, on_ret, f, local_defs, selfname, stack, depth):
        """statements replacing a statement-level call, or None"""
        if depth >= MAX_DEPTH:
            return None
        r = self._resolve(call, f, local_defs, selfname)
        if r is None:
            return None
        kind, cnode, info = r
        if id(cnode) in stack or not self._eligible(cnode):
            return None
        b = self._bind(kind, cnode, info, call, selfname)
        if b is None:
            return None
        prelude, mapping, rename = b
        body = copy.deepcopy(_body_wo_doc(cnode))
        sub = _Subst(mapping, rename)
        body = [sub.visit(x) for x in body]
        body = _tailify(body, on_ret, on_ret(None) if getattr(on_ret, "needs_value", False) else [])
        callee_f = info if info is not None else f
        callee_self = selfname
        inner = self._block(prelude + body, callee_f if kind != "local" else f, local_defs if kind == "local" else {}, callee_self, stack + (id(cnode),), depth + 1)
        return inner

    def _stmt(self, s, f, local_defs, selfname, stack, depth) -> list:
        # statement-level call forms
        if isinstance(s, ast.Expr) and isinstance(s.value, ast.Call):
            def on_ret(e):
                return [ast.copy_location(ast.Expr(value=e), s)] if e is not None and not isinstance(e, ast.Constant) else []
            r = self._splice(s.value, on_ret, f, local_defs, selfname, stack, depth)
            if r is not None:
                return r or [ast.copy_location(ast.Pass(), s)]
        if isinstance(s, ast.Return) and isinstance(s.value, ast.Call):
            def on_ret(e):
                return [ast.copy_location(ast.Return(value=e), s)]
            on_ret.needs_value = True
            r = self._splice(s.value, on_ret, f, local_defs, selfname, stack, depth)
            if r is not None:
                return r
        if isinstance(s, (ast.Assign, ast.AnnAssign, ast.AugAssign)) and isinstance(s.value, ast.Call):
            def on_ret(e, s=s):
                n = copy.copy(s)
                n.value = e if e is not None else ast.Constant(value=None)
                return [n]
            on_ret.needs_value = True
            r = self._splice(s.value, on_ret, f, local_defs, selfname, stack, depth)
            if r is not None:
                return r
        # compound statements: recurse into blocks
        s = copy.copy(s)
        for fld in ("body", "orelse", "finalbody"):
            blk = getattr(s, fld, None)
            if isinstance(blk, list) and blk and isinstance(blk[0], ast.stmt) and not isinstance(s, (ast.FunctionDef, ast.ClassDef)):
                setattr(s, fld, self._block(blk, f, local_defs, selfname, stack, depth))
        if isinstance(s, ast.Try):
            s.handlers = [copy.copy(h) for h in s.handlers]
            for h in s.handlers:
                h.body = self._block(h.body, f, local_defs, selfname, stack, depth)
        if isinstance(s, ast.FunctionDef):
            # a nested definition (decorator wrapper, closure): its own body is read through helpers as well
            s.body = self._block(s.body, f, local_defs, selfname, stack + (id(s),), depth)
            return [s]
        # expression-level calls to single-return helpers
        return [self._exprs(s, f, local_defs, selfname, stack, depth)]

    def _exprs(self, s, f, local_defs, selfname, stack, depth):
        inl = self
        if not getattr(self, "exprs", True):
            return s

        class T(ast.NodeTransformer):
            def visit_FunctionDef(self, n):
                return n

            def visit_Call(self, n: ast.Call):
                self.generic_visit(n)
                if depth >= MAX_DEPTH:
                    return n
                r = inl._resolve(n, f, local_defs, selfname)
                if r is None:
                    return n
                kind, cnode, info = r
                if id(cnode) in stack or not inl._eligible(cnode):
                    return n
                body = _body_wo_doc(cnode)
                value = _as_expr(body)
                if value is None:
                    return n
                b = inl._bind(kind, cnode, info, n, selfname)
                if b is None:
                    return n
                prelude, mapping, rename = b
                if prelude:
                    # duplicate the argument expression instead of binding it (expression position)
                    for a_ in prelude:
                        nm = a_.targets[0].id
                        for k_, v_ in list(mapping.items()):
                            if isinstance(v_, ast.Name) and v_.id == nm:
                                mapping[k_] = a_.value
                e = _Subst(mapping, rename).visit(copy.deepcopy(value))
                return ast.copy_location(e, n)

        if isinstance(s, (ast.If, ast.While)):
            s.test = T().visit(s.test)
            return s
        if isinstance(s, ast.For):
            s.iter = T().visit(s.iter)
            return s
        if isinstance(s, (ast.With, ast.Try)):
            return s
        return T().visit(s)


def inlined(program: Program, f: FuncInfo, recv=None, exprs: bool = True) -> FuncInfo:
    """recv: the concrete receiver class (hooks called through self / super() are resolved for it);
    exprs=False: only statement-level calls are spliced, calls inside expressions are left to the consumer"""
    inl = program.__dict__.setdefault("_inliner", None)
    if inl is None:
        inl = Inliner(program)
        program.__dict__["_inliner"] = inl
    return inl.inlined(f, recv, exprs)
