#!/venv/bin/python
"""Maintenance tool (not a registered check): evaluate one seeded change produced by an independent sub-agent.

    seed_eval.py <worktree> <seed-name>

1. takes `git diff -- pypika_tortoise` of the worktree as the patch;
2. confirms in the worktree: suite green with the patch; demo exits 1 with the patch and 0 without;
3. applies the patch to /repo, runs every quick check, records which report NEW violations, and undoes the patch
   (git -C <target, default /repo> checkout -- .) straight afterwards;
4. stores /verif/seeded/<seed-name>/{patch.diff, demo.py, meta.json}.
"""
import json
import os
import re
import shutil
import subprocess
import sys
from pathlib import Path

V = Path(__file__).resolve().parent.parent
PY = "/venv/bin/python"
TARGET = os.environ.get("SEED_EVAL_TARGET", "/repo")   # checkout the patch is applied to (default /repo; a scratch worktree at the same commit allows parallel runs)
ALL = ["C01", "C02", "C04", "C05", "C06", "C07", "C08", "C09", "C10", "C11", "C12", "C13", "C14", "C15", "C16", "C17", "C18"]


def sh(cmd, cwd=None, env=None, timeout=900):
    e = dict(os.environ)
    e.update(env or {})
    p = subprocess.run(cmd, shell=True, cwd=cwd, env=e, capture_output=True, text=True, timeout=timeout)
    return p.returncode, p.stdout + p.stderr


def main():
    wt, name = Path(sys.argv[1]), sys.argv[2]
    out = V / "seeded" / name
    rc, diff = sh("git diff -- pypika_tortoise", cwd=wt)
    if not diff.strip():
        print("no diff in worktree")
        return 1
    demo = wt / "seed_demo.py"
    meta_in = {}
    if (wt / "seed_meta.json").exists():
        try:
            meta_in = json.loads((wt / "seed_meta.json").read_text())
        except Exception:
            meta_in = {"raw": (wt / "seed_meta.json").read_text()[:2000]}
    env = {"PYTHONPATH": str(wt)}
    # with the patch
    rc_t, out_t = sh(f"{PY} -m pytest -q -p no:cacheprovider -x", cwd=wt, env=env)
    tests_line = [l for l in out_t.splitlines() if "passed" in l or "failed" in l][-1:] or [out_t[-200:]]
    rc_d1, out_d1 = sh(f"{PY} seed_demo.py", cwd=wt, env=env) if demo.exists() else (None, "no demo")
    # without the patch (git stash is shared between worktrees: reverse-apply the diff instead)
    pf = Path("/tmp") / f"seed-own-{name}.diff"
    pf.write_text(diff)
    rc_r, o_r = sh(f"git apply -R {pf}", cwd=wt)
    assert rc_r == 0, o_r
    try:
        rc_d0, out_d0 = sh(f"{PY} seed_demo.py", cwd=wt, env=env) if demo.exists() else (None, "no demo")
    finally:
        rc_a, o_a = sh(f"git apply {pf}", cwd=wt)
        assert rc_a == 0, o_a
        pf.unlink(missing_ok=True)
    confirmed = rc_t == 0 and rc_d1 == 1 and rc_d0 == 0
    print(f"suite with patch: {tests_line[0].strip()} | demo with patch rc={rc_d1} | demo without rc={rc_d0} | confirmed={confirmed}")
    # run the checks against the patched /repo
    detections = {}
    patch_file = Path("/tmp") / f"seed-{name}.diff"
    patch_file.write_text(diff)
    rc, o = sh(f"git -C {TARGET} apply {patch_file}")
    if rc != 0:
        # /repo has moved on (later fix: commits): try a three-way application against the blobs the patch was made from
        rc, o = sh(f"git -C {TARGET} apply --3way {patch_file}")
        unmerged = sh(f"git -C {TARGET} diff --name-only --diff-filter=U")[1].strip()
        if rc != 0 or unmerged:
            sh(f"git -C {TARGET} reset -q --hard")
            note = "patch no longer applies to the current /repo (the code it edits was changed by a later fix: commit); detection results below are from the last evaluation against the tree it applied to"
            print("patch does not apply to /repo:", o[:200])
            mf = out / "meta.json"
            if mf.exists():
                m = json.loads(mf.read_text())
                m["note"] = note
                mf.write_text(json.dumps(m, indent=1))
            return 1
        sh(f"git -C {TARGET} reset -q")   # keep the merged result in the working tree only
    try:
        for pid in ALL:
            rc, o = sh(f"{PY} {V}/sa/check.py {pid} --tier quick", env={"VERIF_EVIDENCE_DIR": f"/tmp/seed-evidence-{name}", "VERIF_REPO": TARGET})
            keys = re.findall(r"^  (C\d\d/.+?): ", o, flags=re.M)
            if rc == 1:
                detections[pid] = keys[:8]
            elif rc == 2:
                detections[pid] = ["ANALYSIS-ERROR: " + " ".join(l for l in o.splitlines() if "ANALYSIS-ERROR" in l)[:200]]
    finally:
        sh(f"git -C {TARGET} checkout -- .")
        sh(f"git -C {TARGET} clean -fdq pypika_tortoise")
        shutil.rmtree(f"/tmp/seed-evidence-{name}", ignore_errors=True)
        patch_file.unlink(missing_ok=True)
    rc, st = sh(f"git -C {TARGET} status --short")
    assert not st.strip(), st
    out.mkdir(parents=True, exist_ok=True)
    (out / "patch.diff").write_text(diff)
    if demo.exists():
        shutil.copy(demo, out / "demo.py")
    meta = {
        "property": meta_in.get("property", name[:3]),
        "summary": meta_in.get("summary", ""),
        "needs_to_manifest": meta_in.get("needs_to_manifest", ""),
        "files_touched": meta_in.get("files_touched", []),
        "confirmed": confirmed,
        "what_i_ran": {
            "suite_with_patch": tests_line[0].strip(),
            "demo_with_patch": {"rc": rc_d1, "output": out_d1[-600:]},
            "demo_without_patch": {"rc": rc_d0, "output": out_d0[-300:]},
            "commands": ["cd <worktree> && PYTHONPATH=<worktree> /venv/bin/python -m pytest -q -p no:cacheprovider -x",
                         "PYTHONPATH=<worktree> /venv/bin/python seed_demo.py  (with the patch, and after git stash)",
                         "git -C <target> apply patch.diff; /venv/bin/python /verif/sa/check.py <ID> --tier quick (all 17); git -C <target> checkout -- ."],
        },
        "detected_by": detections,
    }
    (out / "meta.json").write_text(json.dumps(meta, indent=1))
    print("detected by:", json.dumps(detections, indent=1)[:1500] if detections else "NONE")
    return 0


if __name__ == "__main__":
    sys.exit(main())
