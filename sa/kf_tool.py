#!/venv/bin/python
"""Maintenance tool (never run by a check): list the current unlisted violations of a property and,
with --add, append them to known_findings.json after they were confirmed by hand (repro script named).

  kf_tool.py C12 --add --repro repro/c12_alias.py --why "…"  [--only <substring>]
"""
import argparse
import json
import sys
from pathlib import Path

sys.path.insert(0, str(Path(__file__).resolve().parent.parent))
from sa.model import Program  # noqa: E402
from sa.report import KNOWN_FILE, Run, load_known  # noqa: E402
import importlib  # noqa: E402

ap = argparse.ArgumentParser()
ap.add_argument("prop")
ap.add_argument("--add", action="store_true")
ap.add_argument("--repro", default="")
ap.add_argument("--why", default="")
ap.add_argument("--only", default="")
a = ap.parse_args()
mod = importlib.import_module(f"sa.props.{a.prop.lower()}")
run = Run(a.prop, "quick")
mod.check(Program(), run)
known = load_known()
have = {(k["property"], k["key"]) for k in known["findings"]}
new = [f for f in run.findings if not f.info and (f.prop, f.key) not in have and a.only in f.key]
for f in new:
    print(f.key, "::", f.what[:160])
if a.add and new:
    for f in new:
        known["findings"].append({"property": f.prop, "key": f.key, "what_fails": f.what, "repro": a.repro, "why_not_fixed": a.why})
    KNOWN_FILE.write_text(json.dumps(known, indent=1) + "\n")
    print(f"added {len(new)}")
