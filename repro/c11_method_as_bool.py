"""Hand confirmation for C11/R4 (not a check)."""
from pypika_tortoise import PostgreSQLQuery, Table, Query
a, b = Table("abc"), Table("b")
print("UPDATE without FROM, RETURNING must be bare:", PostgreSQLQuery.update(a).set(a.x, 1).returning(a.id))
sub = Query.from_(b).select(b.x)
print("plain CTE body:", Query.with_(sub, "c1").from_("c1").select("x"))
print("non-recursive UNION CTE body still gets RECURSIVE:", Query.with_(sub.union(sub), "c1").from_("c1").select("x"))
