"""Hand confirmation for C16 (not a check): after replace_table(old, new) no reference to old may remain."""
from pypika_tortoise import Query, Table, Field, PostgreSQLQuery, Not, Tuple
from pypika_tortoise import functions as fn, analytics as an
from pypika_tortoise.terms import (Negative, All, Values, AtTimezone, NestedCriterion, BitwiseAndCriterion, ValueWrapper)
from pypika_tortoise.context import DEFAULT_SQL_CONTEXT
from pypika_tortoise.enums import Equality, Boolean
old, new, oth = Table("old"), Table("new"), Table("oth")
ctx = DEFAULT_SQL_CONTEXT.copy(with_namespace=True)
def left(name, term):
    try:
        s = term.replace_table(old, new).get_sql(ctx)
        print(f"  {name:28} {'OLD TABLE REMAINS' if 'old' in s else 'ok':18} {s}")
    except Exception as e:
        print(f"  {name:28} RAISES {type(e).__name__}: {e}")
print("terms:")
left("NestedCriterion.nested", NestedCriterion(Equality.eq, Boolean.and_, oth.a, oth.b, old.c))
left("Contains.container", oth.a.isin(Tuple(old.x, 1)))
left("Between.start/end", oth.a.between(old.lo, old.hi))
left("BitwiseAnd.value", BitwiseAndCriterion(oth.a, old.m))
left("Negative", Negative(old.x)); left("All", All(old.x)); left("Period", oth.a.from_to(old.s, old.e))
left("Values", Values(old.x)); left("AtTimezone", AtTimezone(old.x, "UTC")); left("Extract", fn.Extract("year", old.d))
left("Aggregate filter", fn.Sum(oth.a).filter(old.f > 1)); left("Analytic partition/order", an.Rank().over(old.p).orderby(old.o))
print("statements:")
left("UPDATE SET", Query.update(oth).set(oth.a, old.b + 1).from_(old))
left("ON CONFLICT", PostgreSQLQuery.into(old).insert(1).on_conflict(old.id).do_update(old.x, old.y + 1).where(old.z > 1))
left("RETURNING", PostgreSQLQuery.into(old).insert(1).returning(old.id))
left("DISTINCT ON", PostgreSQLQuery.from_(old).select(old.x).distinct_on(old.y))
left("subquery in FROM", Query.from_(Query.from_(old).select(old.x)).select("x"))
left("set operation", Query.from_(old).select(old.x).union(Query.from_(old).select(old.y)))
left("CTE", Query.with_(Query.from_(old).select(old.x), "c").from_("c").select("x"))
left("cross join", Query.from_(oth).join(old).cross().select(old.x))
