"""Hand confirmation for C12 findings on the real library (not a check)."""
from pypika_tortoise import Query, Table, Field, Case, Not, Tuple, Array, JSON, NullValue, ValueWrapper, Parameter, Index
from pypika_tortoise import functions as fn, analytics as an
from pypika_tortoise.terms import (Negative, Values, PseudoColumn, ComplexCriterion, LiteralValue, All, AtTimezone,
                                   BetweenCriterion, PeriodCriterion, BitwiseAndCriterion, NullCriterion, ContainsCriterion, NestedCriterion)
from pypika_tortoise.enums import Comparator, Boolean, Equality
t = Table("t")
x = Field("x", table=t)
ax = Field("x", alias="k", table=t)   # aliased operand

print("== never (alias lost in the select list)")
for name, term in [("Negative", (-x).as_("a")), ("Values", Values("x").as_("a")), ("Index", Index("i").as_("a")),
                   ("PseudoColumn", PseudoColumn("ROWNUM").as_("a")), ("Parameter", Parameter("?").as_("a")),
                   ("ComplexCriterion", ((x == 1) & (x == 2)).as_("a"))]:
    s = str(Query.from_(t).select(term)); print(f"  {name:18}", s, "| alias missing:", '"a"' not in s)
print("== unconditional (alias printed inside an expression / criterion)")
for name, term in [("ValueWrapper", ValueWrapper(1, alias="a")), ("JSON", JSON({"k": 1}, alias="a")), ("LiteralValue", LiteralValue("now()", alias="a")),
                   ("Tuple", Tuple(1, 2).as_("a")), ("Array", Array(1, 2).as_("a")), ("Not", Not(x == 1, alias="a")), ("All", All(x, alias="a")),
                   ("AtTimezone", AtTimezone("x", "UTC", alias="a")), ("Between", x.between(1, 2).as_("a")), ("Null", x.isnull().as_("a")),
                   ("Contains", x.isin([1]).as_("a")), ("BitwiseAnd", x.bitwiseand(1).as_("a")), ("Period", x.from_to(1, 2).as_("a"))]:
    s = str(Query.from_(t).select(x).where(term == 1) if name in ("ValueWrapper", "JSON", "LiteralValue", "Tuple", "Array", "AtTimezone") else Query.from_(t).select(x).where(term))
    print(f"  {name:18}", s, "| alias inside WHERE:", '"a"' in s or " a" in s.split("WHERE")[1])
print("== operand slots inherit with_alias (aliased operand inside a select-list expression)")
for name, term in [("BasicCriterion", ax == 1), ("Arithmetic", ax + 1), ("Negative", -ax), ("Not", Not(ax == 1)), ("Tuple", Tuple(ax, 1)),
                   ("Between", ax.between(1, 2)), ("Null", ax.isnull()), ("Contains", ax.isin([1])), ("BitwiseAnd", ax.bitwiseand(1)),
                   ("All", All(ax)), ("Window partition", an.Rank().over(ax)), ("Window orderby", an.Rank().orderby(ax)),
                   ("Agg filter", fn.Sum(x).filter(ax == 1)), ("Extract", fn.Extract("year", ax)), ("ComplexCriterion", (ax == 1) & (x == 2))]:
    s = str(Query.from_(t).select(term)); print(f"  {name:18}", s, "| operand alias printed:", '"k"' in s)
print("== GROUP BY / ORDER BY fallback inside an aliased subquery")
inner = Query.from_(t).select(x).groupby(ax).orderby(ax)
print("  ", Query.from_(inner).select("x"))
