"""Hand confirmation (not a registered check) of three C14 defects found by the R2/R4 rules and repaired in /repo:
   dcfb064  unqualified column in the ON criterion of an UPDATE ... JOIN raised JoinException(Found [None])
   56ba9d4  q1.union(q2.union(q3)) raised TypeError: object of type 'Field' has no len()
   9edfb95  AliasedQuery('x', Table('t')).replace_table(...) raised TypeError: 'Field' object is not callable
Run with PYTHONPATH=/repo; prints the outcome of each input on the current tree."""
from pypika_tortoise import Field, MySQLQuery, Query, Table
from pypika_tortoise.queries import AliasedQuery

t, u, v = Table("t"), Table("u"), Table("v")


def attempt(label, fn):
    try:
        print(f"{label}: {fn()}")
    except Exception as e:  # noqa: BLE001
        print(f"{label}: {type(e).__name__}: {e}")


attempt("update-join-on-unqualified", lambda: str(MySQLQuery.update(t).join(u).on(Field("x") == u.id).set(t.a, 1)))
q1, q2, q3 = (Query.from_(x).select(x.a) for x in (t, u, v))
attempt("nested-set-operation", lambda: str(q1.union(q2.union(q3))))
attempt("aliased-table-replace", lambda: str(AliasedQuery("x", t).replace_table(t, v).query))
