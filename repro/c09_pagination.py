"""Hand confirmation for C09 known findings (not a check)."""
import sqlite3
from pypika_tortoise import Table, MSSQLQuery, OracleQuery, SQLLiteQuery, MySQLQuery, Query
t = Table("t")
q = str(SQLLiteQuery.from_(t).select(t.x).offset(5)); print("offset only (SQLite/MySQL/generic):", q)
c = sqlite3.connect(":memory:"); c.execute("create table t(x)")
try: c.execute(q)
except Exception as e: print("  sqlite3 rejects it:", e)
print("TOP with OFFSET (T-SQL forbids):", MSSQLQuery.from_(t).select(t.x).top(3).offset(2))
for Q in (MSSQLQuery, OracleQuery):
    u = Q.from_(t).select(t.x).union(Q.from_(t).select(t.x)).limit(3).offset(1)
    print(Q.__name__, "set operation pagination:", u.get_sql(Q.SQL_CONTEXT))
