"""Hand confirmation for C07 (not a check)."""
from pypika_tortoise import Query, Table, Field
t = Table('we"ird')
print("quote char inside a name:", Query.from_(t).select(Field('c"d', table=t).as_('a"b')))
sub = Query.from_(Table("b")).select("x")
print("CTE name with a space / keyword:", Query.with_(sub, "my cte").from_("my cte").select("x"))
from pypika_tortoise.queries import AliasedQuery
print("AliasedQuery reference:", Query.with_(sub, "select").from_(AliasedQuery("select")).select("x"))
