"""Hand confirmation for C08 findings (not a check)."""
from pypika_tortoise import Query, Table, MySQLQuery, MSSQLQuery, OracleQuery, SQLLiteQuery, PostgreSQLQuery
a, b = Table("a"), Table("b")
gen_union = Query.from_(a).select(a.x).union(Query.from_(b).select(b.x))
print("ctx-rederive (_SetOperation dialect/quote_char from its base query):")
print("  ", MySQLQuery.from_(gen_union).select("x"))
gen_sub = Query.from_(a).select(a.x).limit(5).offset(2)
print("class-keyed pagination (generic subquery inside MSSQL / Oracle):")
print("  ", MSSQLQuery.from_(gen_sub).select("x"))
print("  ", OracleQuery.from_(gen_sub).select("x"))
print("class-keyed value literals (criterion operands use the generic wrapper):")
print("  ", SQLLiteQuery.from_(a).select(True).where(a.x == True))  # noqa: E712
print("  ", MySQLQuery.from_(a).select("a\\b").where(a.x == "a\\b"))
print("class-keyed set-operand wrapping (generic base query in a MySQL statement wraps; MySQL base does not):")
print("  ", MySQLQuery.from_(gen_union).select("x"))
print("  ", MySQLQuery.from_(MySQLQuery.from_(a).select(a.x).union(MySQLQuery.from_(b).select(b.x))).select("x"))
