"""Hand confirmation for C17 (not a check)."""
from pypika_tortoise import Query, Table, SYSTEM_TIME, Field
from pypika_tortoise import functions as fn, analytics as an
from pypika_tortoise.terms import Negative, Values, AtTimezone
from pypika_tortoise.exceptions import JoinException
a, b, c = Table("a"), Table("b"), Table("c")
t1, t2 = Table("t"), Table("t").for_(SYSTEM_TIME.as_of("2020-01-01"))
print("Table eq/hash:", t1 == t2, hash(t1) == hash(t2), "| in set:", t2 in {t1})
q1, q2 = Query.from_(a).select("x"), Query.from_(b).select("x")
print("QueryBuilder eq/hash:", q1 == q2, hash(q1) == hash(q2))
def joins(crit):
    try: Query.from_(a).join(b).on(crit); return "accepted"
    except JoinException: return "rejected"
print("foreign table c hidden inside a child that nodes_() does not traverse (should be rejected):")
for name, crit in [("plain", c.x == b.y), ("Negative", Negative(c.x) == b.y), ("Extract", fn.Extract("year", c.d) == b.y),
                   ("AtTimezone", AtTimezone(c.x, "UTC") == b.y), ("Agg filter", fn.Sum(b.y).filter(c.x > 1) == b.y),
                   ("Window partition", an.Rank().over(c.x) == b.y)]:
    print(f"  {name:18}", joins(crit))
print("Field de-duplication by hash of unqualified text (operand-order dependence):", joins(c.x == a.x), joins(a.x == c.x), len((a.x == c.x).fields_()))
