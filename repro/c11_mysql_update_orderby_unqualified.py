"""C11 known finding: MySQL appends ORDER BY / LIMIT of an UPDATE with the *outer* context, so the statement's own
namespace decision (joins present -> qualify every column) does not reach the ORDER BY clause.
Run: PYTHONPATH=/repo /venv/bin/python repro/c11_mysql_update_orderby_unqualified.py   (exits 1 while the defect exists)"""
import sys
from pypika_tortoise import MySQLQuery, Table

a, b = Table("a"), Table("b")
q = MySQLQuery.update(a).join(b).on(a.id == b.a_id).set(a.x, b.y).where(a.z == 1).orderby(a.id).limit(3)
sql = str(q)
print(sql)
tail = sql.split("ORDER BY", 1)[1]
if "`a`.`id`" not in tail:
    print("ORDER BY column is not qualified although the statement has two row sources (WHERE and SET are)")
    sys.exit(1)
print("OK")
