"""Hand confirmation for C13 order-sensitive couplings (not a check)."""
from pypika_tortoise import Query, Table, PostgreSQLQuery
a, b = Table("a"), Table("b")
print("into/select:", Query.into(a).from_(b).select(b.x), "||", Query.from_(b).select(b.x).into(a))
print("where before/after from_ (foreign-table flag):", Query.from_(a).where(b.y == 1).select(a.x), "||", Query.select(a.x).where(b.y == 1).from_(a).from_(b).where(a.x==1) )
q1 = Query.from_(a).select(a.x).where(a.y == 1)
q2 = Query.select(a.x).where(a.y == 1).from_(a)
print("same calls, different order:", q1, "||", q2)
i1 = PostgreSQLQuery.into(a).insert(1).where(a.x == 1).on_conflict(a.id).do_update(a.x, 2)
i2 = PostgreSQLQuery.into(a).insert(1).on_conflict(a.id).do_update(a.x, 2).where(a.x == 1)
print("where/on_conflict routing:", i1, "||", i2)
r1 = PostgreSQLQuery.update(a).set(a.x, 1).returning("id")
print("returning str attached at call time:", r1)
