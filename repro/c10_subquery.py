"""Hand confirmation for C10 (not a check): embedded rendering must contain the stand-alone rendering."""
from pypika_tortoise import Query, Table, Field, Not
from pypika_tortoise import functions as fn
t, u = Table("t"), Table("u")
ak = Field("k", alias="kk", table=t)
inner = (Query.from_(t).select(t.x).where((ak == 1) & (t.y == 2)).groupby(ak).having(fn.Count(ak) > 1).orderby(ak))
alone = str(inner)
def contains(outer): return alone in str(outer)
print("stand-alone :", alone)
print("FROM        :", Query.from_(inner).select("x"), "| contains stand-alone:", contains(Query.from_(inner).select("x")))
print("IN          :", contains(Query.from_(u).select(u.a).where(u.a.isin(inner))))
print("NOT IN (subcriterion leak):", Query.from_(u).select(u.a).where(Not(u.a.isin(inner))), "|", contains(Query.from_(u).select(u.a).where(Not(u.a.isin(inner)))))
print("select item :", contains(Query.from_(u).select(inner)))
un = inner.union(inner)
print("set operand with alias:", Query.from_(inner.as_("al").union(inner)).select("x"))
cnt = Query.from_(u).select(fn.Count("*"))
print("HAVING operand:", Query.from_(t).select(t.x).groupby(t.x).having(fn.Count("*") > cnt))
