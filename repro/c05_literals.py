"""Hand confirmation for C05 (not a check)."""
from pypika_tortoise import MySQLQuery, SQLLiteQuery, Table, Query, JSON
from pypika_tortoise.terms import AtTimezone
t = Table("t")
print("fixed (e6ce4ef): dict literal with a quote:", Query.from_(t).select(t.x).where(t.x == {"k": "it's"}))
print("fixed: JSON term:", Query.from_(t).select(JSON({"k": "it's \"q\""})))
print("fixed: AT TIME ZONE:", AtTimezone("x", "it's"))
print("known (MySQL backslash, criterion operand / insert use the generic wrapper):")
print("   ", MySQLQuery.from_(t).select("a").where(t.x == "a\\"), "|", MySQLQuery.into(t).insert("a\\"))
print("    select()/set() positions escape:", MySQLQuery.from_(t).select(t.x, "lit\\").get_sql() if False else MySQLQuery.update(t).set(t.x, "a\\"))
print("known (SQLite bool form): ", SQLLiteQuery.from_(t).select(True).where(t.x == True), "|", SQLLiteQuery.into(t).insert(True))  # noqa: E712
