"""Hand confirmation (not a check): each line prints True when the defect is present.
Run: /venv/bin/python /verif/repro/c01_c02_shared_state.py"""
from pypika_tortoise import Query, Table, Case, Field, MySQLQuery, PostgreSQLQuery, SQLLiteQuery
from pypika_tortoise import functions as fn, analytics as an
from pypika_tortoise.queries import Column

a, b = Table("a"), Table("b")
def changed(base, *conts):
    before = str(base)
    for c in conts: c(base)
    return str(base) != before

print("Case.when", changed(Case().when(a.x == 1, 1), lambda c: c.when(a.x == 2, 2)))
u = Query.from_(a).select(a.x).union(Query.from_(b).select(b.x))
print("_SetOperation.union", changed(u, lambda q: q.union(Query.from_(a).select(a.y))))
print("_SetOperation.orderby", changed(u, lambda q: q.orderby(a.x)))
q = Query.from_(a).select(a.x).force_index("i1").use_index("u1")
print("force_index", changed(q, lambda q: q.force_index("i2")))
print("use_index", changed(q, lambda q: q.use_index("u2")))
g = Query.from_(a).select(a.x).rollup(a.x)
print("rollup", changed(g, lambda q: q.rollup(a.y)))
c = Query.create_table("t").columns(Column("x", "INT"))
print("create.columns", changed(c, lambda q: q.columns(Column("y", "INT"))))
print("create.period_for", changed(c.period_for("p", "s", "e"), lambda q: q.period_for("p2", "s", "e")))
print("create.unique", changed(c.unique("x"), lambda q: q.unique("y")))
m = MySQLQuery.from_(a).select(a.x).modifier("SQL_CALC_FOUND_ROWS")
print("mysql.modifier", changed(m, lambda q: q.modifier("HIGH_PRIORITY")))
p = PostgreSQLQuery.from_(a).select(a.x).distinct_on(a.x)
print("pg.distinct_on", changed(p, lambda q: q.distinct_on(a.y)))
s = fn.Sum(a.x).filter(a.y > 1)
print("agg.filter", changed(s, lambda f: f.filter(a.z > 2)))
r = an.Rank().over(a.x).orderby(a.y)
print("analytic.over", changed(r, lambda f: f.over(a.z)))
print("analytic.orderby", changed(r, lambda f: f.orderby(a.z)))
for Q in (PostgreSQLQuery, SQLLiteQuery):
    up = Q.update(a).join(b).on(a.id == b.id).set(a.x, b.y)
    print(Q.__name__, "second render differs", str(up) != str(up))
