"""Hand confirmation for C06 (not a check): builds parent(child) for every cell the static table reports,
renders it with the real library and re-parses the text with a small reference precedence parser.
Usage: /venv/bin/python repro/c06_grouping.py  (reads the cells from evidence/C06.json)"""
import json, re, sys
from pypika_tortoise import Field, Not
from pypika_tortoise.terms import (ArithmeticExpression, BasicCriterion, ComplexCriterion, Negative, NullCriterion, ValueWrapper,
                                   NestedCriterion, All, BetweenCriterion, PeriodCriterion, ContainsCriterion, Tuple)
from pypika_tortoise.enums import Arithmetic, Boolean, Equality

TOK = re.compile(r'\s*(IS NULL|NOT IN|BETWEEN|FROM|TO|IN|ALL|AND|XOR|OR|NOT|<>|>=|<=|[-+*/=<>(),]|"[a-z]+"|-?\d+|\S)')
PREC = {"OR": 0, "XOR": 0, "AND": 1, "=": 3, "<>": 3, "<": 3, ">": 3, "+": 4, "-": 4, "*": 5, "/": 5}

def parse(sql):
    toks = TOK.findall(sql); pos = [0]
    def peek(): return toks[pos[0]] if pos[0] < len(toks) else None
    def nxt(): pos[0] += 1; return toks[pos[0] - 1]
    def level(n):
        if not isinstance(n, tuple): return 7
        return {"paren": 7, "neg": 6, "not": 2, "isnull": 3, "all": 3, "between": 3, "in": 3}.get(n[0], PREC.get(n[0], 7))
    def expr(minp=0, no_and=False):
        # strict precedence grammar: a construct of level L may only be the operand of an operator of level <= L
        # (left operand; < L for the non-associative comparison level)
        t = nxt()
        if t == "(":
            left = ("paren", expr()); assert nxt() == ")", sql
        elif t == "-": left = ("neg", expr(6))
        elif t == "NOT":
            assert minp <= 2, "NOT in an operand position that binds tighter: " + sql
            left = ("not", expr(3))
        else: left = t
        while True:
            op = peek()
            if op in ("IS NULL", "ALL", "BETWEEN", "IN") and 3 >= minp:
                assert level(left) > 3, "comparison-level construct as operand of a comparison-level operator: " + sql
                nxt()
                if op == "IS NULL": left = ("isnull", left)
                elif op == "ALL": left = ("all", left)
                elif op == "BETWEEN":
                    lo = expr(4, True); assert nxt() == "AND", sql; hi = expr(4); left = ("between", left, lo, hi)
                else: left = ("in", left, expr(4))
                continue
            if op in PREC and PREC[op] >= minp and not (no_and and op == "AND"):
                need = PREC[op] + (1 if PREC[op] == 3 else 0)
                assert level(left) >= need, "left operand binds looser than the operator: " + sql
                nxt(); right = expr(PREC[op] + 1); left = (op, left, right); continue
            return left
    tree = expr(); assert pos[0] == len(toks), (sql, toks[pos[0]:]); return tree

def strip(t):  # parentheses are grouping only
    if isinstance(t, tuple): 
        if t[0] == "paren": return strip(t[1])
        return tuple(strip(x) for x in t)
    return t

x, y, z = Field("x"), Field("y"), Field("z")
CHILD = {"atom": lambda: y, "negative-literal": lambda: ValueWrapper(-1), "unary-minus": lambda: Negative(y),
         "mul": lambda: y * z, "div": lambda: y / z, "add": lambda: y + z, "sub": lambda: y - z,
         "comparison": lambda: y == z, "postfix-criterion": lambda: y.isnull(), "not": lambda: Not(y == z),
         "and": lambda: (y == 1) & (z == 2), "or": lambda: (y == 1) | (z == 2), "xor": lambda: (y == 1) ^ (z == 2)}
def build(parent, slot, op, child):
    c = CHILD[child]()
    if parent == "ArithmeticExpression":
        o = getattr(Arithmetic, op); return ArithmeticExpression(o, c, x) if slot == "left" else ArithmeticExpression(o, x, c)
    if parent == "Negative": return Negative(c)
    if parent == "BasicCriterion": return BasicCriterion(Equality.eq, c, x) if slot == "left" else BasicCriterion(Equality.eq, x, c)
    if parent == "NullCriterion": return NullCriterion(c)
    if parent == "All": return All(c)
    if parent == "BetweenCriterion": return BetweenCriterion(*[c if s == slot else f for s, f in (("term", x), ("start", Field("a")), ("end", Field("b")))])
    if parent == "ContainsCriterion": return ContainsCriterion(c, Tuple(1, 2))
    return None
cells = json.load(open("/verif/evidence/C06.json"))["coverage"]["table"]
bad = conf = skipped = 0
for cell, v in cells.items():
    if not v["needed"] or v["wrapped"]: continue
    m = re.match(r"(\w+)\.(\w+)\[(\w+)\]:([\w-]+)", cell); parent, slot, op, child = m.groups()
    node = build(parent, slot, op, child)
    if node is None: skipped += 1; continue
    sql = str(node); intended_child = strip(parse(str(CHILD[child]())))
    try:
        tree = strip(parse(sql))
    except AssertionError:
        print(f"  {cell:55} {sql:40} -> does not even parse"); conf += 1; continue
    idx = {"left": 1, "term": 1, "right": 2, "start": 2, "end": 3}.get(slot, 1)
    got = tree[idx] if isinstance(tree, tuple) and len(tree) > idx else None
    if parent == "Negative": got = tree[1] if isinstance(tree, tuple) and tree[0] == "neg" else None
    ok = got == intended_child
    if ok: bad += 1; print(f"  NOT CONFIRMED {cell}: {sql} parses back as built")
    else: conf += 1
    if "-v" in sys.argv: print(f"  {cell:55} {sql:40} -> {tree}")
print(f"cells reported needing parentheses: confirmed regrouped={conf} not confirmed={bad} not constructible here={skipped}")
print("fusion:", str(x - ValueWrapper(-1)), "|", str(x - Negative(y)), "|", str(Negative(Negative(y))), "|", str(Negative(ValueWrapper(-1))))
