"""C16: row sources that are not the table itself are not descended into by replace_table.

  1. Join.replace_table / JoinUsing.replace_table replace `item` only when it equals the table: a joined subquery
     (QueryBuilder, set operation, aliased query) keeps the old table in its own FROM.
  2. QueryBuilder.replace_table descends into FROM elements that are QueryBuilder / _SetOperation only: an AliasedQuery
     wrapping a query (AliasedQuery.replace_table exists and would rewrite it) keeps the old table.

Run with /venv/bin/python; prints the renderings and exits 1 while the defect is present."""
import sys

from pypika_tortoise import AliasedQuery, Query, Table

a, b, c = Table("a"), Table("b"), Table("c")
bad = 0

sub = Query.from_(a).select(a.x).as_("s")
q1 = Query.from_(c).select(c.x).join(sub).on(c.x == sub.x)
got = str(q1.replace_table(a, b))
sub_b = Query.from_(b).select(b.x).as_("s")
want = str(Query.from_(c).select(c.x).join(sub_b).on(c.x == sub_b.x))
print("join item   got :", got)
print("join item   want:", want)
bad += got != want

q1u = Query.from_(c).select(c.x).join(sub).using("x")
got = str(q1u.replace_table(a, b))
want = str(Query.from_(c).select(c.x).join(sub_b).using("x"))
print("join using  got :", got)
print("join using  want:", want)
bad += got != want

aq = AliasedQuery("s", Query.from_(a).select(a.x))
q2 = Query.from_(aq).select("x")
got = str(q2.replace_table(a, b))
want = str(Query.from_(AliasedQuery("s", Query.from_(b).select(b.x))).select("x"))
print("from aliased got :", got)
print("from aliased want:", want)
bad += got != want

sys.exit(1 if bad else 0)
